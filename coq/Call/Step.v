(* Call/Step.v — CallableSchema.CallStep / CallSignal (schema/schema.go), CallableStepSchema.Call /
   CallSignal / setupStepData (schema/step.go) and CallableSignalSchema.Call (schema/signal.go),
   path by path, at the repaired tree (D22: an unknown signal id is an error; D65: step data that is
   the NIL INTERFACE — StepData an interface type and no initialiser, or one returning nil — reaches
   the signal handler as StepData's zero value, exactly like a typed nil pointer: `sdata = None`
   stands for both Go representations, so the model does not distinguish them).

   The data layer is Schema/Ops.v: a step's input, each output and each signal's data schema is a
   `schema` (a scope).  The step handler is a Section variable: every theorem holds for every
   handler.  Every call returns, next to its result, the LOG of handler invocations it made (with
   the step data and the argument the handler saw) and the new state of the per-step run tables
   (CallableStepSchema.stepData, guarded by initializerMutex). *)
From Verif Require Import Base.Prelude Base.Str Base.Float Base.GoVal
  Schema.Regex Schema.Units Schema.Syntax Schema.Ops ATP.Msg.
Open Scope string_scope.

(* ---------- a plugin: CallableSchema.StepsValue ---------- *)
Record step_d := mkStepD {
  sd_input : schema;                          (* InputValue *ScopeSchema *)
  sd_outputs : list (string * schema);        (* OutputsValue: output id -> StepOutputSchema.SchemaValue *)
  sd_signals : list (string * schema);        (* SignalHandlersValue: signal id -> data scope *)
  sd_has_init : bool }.                       (* initializer != nil *)
Definition plugin := list (stepid * step_d).  (* Go map: unique keys *)

(* ---------- per-run step data ---------- *)
(* The initialiser is `func() StepData`: it takes no argument, so all a handler can tell about
   the value it receives is WHICH invocation of the initialiser produced it.  Some k = the value
   returned by the k-th invocation (per step, counted from 0); None = the zero value of StepData
   (no initialiser). *)
Definition sdata := option N.
Definition sdata_eqb (a b : sdata) : bool :=
  match a, b with Some x, Some y => N.eqb x y | None, None => true | _, _ => false end.

Record sd_table := mkTab {
  t_entries : list (runid * sdata);           (* stepData map[string]*runningStepData *)
  t_inits : N }.                              (* number of initialiser invocations so far *)
Definition tab_empty : sd_table := mkTab [] 0%N.

(* setupStepData: ONE critical section of initializerMutex *)
Definition setup_step_data (has_init : bool) (run : runid) (t : sd_table) : sd_table * sdata :=
  match alookup run (t_entries t) with
  | Some d => (t, d)                                          (* "Already done" *)
  | None =>
      if has_init
      then (mkTab ((run, Some (t_inits t)) :: t_entries t) (N.succ (t_inits t)), Some (t_inits t))
      else (mkTab ((run, None) :: t_entries t) (t_inits t), None)
  end.

Definition pstate := list (stepid * sd_table).               (* one table per step *)
Definition tab_of (ps : pstate) (sid : stepid) : sd_table :=
  match alookup sid ps with Some t => t | None => tab_empty end.
Fixpoint tab_set (sid : stepid) (t : sd_table) (ps : pstate) : pstate :=
  match ps with
  | [] => [(sid, t)]
  | (k, v) :: r => if String.eqb sid k then (k, t) :: r else (k, v) :: tab_set sid t r
  end.

(* ---------- results ---------- *)
(* provenance of an error; go_type below is what errors.As can tell *)
Inductive call_err :=
| CENoSuchStep                    (* schema.go: BadArgumentError "Invalid step called" *)
| CENoSuchSignal                  (* schema.go (D22 repaired): BadArgumentError "Invalid signal called" *)
| CEInvalidInput (e : err)        (* InvalidInputError{cause}: Unserialize or the re-Validate of the input *)
| CEUndeclaredOutput              (* step.go: InvalidOutputError{undeclared output ID} *)
| CEOutputData (e : err)          (* step.go: the bare error of output.Validate — NOT wrapped *)
| CEOutputSerialize (e : err).    (* schema.go: InvalidOutputError{Serialize error} *)

Inductive go_err_type := GBadArgument | GInvalidInput | GInvalidOutput | GPlain.
Definition go_type (c : call_err) : go_err_type :=
  match c with
  | CENoSuchStep | CENoSuchSignal => GBadArgument
  | CEInvalidInput _ => GInvalidInput
  | CEUndeclaredOutput | CEOutputSerialize _ => GInvalidOutput
  | CEOutputData _ => GPlain
  end.

Inductive sres (A : Type) := SOk (a : A) | SErr (c : call_err) | SPanic (why : string) | SFuel.
Arguments SOk {A}. Arguments SErr {A}. Arguments SPanic {A}. Arguments SFuel {A}.
Definition is_spanic {A} (r : sres A) : bool := match r with SPanic _ => true | _ => false end.

Inductive log_entry :=
| LStep (sid : stepid) (run : runid) (d : sdata) (arg : gval)
| LSignal (sid : stepid) (sig : string) (run : runid) (d : sdata) (arg : gval).

Section Calls.
Variable words : list (string * bool).
Variable pu : units -> string -> option fl.
Variable e : env.
Variable fuel : nat.

Definition s_unser := unser words pu fuel e.
Definition s_validate := validate words pu fuel e.
Definition s_serialize := serialize words pu fuel e.

Section WithHandler.
(* the step handler: (step id, unserialized input) -> (output id, output data) *)
Variable handler : stepid -> gval -> string * gval.

(* CallableStepSchema.Call after the handler returned: output lookup, output.Validate;
   then CallableSchema.CallStep: Serialize *)
Definition check_output (st : step_d) (oid : string) (odata : gval) : sres (string * gval) :=
  match alookup oid (sd_outputs st) with
  | None => SErr CEUndeclaredOutput
  | Some os =>
      match s_validate os odata with
      | Err er => SErr (CEOutputData er)
      | Panic w => SPanic w
      | OutOfFuel => SFuel
      | Ok _ =>
          match s_serialize os odata with
          | Ok w => SOk (oid, w)
          | Err er => SErr (CEOutputSerialize er)
          | Panic w => SPanic w
          | OutOfFuel => SFuel
          end
      end
  end.

Definition call_step (ps : pstate) (p : plugin) (run : runid) (sid : stepid) (raw : gval)
  : sres (string * gval) * list log_entry * pstate :=
  match alookup sid p with
  | None => (SErr CENoSuchStep, [], ps)
  | Some st =>
      match s_unser (sd_input st) raw with
      | Err er => (SErr (CEInvalidInput er), [], ps)
      | Panic w => (SPanic w, [], ps)
      | OutOfFuel => (SFuel, [], ps)
      | Ok n =>
          (* step.Call: InputValue.Validate(input) once more *)
          match s_validate (sd_input st) n with
          | Err er => (SErr (CEInvalidInput er), [], ps)
          | Panic w => (SPanic w, [], ps)
          | OutOfFuel => (SFuel, [], ps)
          | Ok _ =>
              let '(t', d) := setup_step_data (sd_has_init st) run (tab_of ps sid) in
              let '(oid, odata) := handler sid n in
              (check_output st oid odata, [LStep sid run d n], tab_set sid t' ps)
          end
      end
  end.

(* CallableStepSchema.Call called DIRECTLY through the CallableStep interface (the way the SDK's own
   step tests and embedding code use it): the input is a NATIVE value that never went through
   Unserialize, so step.go's `InputValue.Validate(input)` is the only guard in front of the handler.
   The triple (outputID, outputData, output.Validate(outputData)) is returned as it is: the data is
   NOT serialized (that is CallableSchema.CallStep's last step). *)
Definition check_output_direct (st : step_d) (oid : string) (odata : gval) : sres (string * gval) :=
  match alookup oid (sd_outputs st) with
  | None => SErr CEUndeclaredOutput
  | Some os =>
      match s_validate os odata with
      | Err er => SErr (CEOutputData er)
      | Panic w => SPanic w
      | OutOfFuel => SFuel
      | Ok _ => SOk (oid, odata)
      end
  end.

Definition call_direct (ps : pstate) (p : plugin) (run : runid) (sid : stepid) (input : gval)
  : sres (string * gval) * list log_entry * pstate :=
  match alookup sid p with
  | None => (SErr CENoSuchStep, [], ps)      (* no Go counterpart: the caller holds the step object *)
  | Some st =>
      match s_validate (sd_input st) input with
      | Err er => (SErr (CEInvalidInput er), [], ps)
      | Panic w => (SPanic w, [], ps)
      | OutOfFuel => (SFuel, [], ps)
      | Ok _ =>
          let '(t', d) := setup_step_data (sd_has_init st) run (tab_of ps sid) in
          let '(oid, odata) := handler sid input in
          (check_output_direct st oid odata, [LStep sid run d input], tab_set sid t' ps)
      end
  end.
End WithHandler.

(* CallableSchema.CallSignal -> CallableStepSchema.CallSignal -> CallableSignalSchema.Call.
   unknown_signal: what an unknown signal id does — the repaired code returns an error, the
   unrepaired code dereferenced a nil *SignalSchema (D22). *)
Definition call_signal_gen (unknown_signal : sres unit) (ps : pstate) (p : plugin) (run : runid)
    (sid : stepid) (sig : string) (raw : gval) : sres unit * list log_entry * pstate :=
  match alookup sid p with
  | None => (SErr CENoSuchStep, [], ps)
  | Some st =>
      match alookup sig (sd_signals st) with
      | None => (unknown_signal, [], ps)
      | Some ss =>
          match s_unser ss raw with
          | Err er => (SErr (CEInvalidInput er), [], ps)
          | Panic w => (SPanic w, [], ps)
          | OutOfFuel => (SFuel, [], ps)
          | Ok n =>
              (* step.CallSignal: the step data is set up BEFORE the signal re-validates its input *)
              let '(t', d) := setup_step_data (sd_has_init st) run (tab_of ps sid) in
              let ps' := tab_set sid t' ps in
              match s_validate ss n with
              | Err er => (SErr (CEInvalidInput er), [], ps')
              | Panic w => (SPanic w, [], ps')
              | OutOfFuel => (SFuel, [], ps')
              | Ok _ => (SOk tt, [LSignal sid sig run d n], ps')
              end
          end
      end
  end.

Definition call_signal := call_signal_gen (SErr CENoSuchSignal).
Definition call_signal_prefix := call_signal_gen (SPanic "nil pointer dereference: SignalHandlers()[signalID].DataSchema()").

(* ---------- histories ---------- *)
(* one operation = one CallStep or CallSignal; a step operation carries the behaviour of the
   handler for that call (any function) *)
Inductive sop :=
| OpCall (run : runid) (sid : stepid) (raw : gval) (h : stepid -> gval -> string * gval)
| OpSignal (run : runid) (sid : stepid) (sig : string) (raw : gval)
| OpDirect (run : runid) (sid : stepid) (input : gval) (h : stepid -> gval -> string * gval).

Inductive op_result := RCall (r : sres (string * gval)) | RSignal (r : sres unit).

Definition exec_op (p : plugin) (ps : pstate) (o : sop) : op_result * list log_entry * pstate :=
  match o with
  | OpCall run sid raw h => let '(r, l, ps') := call_step h ps p run sid raw in (RCall r, l, ps')
  | OpSignal run sid sig raw => let '(r, l, ps') := call_signal ps p run sid sig raw in (RSignal r, l, ps')
  | OpDirect run sid input h => let '(r, l, ps') := call_direct h ps p run sid input in (RCall r, l, ps')
  end.

(* the state after a history, with the per-operation results and logs (in order) *)
Definition exec_acc (p : plugin) (acc : list (op_result * list log_entry) * pstate) (o : sop)
  : list (op_result * list log_entry) * pstate :=
  let '(r, l, ps') := exec_op p (snd acc) o in ((fst acc ++ [(r, l)])%list, ps').
Definition exec_ops (p : plugin) (ops : list sop) : list (op_result * list log_entry) * pstate :=
  fold_left (exec_acc p) ops ([], []).

End Calls.

(* ---------- setupStepData under interleaving ---------- *)
(* Threads (one per step call or signal call on ONE step) interleave at the granularity of the
   critical section: `ESetup tid run` is thread tid executing setupStepData(run) — atomic, it holds
   initializerMutex throughout —, `EHandler tid` is thread tid invoking its handler, outside the
   lock, with the value its own setup returned.  A schedule is ANY list of events (a handler event
   of a thread that has not set up yet does nothing: the code cannot do that). *)
Inductive sd_event := ESetup (tid : N) (run : runid) | EHandler (tid : N).

Record il_state := mkIl {
  il_tab : sd_table;
  il_local : list (N * (runid * sdata));        (* tid -> what its setup returned *)
  il_initby : list (runid * N);                 (* which thread's setup ran the initialiser for run *)
  il_seen : list (runid * sdata) }.             (* what handlers saw, per run *)
Definition il_init : il_state := mkIl tab_empty [] [] [].

Fixpoint nlookup {A} (k : N) (l : list (N * A)) : option A :=
  match l with [] => None | (k', v) :: t => if N.eqb k k' then Some v else nlookup k t end.

Definition il_step (has_init : bool) (s : il_state) (ev : sd_event) : il_state :=
  match ev with
  | ESetup tid run =>
      let '(t', d) := setup_step_data has_init run (il_tab s) in
      mkIl t' ((tid, (run, d)) :: il_local s)
           (match alookup run (t_entries (il_tab s)) with
            | None => (run, tid) :: il_initby s
            | Some _ => il_initby s end)
           (il_seen s)
  | EHandler tid =>
      match nlookup tid (il_local s) with
      | Some rd => mkIl (il_tab s) (il_local s) (il_initby s) (rd :: il_seen s)
      | None => s
      end
  end.
Definition il_run (has_init : bool) (evs : list sd_event) : il_state := fold_left (il_step has_init) evs il_init.
