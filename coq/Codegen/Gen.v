(* Codegen/Gen.v — executable model of cmd/arcaflow-codegen/gen.go (DESIGN §5 C19).
   Definitions only; the proofs are in Proofs/Codegen.v, the statements in Properties/C19.v.

   The model is the model of the REPAIRED generator:
     D36  the ignore argument (os.Args[2]) is optional: `ig : option string`;
     D37  objects and properties are visited in sorted key order (Go's < on strings,
          byte-wise), not in map iteration order.
   The pre-fix behaviour is kept as `gen_run_prefix` / `gen_prefix` for the refutation
   examples only.

   Input abstraction.  The YAML document, after yaml.Unmarshal into gen.go's `schema`
   struct, is `steps.create.input.objects : map[string]{properties : map[string]*property}`.
   Here it is a list of (key, properties) pairs and each property list is a list of
   (key, (type_id, id)) pairs IN AN ARBITRARY GIVEN ORDER: the order of these lists stands
   for Go's map iteration order (equivalently: the order of the keys in the YAML text).
   Every other field of the document (display, required, the objects' own id) is ignored
   by gen.go and is not represented.

   Scope (checked by `wf_doc`, which every generated case satisfies; the interpreter
   refuses anything else): object keys, property keys, type ids, referenced ids and the
   ignore argument are ASCII identifiers [A-Za-z_][A-Za-z0-9_]*; keys are unique inside
   their map (a Go map cannot hold a key twice; yaml.v3 rejects a duplicate key).

   Title-casing.  gen.go uses x/text cases.Title(language.Und, cases.NoLower).  On an ASCII
   identifier the whole string is one word for the Unicode word-break rules ('_' and the
   digits are ExtendNumLet / Numeric and never break a word), and the title caser
   upper-cases the first CASED letter of the word and, because of NoLower, leaves every
   other byte alone.  So: "foo_bar" -> "Foo_bar", "_foo" -> "_Foo", "_9a" -> "_9A",
   "x_1a" -> "X_1a", "aBC" -> "ABC", "_" -> "_".  `title` below is exactly that rule; it was
   compared with the real library on all 224 694 identifiers of length <= 6 over the
   alphabet {a z A Z _ 0 9 m} (no mismatch), and the correspondence check exercises it on
   every generated name (the pool contains leading underscores and digits).

   format.Source.  The text written by gen.go is handed to go/format; an error there is a
   panic (check(err)).  With identifier names the only way the text can fail to parse is a
   field whose TYPE token is a Go keyword (`Labels map `json:"labels"``): the struct and
   field names are title-cased identifiers and therefore never keywords.  `gen_run` models
   exactly this failure (D46: the arcaflow type id "map" IS a Go keyword). *)
From Coq Require Import Permutation.
From Verif Require Import Base.Prelude Base.Str.
Open Scope string_scope.

(* ---- input ---- *)
Definition prop := (string * (string * string))%type.   (* key, (type.type_id, type.id) *)
Definition obj := (string * list prop)%type.             (* key, properties *)
Definition doc := list obj.

Definition p_name (p : prop) : string := fst p.
Definition p_tid (p : prop) : string := fst (snd p).
Definition p_rid (p : prop) : string := snd (snd p).

(* ---- output: what go/parser reads back from typedef_output.go ---- *)
Record field := mkField { f_name : string; f_type : string; f_tag : string }.
Record struct_decl := mkStruct { s_name : string; s_fields : list field }.

(* ---- identifiers, keywords ---- *)
Definition is_lower (c : ascii) : bool := let n := zchr c in ((97 <=? n) && (n <=? 122))%Z.
Definition is_upper (c : ascii) : bool := let n := zchr c in ((65 <=? n) && (n <=? 90))%Z.
Definition is_letter_ (c : ascii) : bool := is_lower c || is_upper c || (zchr c =? 95)%Z.
Definition is_ident_l (l : list ascii) : bool :=
  match l with
  | [] => false
  | c :: t => is_letter_ c && forallb (fun x => is_letter_ x || is_digit x) t
  end.
Definition is_ident (s : string) : bool := is_ident_l (chars s).

Definition go_keywords : list string :=
  ["break"; "case"; "chan"; "const"; "continue"; "default"; "defer"; "else"; "fallthrough";
   "for"; "func"; "go"; "goto"; "if"; "import"; "interface"; "map"; "package"; "range";
   "return"; "select"; "struct"; "switch"; "type"; "var"].
Definition go_keyword (s : string) : bool := str_in s go_keywords.

(* ---- cases.Title(language.Und, cases.NoLower) on an ASCII identifier ---- *)
Definition upper_ascii (c : ascii) : ascii := if is_lower c then chrz (zchr c - 32)%Z else c.
Fixpoint title_l (l : list ascii) : list ascii :=
  match l with
  | [] => []
  | c :: t => if is_lower c then upper_ascii c :: t
              else if is_upper c then l
              else c :: title_l t
  end.
Definition title (s : string) : string := unchars (title_l (chars s)).

(* ---- the type column ---- *)
(* parseType *)
Definition parse_type (t : string) : string :=
  if String.eqb t "integer" then "int64" else if String.eqb t "float" then "float64" else t.
(* varType: `if pv.Type.TypeID == "ref" { varType = pv.Type.Id } else { varType = pv.Type.TypeID }` *)
Definition var_type (tid rid : string) : string := if String.eqb tid "ref" then rid else tid.
Definition go_type (tid rid : string) : string := parse_type (var_type tid rid).

(* ---- sorted keys: insertion sort by Go's < on strings ---- *)
Fixpoint insert_key {A} (x : string * A) (l : list (string * A)) : list (string * A) :=
  match l with
  | [] => [x]
  | y :: t => if str_ltb (fst x) (fst y) then x :: l else y :: insert_key x t
  end.
Definition sort_keys {A} (l : list (string * A)) : list (string * A) := fold_right insert_key [] l.

(* ---- the generator ---- *)
(* `if len(os.Args) > 2 && o == os.Args[2] { continue }` *)
Definition keep (ig : option string) (o : obj) : bool :=
  match ig with Some i => negb (String.eqb (fst o) i) | None => true end.

Definition field_of (p : prop) : field :=
  mkField (title (p_name p)) (go_type (p_tid p) (p_rid p)) (p_name p).
Definition struct_of (o : obj) : struct_decl :=
  mkStruct (title (fst o)) (map field_of (sort_keys (snd o))).

(* structured output, in file order *)
Definition gen (ig : option string) (d : doc) : list struct_decl :=
  map struct_of (filter (keep ig) (sort_keys d)).

(* format.Source fails (and check(err) panics) iff some emitted type token is a keyword *)
Definition bad_type (f : field) : bool := go_keyword (f_type f).
Definition bad_struct (s : struct_decl) : bool := existsb bad_type (s_fields s).
Definition gen_run (ig : option string) (d : doc) : outcome (list struct_decl) :=
  let out := gen ig d in
  if existsb bad_struct out then Panic "format.Source: type token is a Go keyword" else Ok out.

(* ---- the text handed to format.Source (before gofmt) ---- *)
Definition nl : string := String (chrz 10) EmptyString.
Definition tab : string := String (chrz 9) EmptyString.
Definition type_def_imports : string :=
  "package arcaflow_plugin_service" ++ nl ++ nl ++
  "import (" ++ nl ++
  "    v1 ""k8s.io/api/core/v1""" ++ nl ++
  "    metav1 ""k8s.io/apimachinery/pkg/apis/meta/v1""" ++ nl ++
  ")" ++ nl.
Definition field_text (f : field) : string :=
  tab ++ f_name f ++ " " ++ f_type f ++ " `json:""" ++ f_tag f ++ """`" ++ nl.
Definition struct_text (s : struct_decl) : string :=
  nl ++ "type " ++ s_name s ++ " struct {" ++ nl ++ concat_str (map field_text (s_fields s)) ++ "}" ++ nl.
(* os.Args[1:] = the input file name and, if given, the ignore argument *)
Definition args_of (file : string) (ig : option string) : list string :=
  file :: match ig with Some i => [i] | None => [] end.
Definition render (file : string) (ig : option string) (out : list struct_decl) : string :=
  "// Code generated by ""gen " ++ join_str " " (args_of file ig) ++ """" ++ nl ++
  type_def_imports ++ concat_str (map struct_text out).
Definition gen_text (file : string) (ig : option string) (d : doc) : string :=
  render file ig (gen ig d).

(* ---- well-formedness of a case (boolean; checked by the interpreter on every case) ---- *)
Definition wf_prop (p : prop) : bool :=
  is_ident (p_name p) && is_ident (p_tid p) &&
  (if String.eqb (p_tid p) "ref" then is_ident (p_rid p) else true).
Definition wf_obj (o : obj) : bool :=
  is_ident (fst o) && forallb wf_prop (snd o) && nodup_str (map fst (snd o)).
Definition wf_doc (d : doc) : bool := forallb wf_obj d && nodup_str (map fst d).
Definition wf_ignore (ig : option string) : bool :=
  match ig with Some i => is_ident i | None => true end.

(* no type token is a keyword (the hypothesis of totality; false for type id "map": D46) *)
Definition types_ok (d : doc) : bool :=
  forallb (fun o => forallb (fun p => negb (go_keyword (go_type (p_tid p) (p_rid p)))) (snd o)) d.

(* ---- the code BEFORE the fixes (only for the refutation examples) ---- *)
(* D36: os.Args[2] is read unconditionally as soon as there is at least one object *)
Definition gen_run_prefix_D36 (ig : option string) (d : doc) : outcome (list struct_decl) :=
  match ig, d with
  | None, _ :: _ => Panic "index out of range [2] with length 2"
  | _, _ => gen_run ig d
  end.
(* D37: objects and properties are emitted in the given (map iteration) order *)
Definition gen_prefix_D37 (ig : option string) (d : doc) : list struct_decl :=
  map (fun o => mkStruct (title (fst o)) (map field_of (snd o))) (filter (keep ig) d).

(* ------------------------------------------------------------------------------------ *)
(* Vocabulary of the property statements (Props, never executed or extracted)            *)
(* ------------------------------------------------------------------------------------ *)

(* strictly smaller key, in Go's < on strings *)
Definition klt {A} (x y : string * A) : Prop := str_ltb (fst x) (fst y) = true.

(* the property's own description of one field, written without reference to gen *)
Definition field_ok (p : prop) (f : field) : Prop :=
  f_name f = title (p_name p) /\ f_tag f = p_name p /\
  (p_tid p = "integer" -> f_type f = "int64") /\
  (p_tid p = "float" -> f_type f = "float64") /\
  (p_tid p = "ref" -> p_rid p <> "integer" -> p_rid p <> "float" -> f_type f = p_rid p) /\
  (p_tid p <> "integer" -> p_tid p <> "float" -> p_tid p <> "ref" -> f_type f = p_tid p).

(* one struct for one object: title-cased name, and its fields are the object's properties
   in some order, one field each *)
Definition struct_ok (o : obj) (s : struct_decl) : Prop :=
  s_name s = title (fst o) /\
  exists ps, Permutation ps (snd o) /\ Forall2 field_ok ps (s_fields s).

(* the same object with its property map iterated in another order *)
Definition same_obj (o o' : obj) : Prop := fst o = fst o' /\ Permutation (snd o) (snd o').
(* the same document: every property map re-ordered, then the object map re-ordered *)
Definition doc_perm (d d' : doc) : Prop := exists m, Forall2 same_obj d m /\ Permutation m d'.
(* keys are unique inside every map (always so for a Go map) *)
Definition keys_unique (d : doc) : Prop :=
  NoDup (map fst d) /\ Forall (fun o : obj => NoDup (map fst (snd o))) d.

