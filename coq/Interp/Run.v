(* Interp/Run.v — dispatcher: one case in, one observation out.
   case ::= (case ID FAMILY payload)   obs ::= (obs ID result) *)
From Verif Require Import Base.Prelude Base.Str Interp.Sexp Interp.RunUnits Interp.RunUnitsF Interp.RunSchema Interp.RunCodegen Interp.RunFunction.
From Verif Require Interp.RunStep Interp.RunFootprint.
From Verif Require Import Interp.RunCompat Interp.RunLink.
From Verif Require Import Interp.RunATPClient.
From Verif Require Import Interp.RunAtpsrv Interp.RunAtpxp.
From Verif Require Import Interp.RunC04 Interp.RunC12.
From Verif Require Import Interp.RunC17.
From Verif Require Import Interp.RunDescribe.
From Verif Require Import Interp.RunHello.
From Verif Require Import Interp.RunXSchema.
Open Scope string_scope.

Definition run_case (x : sexp) : sexp :=
  match x with
  | Ls [At "case"; id; At fam; payload] =>
      let r :=
        if String.eqb fam "units" then run_unitsf_case payload
        else if String.eqb fam "schema" then run_schema_case payload
        else if String.eqb fam "c01typed" then run_schema_case payload   (* typed entry points: predicted by the untyped model *)
        else if String.eqb fam "c03rebuilt" then run_schema_case payload (* the scope rebuilt from its self-description: predicted by the model of the original (C09_behaviour_all_paths) *)
        else if String.eqb fam "codegen" then run_codegen_case payload
        else if String.eqb fam "function" then run_function_case payload
        else if String.eqb fam "c11steps" then Verif.Interp.RunStep.run_steps_case payload
        else if String.eqb fam "c13foot" then Verif.Interp.RunFootprint.run_foot_case payload
        else if String.eqb fam "c15" then run_c15_case payload
        else if String.eqb fam "c14" then run_c14_case payload
        else if String.eqb fam "atpclient" then run_atpclient_case payload
        else if String.eqb fam "atpsrv" then run_atpsrv_case payload
        else if String.eqb fam "c05transparent" then run_atpxp_case payload
        else if String.eqb fam "c04" then run_c04_case payload
        else if String.eqb fam "c04s" then run_c04s_case payload
        else if String.eqb fam "c12" then run_c12_case payload
        else if String.eqb fam "c12s" then run_c12s_case payload
        else if String.eqb fam "c17" then run_c17_case payload
      else if String.eqb fam "c17x" then run_c17x_case payload
        else if String.eqb fam "c09describe" then run_describe_case payload
        else if String.eqb fam "c10mutants" then run_mutant_case payload
        else if String.eqb fam "c09hello" then run_hello_case payload
        else if String.eqb fam "structobj" then run_xschema_case payload
        else if String.eqb fam "c14x" then run_c14x_case payload
        else bad "unknown family" in
      Ls [At "obs"; id; r]
  | _ => bad "not a case"
  end.
