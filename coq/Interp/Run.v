(* Interp/Run.v — dispatcher: one case in, one observation out.
   case ::= (case ID FAMILY payload)   obs ::= (obs ID result) *)
From Verif Require Import Base.Prelude Base.Str Interp.Sexp Interp.RunUnits Interp.RunSchema Interp.RunCodegen Interp.RunFunction.
From Verif Require Import Interp.RunXSchema.
Open Scope string_scope.

Definition run_case (x : sexp) : sexp :=
  match x with
  | Ls [At "case"; id; At fam; payload] =>
      let r :=
        if String.eqb fam "units" then run_units_case payload
        else if String.eqb fam "schema" then run_schema_case payload
        else if String.eqb fam "codegen" then run_codegen_case payload
        else if String.eqb fam "function" then run_function_case payload
        else if String.eqb fam "structobj" then run_xschema_case payload
        else bad "unknown family" in
      Ls [At "obs"; id; r]
  | _ => bad "not a case"
  end.
