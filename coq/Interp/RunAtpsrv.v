(* Interp/RunAtpsrv.v — C07 cases: a client script against the server model (ATP/Server.v).

   case    ::= (script [burst] action ...)   (burst: the harness does not wait for quiescence between
                                               the actions; the prediction is the same)
   action  ::= start | (ws RUN STEP TOK BEH SLOW) | (wsbad RUN) | (sig RUN SIGID DATAOK) | (sigbad RUN)
             | (sigv RUN SIGID VALUE|absent) | (wsv RUN STEP TOK VALUE|absent)
             | (unk MSGID RUN) | done | (garbage KIND) | (cut action K) | eof
             | (release TOK) | cancel | closeout
   RUN     ::= "id" | norun          BEH ::= ok | errout | undecl | invalid | panic | badinput
   obs     ::= crash | (r returned|running (errs (RUN SF VF) ...) (out item ...))
   item    ::= hello | (done RUN OUTPUT) | (err RUN SF VF)
   (the harness prints both lists sorted; lib/props_c07.py compares them as multisets)

   Byte offsets are mapped to event classes here: a cut at offset 0 is EvEOF, a cut inside a
   message is EvPartialThenEOF; bytes that are a well-formed CBOR item but not a runtime message
   (garbage kinds 1 and 2) are accepted in the position of the start message — the server decodes
   that one into `any` — and are EvGarbage everywhere else. *)
From Verif Require Import Base.Prelude Base.Str Base.Float Base.GoVal Schema.Syntax Interp.Sexp Interp.Codec.
From Verif Require Schema.Ops Schema.Cbor Interp.RunSchema.
From Verif Require Import ATP.Msg ATP.Server.
Open Scope string_scope.
Open Scope list_scope.
Open Scope Z_scope.

(* ---- payloads judged by the schema model (Schema/Ops.v): the data schemas of the harness plugin's signals
   "sig" (an object with ONE required integer), "stop" (an object WITHOUT properties), "two" (two optional
   properties) and the input schemas of its steps "z" (no property) and "o" (one required integer).  What the
   server's CallSignal / CallStep does with a payload is Unserialize + Validate of that schema on the value the
   CBOR decoder hands over (cbor_norm).  Neither can panic on these schemas - C07_payload_schemas_never_panic
   (Properties/C07.v, from C04_never_panics) - so "accepted or rejected" is the whole outcome; a signal goroutine
   has no recover, the model's dataok abstraction rests on that theorem. *)
Definition c07_prop (t : schema) (req : bool) : property := mkProp t None req [] [] [] None [] false false None.
Definition c07_obj (id : string) (ps : list (string * property)) : schema := SScope [(id, SObject id false ps)] id.
Definition c07_int : schema := SInt None None None.
Definition c07_sig_schema (sg : string) : option schema :=
  if String.eqb sg "sig" then Some (c07_obj "sigdata" [("n", c07_prop c07_int true)])
  else if String.eqb sg "stop" then Some (c07_obj "stopdata" [])
  else if String.eqb sg "two" then Some (c07_obj "twodata" [("a", c07_prop c07_int false); ("b", c07_prop (SString None None None) false)])
  else None.
Definition c07_step_schema (st : string) : option schema :=
  if String.eqb st "z" then Some (c07_obj "zin" [])
  else if String.eqb st "o" then Some (c07_obj "oin" [("tok", c07_prop c07_int true)])
  else None.
Definition c07_env : env := mkEnv [] [] (mkOracles (fun _ => None) (fun _ => false)).
Definition c07_accepts (s : schema) (v : gval) : bool :=
  match Verif.Interp.RunSchema.m_unser Verif.Interp.RunSchema.FUEL c07_env s (Verif.Schema.Cbor.cbor_norm DEPTH v) with
  | Ok n => match Verif.Interp.RunSchema.m_validate Verif.Interp.RunSchema.FUEL c07_env s n with Ok _ => true | _ => false end
  | _ => false
  end.
Definition c07_payload_of (x : sexp) : option gval :=
  match x with
  | At a => if String.eqb a "absent" then Some VNil else gval_of DEPTH x
  | _ => gval_of DEPTH x
  end.
Definition c07_sig_ok (sg : string) (v : gval) : bool :=
  match c07_sig_schema sg with Some s => c07_accepts s v | None => false end.
Definition c07_step_ok (st : string) (v : gval) : bool :=
  match c07_step_schema st with Some s => c07_accepts s v | None => false end.

Definition c07_run_of (x : sexp) : option runid :=
  match x with
  | St s => Some s
  | At a => if String.eqb a "norun" then Some "" else None   (* fresh decode target: a missing run_id is "" *)
  | Ls _ => None
  end.

Definition c07_beh_of (a : string) : option sbeh :=
  if String.eqb a "ok" then Some (BSuccess "success")
  else if String.eqb a "errout" then Some (BSuccess "error")
  else if String.eqb a "undecl" then Some BUndeclared
  else if String.eqb a "invalid" then Some BInvalidData
  else if String.eqb a "panic" then Some BPanics
  else if String.eqb a "badinput" then Some BFails
  else None.

(* the event a wire action (not a cut) presents to the decoder; `first` = nothing was sent before *)
Definition c07_event_of (first : bool) (x : sexp) : option (event Z) :=
  match x with
  | At a =>
      if String.eqb a "start" then Some (EvMsg (Unknown 0 ""))     (* a nil item: zero envelope, message id 0 *)
      else if String.eqb a "done" then Some (EvMsg ClientDone)
      else if String.eqb a "eof" then Some EvEOF
      else None
  | Ls [h; r; st; tok; beh; slow] =>
      if atom_eq h "ws" then
        r' <-? c07_run_of r ;; st' <-? str_of st ;; t <-? z_of_atom tok ;; Some (EvMsg (WorkStart r' st' t))
      else None
  | Ls [h; r; st; tok; v] =>
      if atom_eq h "wsv" then
        r' <-? c07_run_of r ;; st' <-? str_of st ;; t <-? z_of_atom tok ;; _ <-? c07_payload_of v ;; Some (EvMsg (WorkStart r' st' t))
      else None
  | Ls [h; r; sg; ok] =>
      if atom_eq h "sigv" then
        r' <-? c07_run_of r ;; sg' <-? str_of sg ;; v <-? c07_payload_of ok ;;
        Some (EvMsg (Signal r' sg' (if c07_sig_ok sg' v then 1 else 0)))
      else
      if atom_eq h "sig" then
        r' <-? c07_run_of r ;; sg' <-? str_of sg ;; ok' <-? b_of_atom ok ;;
        Some (EvMsg (Signal r' sg' (if ok' then 1 else 0)))
      else None
  | Ls [h; a; b] =>
      if atom_eq h "unk" then id <-? z_of_atom a ;; r' <-? c07_run_of b ;; Some (EvMsg (Unknown id r'))
      else None
  | Ls [h; a] =>
      if atom_eq h "wsbad" then r' <-? c07_run_of a ;; Some (EvMsg (BadPayload 1 r'))
      else if atom_eq h "sigbad" then r' <-? c07_run_of a ;; Some (EvMsg (BadPayload 3 r'))
      else if atom_eq h "garbage" then
        k <-? z_of_atom a ;;
        if first && ((k =? 1) || (k =? 2)) then Some (EvMsg (Unknown 0 "")) else Some EvGarbage
      else None
  | _ => None
  end.

Definition c07_label_of (first : bool) (x : sexp) : option label :=
  match x with
  | At a =>
      if String.eqb a "cancel" then Some LCancel
      else if String.eqb a "closeout" then Some LCloseOut
      else ev <-? c07_event_of first x ;; Some (LArrive ev)
  | Ls [h; a; k] =>
      if atom_eq h "cut" then
        _ <-? c07_event_of first a ;; k' <-? z_of_atom k ;;
        Some (LArrive (if k' =? 0 then EvEOF else EvPartialThenEOF))
      else ev <-? c07_event_of first x ;; Some (LArrive ev)
  | Ls [h; a] =>
      if atom_eq h "release" then t <-? z_of_atom a ;; Some (LRelease t)
      else ev <-? c07_event_of first x ;; Some (LArrive ev)
  | _ => ev <-? c07_event_of first x ;; Some (LArrive ev)
  end.

(* does the action put bytes on the wire? (after the first one the start position is over) *)
Definition c07_sends (l : label) (x : sexp) : bool :=
  match l, x with
  | LArrive EvEOF, _ => false
  | LArrive _, _ => true
  | _, _ => false
  end.

Fixpoint c07_labels (first : bool) (xs : list sexp) : option (list label) :=
  match xs with
  | [] => Some []
  | x :: t =>
      l <-? c07_label_of first x ;;
      ls <-? c07_labels (first && negb (c07_sends l x)) t ;;
      Some (l :: ls)
  end.

(* the plugin of the harness: steps "s" and "t", signal "sig"; behaviour and timing come from
   the work-start with that token *)
Fixpoint c07_table (xs : list sexp) : list (Z * (sbeh * bool)) :=
  match xs with
  | [] => []
  | Ls [h; r; st; tok; beh; slow] :: t =>
      match atom_eq h "ws", z_of_atom tok, beh, b_of_atom slow with
      | true, Some k, At b, Some sl =>
          match c07_beh_of b with Some bh => (k, (bh, sl)) :: c07_table t | None => c07_table t end
      | _, _, _, _ => c07_table t
      end
  | Ls [h; r; St st; tok; v] :: t =>
      match atom_eq h "wsv", z_of_atom tok, c07_payload_of v with
      | true, Some k, Some v' => (k, ((if c07_step_ok st v' then BSuccess "success" else BFails), false)) :: c07_table t
      | _, _, _ => c07_table t
      end
  | _ :: t => c07_table t
  end.

Definition c07_cfg (xs : list sexp) : cfg :=
  let tb := c07_table xs in
  mkCfg (fun k => match zlookup k tb with Some (b, _) => b | None => BFails end)
        (fun k => match zlookup k tb with Some (_, sl) => sl | None => false end)
        (fun st => String.eqb st "s" || String.eqb st "t" || String.eqb st "z" || String.eqb st "o")
        (fun sg => String.eqb sg "sig" || String.eqb sg "stop" || String.eqb sg "two").

Definition c07_err_sexp (e : srverr) : sexp := Ls [St (se_run e); sb (se_sf e); sb (se_vf e)].
Definition c07_item_sexp (m : omsg) : sexp :=
  match m with
  | OHello => At "hello"
  | ODone r o => Ls [At "done"; St r; St o]
  | OErr e => Ls [At "err"; St (se_run e); sb (se_sf e); sb (se_vf e)]
  end.

Definition c07_obs (s : state) : sexp :=
  if crashed s then At "crash"
  else
    let returned := match hp s with HReturned => true | _ => false end in
    Ls [At "r"; At (if returned then "returned" else "running");
        Ls (At "errs" :: (if returned then map c07_err_sexp (ret s) else []));
        Ls (At "out" :: map c07_item_sexp (out s))].

Definition run_atpsrv_case (payload : sexp) : sexp :=
  match payload with
  | Ls (At h :: actions) =>
      if String.eqb h "script" then
        let actions' := match actions with At b :: t => if String.eqb b "burst" then t else actions | _ => actions end in
        match c07_labels true actions' with
        | Some ls => c07_obs (run_script (c07_cfg actions') ls)
        | None => bad "atpsrv action"
        end
      else bad "atpsrv case"
  | _ => bad "atpsrv case"
  end.
