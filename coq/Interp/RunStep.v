(* Interp/RunStep.v — step-call cases (family c11steps):
     (steps ENV (plugin STEP...) MODE (calls CALL...))
     STEP ::= (stepd|stepd-any "id" HASINIT INPUT (("out" SCHEMA)...) (SIG...))
     SIG ::= ("key" SCHEMA) | ("key" SCHEMA "ownid")
              "key" is the key under which the step REGISTERS the handler (SignalHandlersValue); "ownid" is the
              signal's own IDValue when it differs from the key.  Every lookup goes by the key (Call/StepSig.v):
              the model drops the own id, handler log entries and calls name signals by their key
              stepd-any: the Go step is instantiated with StepData = any (an interface type) instead of a
              pointer type; the model does not distinguish the two (D65 repaired: a nil interface reaches
              the signal handler as the zero value, exactly like a nil pointer)
     MODE ::= seq | conc          (conc: the calls are released together from goroutines; the
                                   projection below does not depend on the arrival order)
     CALL ::= (call "run" "step" RAW "outid" OUTDATA)     the handler returns (outid, OUTDATA)
            | (signal "run" "step" "sig" RAW)
            | (dcall "run" "step" NATIVE "outid" OUTDATA)   CallableStep.Call called directly with a native value
            | (dsignal "run" "step" "sig" NATIVE)           CallableStep.CallSignal called directly on the step object
   observation:
     (r (RES...) (inits ("step" N)...))
     RES ::= (c (h ENTRY...) RESULT ISO)
     ENTRY ::= (st "step" K ARG) | (sg "step" "sig" K ARG)      one per handler invocation
     K ::= - | (d I J)     I: index of the run id among the case's run ids (first occurrence in the
                           call list); J: index of this step-data value among the distinct values
                           the handlers of (step, run) saw — 0 everywhere iff one value per run
     RESULT ::= (ok "outid" VALUE) | ok | (err badarg|input|output|plain) | panic | diverged
     ISO ::= (iso nostep) | (iso nosig) | (iso U) | (iso U V S)   the data operations in isolation
           | (iso V)     for dsignal: Validate of the native data by the schema registered under the key
           | (iso V OV)  for dcall: Validate of the input, Validate of the handler's output (or `undeclared`);
             the RESULT of a dcall carries the handler's data as it is (not serialized) *)
From Verif Require Import Base.Prelude Base.Str Base.Float Base.GoVal
  Schema.Regex Schema.Units Schema.Syntax Schema.Ops Schema.FloatUnits ATP.Msg Call.Step
  Call.StepSig Generated.Tables Interp.Sexp Interp.RunUnits Interp.Codec Interp.RunSchema.
Open Scope string_scope.
Open Scope Z_scope.

Definition named_schemas_of (l : list sexp) : option (list (string * schema)) :=
  opt_mapM (fun y => match y with
                     | Ls [St k; s] => s' <-? schema_of DEPTH s ;; Some (k, s')
                     | _ => None end) l.

Definition named_signals_of (l : list sexp) : option (list (string * schema)) :=
  opt_mapM (fun y => match y with
                     | Ls [St k; s] | Ls [St k; s; St _] => s' <-? schema_of DEPTH s ;; Some (k, s')
                     | _ => None end) l.

Definition stepd_of (x : sexp) : option (stepid * step_d) :=
  match x with
  | Ls [At kind; St id; hi; inp; Ls outs; Ls sigs] =>
      if String.eqb kind "stepd" || String.eqb kind "stepd-any" then
        h <-? b_of_atom hi ;; i <-? schema_of DEPTH inp ;;
        os <-? named_schemas_of outs ;; ss <-? named_signals_of sigs ;;
        Some (id, mkStepD i os ss h)
      else None
  | _ => None
  end.

Inductive ccall :=
| CCall (run sid : string) (raw : gval) (oid : string) (odata : gval)
| CSignal (run sid sig : string) (raw : gval)
| CDirect (run sid : string) (input : gval) (oid : string) (odata : gval)
| CDSignal (run sid sig : string) (input : gval).

Definition ccall_of (x : sexp) : option ccall :=
  match x with
  | Ls [At "call"; St run; St sid; raw; St oid; od] =>
      r <-? gval_of DEPTH raw ;; o <-? gval_of DEPTH od ;; Some (CCall run sid r oid o)
  | Ls [At "signal"; St run; St sid; St sg; raw] =>
      r <-? gval_of DEPTH raw ;; Some (CSignal run sid sg r)
  | Ls [At "dcall"; St run; St sid; inp; St oid; od] =>
      r <-? gval_of DEPTH inp ;; o <-? gval_of DEPTH od ;; Some (CDirect run sid r oid o)
  | Ls [At "dsignal"; St run; St sid; St sg; inp] =>
      r <-? gval_of DEPTH inp ;; Some (CDSignal run sid sg r)
  | _ => None
  end.
Definition ccall_run (c : ccall) : string := match c with CCall r _ _ _ _ | CSignal r _ _ _ | CDirect r _ _ _ _ | CDSignal r _ _ _ => r end.

Definition op_of_ccall (c : ccall) : sop2 :=
  match c with
  | CCall run sid raw oid od => OpBase (OpCall run sid raw (fun _ _ => (oid, od)))
  | CSignal run sid sg raw => OpBase (OpSignal run sid sg raw)
  | CDirect run sid inp oid od => OpBase (OpDirect run sid inp (fun _ _ => (oid, od)))
  | CDSignal run sid sg inp => OpDirectSignal run sid sg inp
  end.

(* ---- projection ---- *)
Fixpoint dedup_str (l acc : list string) : list string :=
  match l with
  | [] => acc
  | x :: t => if str_in x acc then dedup_str t acc else dedup_str t (acc ++ [x])%list
  end.
Fixpoint index_str (s : string) (l : list string) (i : Z) : Z :=
  match l with [] => -1 | x :: t => if String.eqb s x then i else index_str s t (i + 1) end.
Fixpoint index_sd (d : sdata) (l : list sdata) (i : Z) : Z :=
  match l with [] => -1 | x :: t => if sdata_eqb d x then i else index_sd d t (i + 1) end.

Definition entry_key (en : log_entry) : stepid * runid * sdata :=
  match en with LStep s r d _ => (s, r, d) | LSignal s _ r d _ => (s, r, d) end.
Fixpoint ds_for (sid run : string) (l : list log_entry) (acc : list sdata) : list sdata :=
  match l with
  | [] => acc
  | en :: t =>
      let '(s, r, d) := entry_key en in
      if String.eqb s sid && String.eqb r run && negb (existsb (sdata_eqb d) acc)
      then ds_for sid run t (acc ++ [d])%list else ds_for sid run t acc
  end.

Definition s_k (runs : list string) (all : list log_entry) (en : log_entry) : sexp :=
  let '(s, r, d) := entry_key en in
  match d with
  | None => At "-"
  | Some _ => Ls [At "d"; sz (index_str r runs 0); sz (index_sd d (ds_for s r all []) 0)]
  end.
Definition s_entry (runs : list string) (all : list log_entry) (en : log_entry) : sexp :=
  match en with
  | LStep s _ _ a => Ls [At "st"; St s; s_k runs all en; s_val a]
  | LSignal s g _ _ a => Ls [At "sg"; St s; St g; s_k runs all en; s_val a]
  end.

Definition s_class (c : call_err) : sexp :=
  At (match go_type c with GBadArgument => "badarg" | GInvalidInput => "input"
                         | GInvalidOutput => "output" | GPlain => "plain" end).
Definition s_sres {A} (enc : A -> sexp) (r : sres A) : sexp :=
  match r with
  | SOk a => enc a
  | SErr c => Ls [At "err"; s_class c]
  | SPanic _ => At "panic"
  | SFuel => At "diverged"
  end.
Definition s_result (r : op_result) : sexp :=
  match r with
  | RCall c => s_sres (fun ov => Ls [At "ok"; St (fst ov); s_val (snd ov)]) c
  | RSignal c => s_sres (fun _ => At "ok") c
  end.

(* the data operations alone: outcome class, and the value for Ok *)
Definition s_iso {A} (enc : A -> sexp) (o : outcome A) : sexp :=
  match o with
  | Ok a => Ls [At "ok"; enc a]
  | Err _ => At "err"
  | Panic _ => At "panic"
  | OutOfFuel => At "diverged"
  end.

Definition iso_of (e : env) (p : plugin) (c : ccall) : sexp :=
  match c with
  | CCall _ sid raw oid od =>
      match alookup sid p with
      | None => Ls [At "iso"; At "nostep"]
      | Some st =>
          let u := s_iso s_val (m_unser FUEL e (sd_input st) raw) in
          match alookup oid (sd_outputs st) with
          | None => Ls [At "iso"; u; At "undeclared"; At "undeclared"]
          | Some os => Ls [At "iso"; u; s_iso s_unit (m_validate FUEL e os od); s_iso s_val (m_serialize FUEL e os od)]
          end
      end
  | CSignal _ sid sg raw =>
      match alookup sid p with
      | None => Ls [At "iso"; At "nostep"]
      | Some st =>
          match alookup sg (sd_signals st) with
          | None => Ls [At "iso"; At "nosig"]
          | Some ss => Ls [At "iso"; s_iso s_val (m_unser FUEL e ss raw)]
          end
      end
  | CDSignal _ sid sg inp =>
      match alookup sid p with
      | None => Ls [At "iso"; At "nostep"]
      | Some st =>
          match alookup sg (sd_signals st) with
          | None => Ls [At "iso"; At "nosig"]
          | Some ss => Ls [At "iso"; s_iso s_unit (m_validate FUEL e ss inp)]
          end
      end
  | CDirect _ sid inp oid od =>
      match alookup sid p with
      | None => Ls [At "iso"; At "nostep"]
      | Some st =>
          let v := s_iso s_unit (m_validate FUEL e (sd_input st) inp) in
          match alookup oid (sd_outputs st) with
          | None => Ls [At "iso"; v; At "undeclared"]
          | Some os => Ls [At "iso"; v; s_iso s_unit (m_validate FUEL e os od)]
          end
      end
  end.

Definition m_exec_ops (e : env) := exec_ops2 bool_words parse_units_float e FUEL.

Definition run_steps_case (x : sexp) : sexp :=
  match x with
  | Ls [At "steps"; ex; Ls (At "plugin" :: sts); At mode; Ls (At "calls" :: cs)] =>
      match env_of ex, opt_mapM stepd_of sts, opt_mapM ccall_of cs with
      | Some e, Some p, Some calls =>
          let '(res, ps) := m_exec_ops e p (map op_of_ccall calls) in
          let all := flat_map snd res in
          let runs := dedup_str (map ccall_run calls) [] in
          let rows := map (fun cr => let '(c, (r, l)) := cr in
                                     Ls [At "c"; Ls (At "h" :: map (s_entry runs all) l); s_result r; iso_of e p c])
                          (combine calls res) in
          Ls [At "r"; Ls rows;
              Ls (At "inits" :: map (fun st => Ls [St (fst st); sz (Z.of_N (t_inits (tab_of ps (fst st))))]) p)]
      | None, _, _ => bad "env"
      | _, None, _ => bad "plugin"
      | _, _, None => bad "calls"
      end
  | _ => bad "steps case"
  end.
