(* Interp/RunXSchema.v — struct-mapped object cases (family `structobj`):
     (xsch ENV STRUCTS XSCHEMA (ops OP...))
     STRUCTS ::= (structs (NAME ((FIELD TYPE)...))...)
     XSCHEMA ::= the schema syntax plus
                 (xobject ID UNENF PROPS (si STRUCT PTR ((PROPID FIELD (IDX...) (NIDX...) FTYPE)...)))
     OP ::= (u V) | (v V) | (s V) | (c V) | (rt V) | (x V) | (ty V)
   observation: (r O...) *)
From Verif Require Import Base.Prelude Base.Str Base.Float Base.GoVal Base.XReflect
  Schema.Regex Schema.Units Schema.Syntax Schema.Ops Schema.Cbor Schema.FloatUnits Schema.XSyntax Schema.XOps
  Generated.Tables Interp.Sexp Interp.RunUnits Interp.Codec Interp.RunSchema.
Open Scope string_scope.
Open Scope Z_scope.

Definition nats_of (x : sexp) : option (list nat) :=
  match x with
  | Ls l => opt_mapM (fun y => z <-? z_of_atom y ;; Some (Z.to_nat z)) l
  | _ => None
  end.

Definition fieldref_of (x : sexp) : option (string * fieldref) :=
  match x with
  | Ls [St pid; St fname; idx; nidx; ft] =>
      i <-? nats_of idx ;; n <-? nats_of nidx ;; t <-? gtype_of DEPTH ft ;;
      Some (pid, mkFieldRef fname i n t)
  | _ => None
  end.

Definition structinfo_of (x : sexp) : option structinfo :=
  match x with
  | Ls [At "si"; St name; ptr; Ls fields] =>
      p <-? b_of_atom ptr ;; fs <-? opt_mapM fieldref_of fields ;; Some (mkStructInfo name p fs)
  | _ => None
  end.

Definition stab_of (x : sexp) : option stab :=
  match x with
  | Ls (At "structs" :: l) =>
      opt_mapM (fun y => match y with
                         | Ls [St name; Ls fs] =>
                             fl <-? opt_mapM (fun z => match z with
                                                       | Ls [St fname; ft] => t <-? gtype_of DEPTH ft ;; Some (fname, t)
                                                       | _ => None end) fs ;;
                             Some (name, fl)
                         | _ => None end) l
  | _ => None
  end.

Fixpoint xschema_of (fuel : nat) (x : sexp) : option xschema :=
  match fuel with
  | O => None
  | S f =>
    let props_of (props : list sexp) :=
      opt_mapM (fun y =>
        match y with
        | Ls [St name; Ls [At "prop"; t; d; req; rif; rifn; confl; dflt; ex; empty; dis; reason]] =>
            t' <-? xschema_of f t ;; d' <-? odisplay_of d ;; req' <-? b_of_atom req ;;
            rif' <-? strs_of rif ;; rifn' <-? strs_of rifn ;; confl' <-? strs_of confl ;;
            dflt' <-? ostr_of dflt ;; ex' <-? strs_of ex ;; empty' <-? b_of_atom empty ;;
            dis' <-? b_of_atom dis ;; reason' <-? ostr_of reason ;;
            Some (name, mkProp t' d' req' rif' rifn' confl' dflt' ex' empty' dis' reason')
        | _ => None
        end) props in
    match x with
    | Ls [At "list"; it; mn; mx] => i <-? xschema_of f it ;; a <-? oz_of mn ;; b <-? oz_of mx ;; Some (XList i a b)
    | Ls [At "map"; k; v; mn; mx] =>
        k' <-? xschema_of f k ;; v' <-? xschema_of f v ;; a <-? oz_of mn ;; b <-? oz_of mx ;; Some (XMap k' v' a b)
    | Ls [At "object"; St id; un; Ls props] =>
        u <-? b_of_atom un ;; ps <-? props_of props ;; Some (XObject id u ps None)
    | Ls [At "xobject"; St id; un; Ls props; six] =>
        u <-? b_of_atom un ;; ps <-? props_of props ;; si <-? structinfo_of six ;; Some (XObject id u ps (Some si))
    | Ls [At "oneof"; ik; Ls types; St field; inlx] =>
        ik' <-? b_of_atom ik ;; inl' <-? b_of_atom inlx ;;
        ts <-? opt_mapM (fun y => match y with
                                  | Ls [St k; m] => m' <-? xschema_of f m ;; Some (KS k, m')
                                  | Ls [k; m] => z <-? z_of_atom k ;; m' <-? xschema_of f m ;; Some (KI z, m')
                                  | _ => None end) types ;;
        Some (XOneOf ts ik' field inl')
    | Ls [At "scope"; Ls objs; St root] =>
        os <-? opt_mapM (fun y => match y with
                                  | Ls [St id; o] => o' <-? xschema_of f o ;; Some (id, o')
                                  | _ => None end) objs ;;
        Some (XScope os root)
    | _ => option_map embed (schema_of DEPTH x)       (* scalars, enums, references: as in Codec.schema_of *)
    end
  end.

Definition xenv_of (ex sx : sexp) : option xenv :=
  e <-? env_of ex ;; st <-? stab_of sx ;; Some (embed_env st e).

Definition mx_unser := xunser bool_words parse_units_float.
Definition mx_validate := xvalidate bool_words parse_units_float.
Definition mx_serialize := xserialize bool_words parse_units_float.
Definition mx_compat := xcompat bool_words parse_units_float.

Definition s_class {A} (o : outcome A) : sexp :=
  match o with Ok _ => At "ok" | Err _ => At "err" | Panic _ => At "panic" | OutOfFuel => At "diverged" end.

Definition xrun_rt (e : xenv) (s : xschema) (v : gval) : sexp :=
  let u1 := mx_unser FUEL e s v in
  match u1 with
  | Ok n =>
      let va := mx_validate FUEL e s n in
      let se := mx_serialize FUEL e s n in
      match se with
      | Ok w =>
          let u2 := mx_unser FUEL e s w in
          let s2 := match u2 with Ok n2 => s_outcome s_val (mx_serialize FUEL e s n2) | _ => At "-" end in
          let wc := cbor_norm DEPTH w in
          let u3 := mx_unser FUEL e s wc in
          Ls [At "rt"; s_outcome s_val u1; s_outcome s_unit va; s_outcome s_val se;
              s_outcome s_val u2; s2; s_val wc; s_outcome s_val u3]
      | _ => Ls [At "rt"; s_outcome s_val u1; s_outcome s_unit va; s_outcome s_val se]
      end
  | _ => Ls [At "rt"; s_outcome s_val u1]
  end.

(* the typed entry points (TypedObjectSchema[T] / TypedScopeSchema[T]) delegate to the untyped ones and
   assert the result to be a T: for a struct-mapped root Unserialize returns exactly a T *)
Definition xrun_ty (e : xenv) (s : xschema) (v : gval) : sexp :=
  let u := mx_unser FUEL e s v in
  match u with
  | Ok n =>
      let ut := match xstruct_rtype e s, type_of n with
                | Some t, Some tn => if gtype_eqb t tn then s_outcome s_val u else At "panic"
                | _, _ => At "panic"
                end in
      let va := s_outcome s_unit (mx_validate FUEL e s n) in
      let se := s_outcome s_val (mx_serialize FUEL e s n) in
      Ls [At "ty"; s_outcome s_val u; ut; va; va; se; se]
  | _ => Ls [At "ty"; s_outcome s_val u; s_outcome s_val u]
  end.

(* Serialize of a native value, then Unserialize of what came out *)
Definition xrun_sr (e : xenv) (s : xschema) (v : gval) : sexp :=
  let se := mx_serialize FUEL e s v in
  match se with
  | Ok w => Ls [At "sr"; s_outcome s_val se; s_outcome s_val (mx_unser FUEL e s w)]
  | _ => Ls [At "sr"; s_outcome s_val se]
  end.

Definition xrun_op (e : xenv) (s : xschema) (op : sexp) : sexp :=
  match op with
  | Ls [At k; vx] =>
      match gval_of DEPTH vx with
      | Some v =>
          if String.eqb k "u" then s_outcome s_val (mx_unser FUEL e s v)
          else if String.eqb k "v" then s_outcome s_unit (mx_validate FUEL e s v)
          else if String.eqb k "s" then s_outcome s_val (mx_serialize FUEL e s v)
          else if String.eqb k "c" then s_outcome s_unit (mx_compat FUEL e s v)
          else if String.eqb k "rt" then xrun_rt e s v
          else if String.eqb k "sr" then xrun_sr e s v
          else if String.eqb k "x" then
            Ls [At "x"; s_outcome s_val (mx_unser FUEL e s v); s_class (m_unser FUEL (erase_env e) (erase s) v)]
          else if String.eqb k "ty" then xrun_ty e s v
          else bad "op"
      | None => bad "value"
      end
  | _ => bad "op shape"
  end.

Definition run_xschema_case (x : sexp) : sexp :=
  match x with
  | Ls [At "xsch"; ex; stx; sx; Ls (At "ops" :: ops)] =>
      match xenv_of ex stx, xschema_of DEPTH sx with
      | Some e, Some s => Ls (At "r" :: map (xrun_op e s) ops)
      | None, _ => bad "env"
      | _, None => bad "schema"
      end
  | _ => bad "xschema case"
  end.

(* C14 on struct-mapped scopes (family c14xinline, label c14x):
     (c14x ENV STRUCTS XSCHEMA XINLINED (ops OP...))  ->  (r (ops O...) (inl O...))
   the same operations on the scope and on the scope with its self references replaced by their targets *)
Definition run_c14x_case (x : sexp) : sexp :=
  match x with
  | Ls [At "c14x"; ex; stx; sx; ix; Ls (At "ops" :: ops)] =>
      match xenv_of ex stx, xschema_of DEPTH sx, xschema_of DEPTH ix with
      | Some e, Some s, Some si =>
          Ls [At "r"; Ls (At "ops" :: map (xrun_op e s) ops); Ls (At "inl" :: map (xrun_op e si) ops)]
      | None, _, _ => bad "env"
      | _, _, _ => bad "schema"
      end
  | _ => bad "c14x case"
  end.
