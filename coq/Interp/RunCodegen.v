(* Interp/RunCodegen.v — C19 cases: decode, run the code generator model, encode the observation.
   case payload ::= (gen (objs ((NAME ((PNAME TYPEID REFID) ...)) ...)) IGNORE)
                    NAME PNAME TYPEID REFID are quoted strings (REFID "" = no `id:` key);
                    IGNORE ::= none | "name"; the order of the lists is the order of the keys
                    in the YAML file the harness writes.
   observation  ::= (r ok ((STRUCT ((FIELD TYPE TAG) ...)) ...))     structs and fields in FILE order
                  | (r crash)                                        non-zero exit status / panic *)
From Verif Require Import Base.Prelude Base.Str Codegen.Gen Interp.Sexp.
Open Scope string_scope.

Definition cg_prop_of (x : sexp) : option prop :=
  match x with
  | Ls [St p; St tid; St rid] => Some (p, (tid, rid))
  | _ => None
  end.
Definition cg_obj_of (x : sexp) : option obj :=
  match x with
  | Ls [St o; Ls ps] => l <-? opt_mapM cg_prop_of ps ;; Some (o, l)
  | _ => None
  end.
Definition cg_doc_of (x : sexp) : option doc :=
  match x with
  | Ls [At "objs"; Ls os] => opt_mapM cg_obj_of os
  | _ => None
  end.

Definition s_field (f : field) : sexp := Ls [St (f_name f); St (f_type f); St (f_tag f)].
Definition s_struct (s : struct_decl) : sexp := Ls [St (s_name s); Ls (map s_field (s_fields s))].

Definition run_codegen_case (x : sexp) : sexp :=
  match x with
  | Ls [At "gen"; d; ig] =>
      match cg_doc_of d, opt_of str_of ig with
      | Some dc, Some oig =>
          if wf_doc dc && wf_ignore oig then
            match gen_run oig dc with
            | Ok out => Ls [At "r"; At "ok"; Ls (map s_struct out)]
            | _ => Ls [At "r"; At "crash"]
            end
          else bad "codegen: case outside the modelled class (identifier names, unique keys)"
      | _, _ => bad "codegen case"
      end
  | _ => bad "codegen case"
  end.
