(* Interp/RunAtpxp.v — C05 cases (family c05transparent): one session of the ATP client against a
   server, the calls issued serially or overlapping, over a chosen transport.

   case      ::= (session PROTO MODE TRANSPORT (plugin STEP ...) (calls CALL ...) (order IDX ...))
   PROTO     ::= v3 | v1
   CALL      ::= (call "run" "step" TOK INPUT (ret "outid" OUTRAW) EXPECT)
   EXPECT    ::= (expect ok "outid" VALUE) | (expect err H)
   obs       ::= (r (call "run" ATP (h N) (inproc-agrees 1)) ... (server returned N))
   ATP       ::= (atp ok "outid" VALUE) | (atp err)

   The model does not execute handlers: EXPECT is the recorded in-process semantics of the call
   (CallStep on a fresh plugin, checked again at run time by the harness: inproc-agrees).  What the
   model PREDICTS is what transparency says the wire does to it:
     - protocol 3: every call on its own, whatever MODE, TRANSPORT and the order of completion are:
       (atp ok outid (cbor_norm VALUE)) with the handler run once, or (atp err) with the handler run
       as often as in-process (0 for a rejected input); the server returns one error per failed call;
     - protocol 1 (scripted legacy server, one call at a time): the same until the first failing
       call, which ends the session: that call and every later one are errors, later handlers never
       run, the server reports the one error.  (Overlapping calls over protocol 1 are known finding
       D26; lib/props_c05.py treats that class.)
   The hypothesis of Properties/C05.v (C05_norm_invariant) is checked on every input: it must be in
   the decodable class (decodableb, sound by C05_decodable_check). *)
From Coq Require Import List ZArith Bool String.
From Verif Require Import Base.Prelude Base.Str Base.GoVal Schema.Cbor Interp.Sexp Interp.Codec Schema.Decodable.
Import ListNotations.
Open Scope string_scope.
Open Scope list_scope.
Open Scope Z_scope.

Inductive c05_expect :=
| C05Ok (outid : string) (v : gval)
| C05Err (h : Z).

Record c05_call := mkC05Call { c05_run : string; c05_input : gval; c05_exp : c05_expect }.

Definition c05_expect_of (x : sexp) : option c05_expect :=
  match x with
  | Ls [At "expect"; At "ok"; St o; v] => v' <-? gval_of DEPTH v ;; Some (C05Ok o v')
  | Ls [At "expect"; At "err"; h] => h' <-? z_of_atom h ;; Some (C05Err h')
  | _ => None
  end.

Definition c05_call_of (x : sexp) : option c05_call :=
  match x with
  | Ls [At "call"; St run; St _; _; input; _; expect] =>
      i <-? gval_of DEPTH input ;; e <-? c05_expect_of expect ;; Some (mkC05Call run i e)
  | _ => None
  end.

Definition c05_is_err (c : c05_call) : bool :=
  match c05_exp c with C05Err _ => true | C05Ok _ _ => false end.

(* what Execute returns for one call; `dead`: the (version 1) session has already ended *)
Definition c05_call_obs (dead : bool) (c : c05_call) : sexp :=
  let '(atp, h) :=
    if dead then (Ls [At "atp"; At "err"], 0)
    else match c05_exp c with
         | C05Ok o v => (Ls [At "atp"; At "ok"; St o; s_gval DEPTH (cbor_norm DEPTH v)], 1)
         | C05Err h => (Ls [At "atp"; At "err"], h)
         end in
  Ls [At "call"; St (c05_run c); atp; Ls [At "h"; sz h]; Ls [At "inproc-agrees"; At "1"]].

Fixpoint c05_calls_obs (v1 : bool) (dead : bool) (cs : list c05_call) : list sexp :=
  match cs with
  | [] => []
  | c :: t => c05_call_obs dead c :: c05_calls_obs v1 (dead || (v1 && c05_is_err c)) t
  end.

Definition c05_server_errors (v1 : bool) (cs : list c05_call) : Z :=
  let n := Z.of_nat (List.length (filter c05_is_err cs)) in
  if v1 then (if 0 <? n then 1 else 0) else n.

Definition run_atpxp_case (payload : sexp) : sexp :=
  match payload with
  | Ls [At "session"; At proto; _; _; Ls (At "plugin" :: _); Ls (At "calls" :: calls); Ls (At "order" :: _)] =>
      let v1 := String.eqb proto "v1" in
      if negb (v1 || String.eqb proto "v3") then bad "c05 protocol"
      else match opt_mapM c05_call_of calls with
           | None => bad "c05 call"
           | Some cs =>
               if negb (forallb (fun c => decodableb DEPTH (c05_input c)) cs)
               then bad "c05 input outside the decodable class"
               else Ls (At "r" :: c05_calls_obs v1 false cs
                        ++ [Ls [At "server"; At "returned"; sz (c05_server_errors v1 cs)]])
           end
  | _ => bad "c05 case"
  end.
