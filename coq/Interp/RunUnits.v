(* Interp/RunUnits.v — C16 cases: decode, run the units model, encode the observation. *)
From Verif Require Import Base.Prelude Base.Str Schema.Regex Schema.Units Interp.Sexp.
Open Scope string_scope.

Definition unit_of (x : sexp) : option unit_def :=
  match x with
  | Ls [At "unit"; St a; St b; St c; St d] => Some (mkUnit a b c d)
  | _ => None
  end.
Definition units_of (x : sexp) : option units :=
  match x with
  | Ls [At "units"; b; Ls ms] =>
      bu <-? unit_of b ;;
      l <-? opt_mapM (fun m => match m with
                               | Ls [k; u] => kz <-? z_of_atom k ;; ud <-? unit_of u ;; Some (kz, ud)
                               | _ => None end) ms ;;
      Some (mkUnits bu l)
  | _ => None
  end.

(* observation of UnitsDefinition.ParseInt *)
Definition s_uparse (p : uparse) : sexp :=
  match p with UInt z => Ls [At "ok"; sz z] | UFloatTok => At "err" | UErr => At "err" end.

Definition run_units_case (x : sexp) : sexp :=
  match x with
  | Ls [At "fmtint"; us; n] =>
      match units_of us, z_of_atom n with
      | Some u, Some z =>
          let s := format_short_int u z in
          let l := format_long_int u z in
          Ls [At "r"; St s; St l; s_uparse (parse_units u s); s_uparse (parse_units u l)]
      | _, _ => bad "fmtint"
      end
  | Ls [At "parse"; us; St s] =>
      match units_of us with
      | Some u => Ls [At "r"; s_uparse (parse_units u s)]
      | None => bad "parse"
      end
  | _ => bad "units case"
  end.
