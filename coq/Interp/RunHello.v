(* Interp/RunHello.v — cases of the family c09hello: a whole plugin schema served by the real ATP server and
   read by the real ATP client.

   (desc plugin ENV PLUGIN (inputs V...))        (the plugin payload of c09describe)
   observation: see harness/cmd/harness/c09_hello.go *)
From Verif Require Import Base.Prelude Base.Str Base.Float Base.GoVal
  Schema.Regex Schema.Units Schema.Syntax Schema.Ops Schema.Cbor Schema.FloatUnits Schema.Describe Schema.DescribeNest
  Generated.Tables Interp.Sexp Interp.RunUnits Interp.Codec Interp.RunSchema Interp.RunDescribe.
Open Scope string_scope.
Open Scope Z_scope.

Definition run_hello_plugin (e : env) (p : dplugin) (inputs : list sexp) : sexp :=
  if negb (plugin_describable p) then Ls [At "h"; At "err"]
  else
    let d1 := describe_plugin p in
    let n := hello_nest d1 in
    let hd := [At "h"; Ls [At "ok"; s_val d1]; sz (Z.of_nat n)] in
    if Nat.ltb cbor_max_nested n then Ls (List.app hd [At "err"; At "clean"])
    else
      let pats := flat_map pats_of (plugin_scopes p) in
      match m_rebuild_plugin pats (e_or e) (cbor_norm DEPTH d1) with
      | Ok p2 =>
          let a := labelled_scopes p in
          let b := labelled_scopes p2 in
          Ls (List.app hd
                [At "ok"; At "clean"; At "ok"; same_or_diff d1 (describe_plugin p2);
                 Ls (At "behs" :: (if Nat.eqb (List.length a) (List.length b)
                                   then behs_of e (List.length a) O a b inputs else [At "shape-differs"]))])
      | o => Ls (List.app hd [s_class o; At "clean"])
      end.

Definition run_hello_case (x : sexp) : sexp :=
  match x with
  | Ls [At "desc"; At "plugin"; ex; sx; Ls (At "inputs" :: inputs)] =>
      match env_of ex, plugin_of sx with
      | Some e, Some p => run_hello_plugin e p inputs
      | None, _ => bad "env"
      | _, None => bad "plugin"
      end
  | _ => bad "hello case"
  end.
