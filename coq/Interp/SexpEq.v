(* Interp/SexpEq.v — decidable equality on the interchange syntax, used by the in-Coq
   re-evaluation of a sample of every run's cases (lib/check.py `coq_sample`): the same
   `run_case` is evaluated by vm_compute inside Coq and compared with what the extracted
   OCaml program printed, which keeps extraction and the OCaml driver themselves under test. *)
From Verif Require Import Base.Prelude Base.Str Interp.Sexp.

Fixpoint sexp_eqb (a b : sexp) {struct a} : bool :=
  match a, b with
  | At x, At y => String.eqb x y
  | St x, St y => String.eqb x y
  | Ls l, Ls m =>
      (fix go (l : list sexp) (m : list sexp) {struct l} : bool :=
         match l, m with
         | [], [] => true
         | x :: l', y :: m' => sexp_eqb x y && go l' m'
         | _, _ => false
         end) l m
  | _, _ => false
  end.

(* bytes that cannot be written inside a Coq string literal *)
Definition bs (l : list nat) : string :=
  fold_right (fun n s => String (Ascii.ascii_of_nat n) s) EmptyString l.

(* indices (from 0) of the cases whose evaluation differs from the recorded prediction *)
Fixpoint mismatches (run : sexp -> sexp) (i : nat) (cases preds : list sexp) : list nat :=
  match cases, preds with
  | c :: cs, p :: ps => if sexp_eqb (run c) p then mismatches run (S i) cs ps else i :: mismatches run (S i) cs ps
  | [], [] => []
  | _, _ => [i]
  end.
