(* Interp/RunCompat.v — schema-vs-schema compatibility cases (C15):
     (c15 ENV1 S ENV2 T META)    S.ValidateCompatibility(T); META is for the checker only
        observation: (r ok) | (r err) | (r panic) | (r diverged)
     (c15rb ENV S)               S against the scope rebuilt from its own description, both ways
        observation: (rb ok ok) — the property's demand; the model has no rebuild (C09), so the
        prediction is the demand itself whenever S is well-formed *)
From Verif Require Import Base.Prelude Base.Str Base.Float Base.GoVal
  Schema.Regex Schema.Units Schema.Syntax Schema.Ops Schema.Compat Schema.FloatUnits
  Generated.Tables Interp.Sexp Interp.RunUnits Interp.Codec.
Open Scope string_scope.

Definition C15_FUEL : nat := 600.

Definition m_compat_schema := compat_schema bool_words parse_units_float.

Definition s_verdict (o : outcome unit) : sexp :=
  match o with
  | Ok _ => At "ok"
  | Err _ => At "err"
  | Panic _ => At "panic"
  | OutOfFuel => At "diverged"
  end.

Definition run_c15_case (x : sexp) : sexp :=
  match x with
  | Ls [At "c15"; ex1; sx; ex2; tx; _] =>
      match env_of ex1, schema_of DEPTH sx, env_of ex2, schema_of DEPTH tx with
      | Some e1, Some s, Some e2, Some t => Ls [At "r"; s_verdict (m_compat_schema C15_FUEL e1 s e2 t)]
      | _, _, _, _ => bad "c15 case"
      end
  | Ls [At "c15rb"; ex; sx] =>
      match env_of ex, schema_of DEPTH sx with
      | Some e, Some s => if c15_wf C15_FUEL e s then Ls [At "rb"; At "ok"; At "ok"] else Ls [At "rb"; At "not-wf"]
      | _, _ => bad "c15rb case"
      end
  | _ => bad "c15 case shape"
  end.
