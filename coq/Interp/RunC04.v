(* Interp/RunC04.v — totality cases (C04):
     (c04 ENV SCHEMA (hyp NIC NDC) (ops OP...))    OP ::= (u V) | (v V) | (s V) | (c V)
   observation:
     (r (wf 1) (hyp NIC NDC) CLS...)   CLS ::= ok | err | panic | diverged
     (r (wf 0))                        the schema violates a constructor contract (Wf.wf_schema)
   NIC / NDC are the model's own evaluation of Wf.no_inline_cycle and Total.defaults_total.
   When both hold every operation runs with exactly the fuel of theorem C04 (fuel_bound), so a
   `diverged` there would contradict the theorem; otherwise a fixed fuel is used and `diverged`
   is the modelled behaviour of the known findings (the Go code overflows its stack).
     (c04s NAME (ops OP...))  struct-mapped objects: not modelled; the prediction is the statement of
   C04 alone, `t` (total) for every operation. *)
From Verif Require Import Base.Prelude Base.Str Base.Float Base.GoVal
  Schema.Regex Schema.Units Schema.Syntax Schema.Ops Schema.Wf Schema.Total Schema.FloatUnits
  Generated.Tables Interp.Sexp Interp.RunUnits Interp.Codec Interp.RunSchema.
Open Scope string_scope.

Definition C04_K : nat := 300.

Definition s_class {A} (o : outcome A) : sexp :=
  match o with
  | Ok _ => At "ok" | Err _ => At "err" | Panic _ => At "panic" | OutOfFuel => At "diverged"
  end.

Definition run_c04_op (safe : bool) (e : env) (s : schema) (op : sexp) : sexp :=
  match op with
  | Ls [At k; vx] =>
      match gval_of DEPTH vx with
      | Some v =>
          let f := if safe then fuel_bound C04_K e s v else FUEL in
          if String.eqb k "u" then s_class (m_unser f e s v)
          else if String.eqb k "v" then s_class (m_validate f e s v)
          else if String.eqb k "s" then s_class (m_serialize f e s v)
          else if String.eqb k "c" then s_class (m_compat f e s v)
          else bad "op"
      | None => bad "value"
      end
  | _ => bad "op shape"
  end.

Definition run_c04_case (x : sexp) : sexp :=
  match x with
  | Ls [At "c04"; ex; sx; Ls [At "hyp"; _; _]; Ls (At "ops" :: ops)] =>
      match env_of ex, schema_of DEPTH sx with
      | Some e, Some s =>
          if wf_schema e s then
            let nic := no_inline_cycle e s in
            let ndc := defaults_total bool_words parse_units_float C04_K e s in
            Ls (At "r" :: Ls [At "wf"; At "1"] :: Ls [At "hyp"; sb nic; sb ndc]
                  :: map (run_c04_op (nic && ndc) e s) ops)
          else Ls [At "r"; Ls [At "wf"; At "0"]]
      | None, _ => bad "env"
      | _, None => bad "schema"
      end
  | _ => bad "c04 case"
  end.

Definition run_c04s_case (x : sexp) : sexp :=
  match x with
  | Ls [At "c04s"; _; Ls (At "ops" :: ops)] => Ls (At "r" :: map (fun _ => At "t") ops)
  | _ => bad "c04s case"
  end.
