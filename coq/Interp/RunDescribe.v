(* Interp/RunDescribe.v — cases of the families c09describe and c10mutants.

   (desc scope  ENV SCOPE  (inputs V...))
   (desc plugin ENV PLUGIN (inputs V...))     PLUGIN ::= (plugin (STEP...))
      STEP ::= (step ID SCOPE ((OID SCOPE ODISP ERR)...) ((KEY SIGID SCOPE ODISP)...) ((KEY SIGID SCOPE ODISP)...) ODISP)
   observation: see harness/cmd/harness/c09_describe.go

   (mut KIND ENV10 VALUE)    KIND ::= scope | schema | hello
      ENV10 ::= (env10 (json ((TEXT VALUE|fail)...)) (repat ((SRC 0|1)...)))
   observation: rejected | (usable DESCRIPTION) | pending *)
From Verif Require Import Base.Prelude Base.Str Base.Float Base.GoVal
  Schema.Regex Schema.Units Schema.Syntax Schema.Ops Schema.Cbor Schema.FloatUnits Schema.Describe
  Generated.Tables Interp.Sexp Interp.RunUnits Interp.Codec Interp.RunSchema.
Open Scope string_scope.
Open Scope Z_scope.

(* ---------- equality of printed values ---------- *)
Fixpoint sexp_eqb (a b : sexp) {struct a} : bool :=
  match a, b with
  | At x, At y => String.eqb x y
  | St x, St y => String.eqb x y
  | Ls l, Ls m =>
      (fix go (l : list sexp) (m : list sexp) {struct l} : bool :=
         match l, m with
         | [], [] => true
         | x :: t, y :: u => sexp_eqb x y && go t u
         | _, _ => false
         end) l m
  | _, _ => false
  end.

(* ---------- yaml.v3: Marshal, then Unmarshal into `any` ---------- *)
Definition yaml_float (x : fl) : gval :=
  match fl_int_value x with
  | Some z => if (Z.abs z <? 1000000) then VInt (TInt I0) z else VFloat TF64 x
  | None => VFloat TF64 x
  end.
Fixpoint yaml_norm (fuel : nat) (v : gval) : gval :=
  match fuel with
  | O => v
  | S f =>
    match v with
    | VInt _ z => VInt (TInt I0) z
    | VFloat _ x => yaml_float x
    | VStr _ s => VStr TStr s
    | VBool _ b => VBool TBool b
    | VSlice _ _ l => VSlice t_any_slice false (map (yaml_norm f) l)
    | VMap _ _ kvs =>
        let kvs' := map (fun kv => (yaml_norm f (fst kv), yaml_norm f (snd kv))) kvs in
        if forallb (fun kv => match fst kv with VStr _ _ => true | _ => false end) kvs'
        then VMap t_str_map false kvs' else VMap t_any_map false kvs'
    | x => x
    end
  end.

Definition m_rebuild (pats : list (string * re)) (jor : oracles) : gval -> outcome schema :=
  rebuild bool_words parse_units_float unit_characters (fun src => alookup src pats) jor.
Definition m_rebuild_plugin (pats : list (string * re)) (jor : oracles) : gval -> outcome dplugin :=
  rebuild_plugin bool_words parse_units_float unit_characters (fun src => alookup src pats) jor.

Definition s_class {A} (o : outcome A) : sexp :=
  match o with Ok _ => At "ok" | Err _ => At "err" | Panic _ => At "panic" | OutOfFuel => At "diverged" end.

Definition same_or_diff (d1 d2 : gval) : sexp :=
  if sexp_eqb (s_val d1) (s_val d2) then At "same" else Ls [At "diff"; s_val d2].

(* Unserialize of every input on the original and on the rebuilt schema *)
Definition beh_of (e : env) (s s2 : schema) (inputs : list sexp) : list sexp :=
  map (fun ix => match gval_of DEPTH ix with
                 | Some v => Ls [s_outcome s_val (m_unser FUEL e s v); s_outcome s_val (m_unser FUEL e s2 v)]
                 | None => bad "value"
                 end) inputs.

Definition via_scope (tag : string) (pats : list (string * re)) (jor : oracles) (d1 dn : gval) : sexp :=
  match m_rebuild pats jor dn with
  | Ok s3 => Ls [At tag; s_val dn; same_or_diff d1 (describe s3)]
  | o => Ls [At tag; s_val dn; s_class o]
  end.

Definition run_desc_scope (e : env) (s : schema) (inputs : list sexp) : sexp :=
  if negb (describable s) then Ls [At "r"; At "err"]
  else
    let d1 := describe s in
    let pats := List.app (pats_of s) (flat_map (fun nt => flat_map (fun io => pats_of (snd io)) (snd nt)) (e_ext e)) in
    let jor := e_or e in
    match m_rebuild pats jor d1 with
    | Ok s2 =>
        Ls [At "r"; Ls [At "ok"; s_val d1]; At "ok"; same_or_diff d1 (describe s2);
            via_scope "cbor" pats jor d1 (cbor_norm DEPTH d1);
            via_scope "yaml" pats jor d1 (yaml_norm DEPTH d1);
            Ls (At "beh" :: beh_of e s s2 inputs)]
    | o => Ls [At "r"; Ls [At "ok"; s_val d1]; s_class o]
    end.

(* ---------- plugins ---------- *)
Definition scope_of (x : sexp) : option schema :=
  match schema_of DEPTH x with Some (SScope os r) => Some (SScope os r) | _ => None end.

Definition signals_of (x : sexp) : option (list (string * dsignal)) :=
  match x with
  | Ls l => opt_mapM (fun y => match y with
                               | Ls [St key; St id; sc; d] =>
                                   s <-? scope_of sc ;; d' <-? odisplay_of d ;; Some (key, mkSignal id s d')
                               | _ => None end) l
  | _ => None
  end.
Definition step_of (x : sexp) : option (string * dstep) :=
  match x with
  | Ls [At "step"; St id; input; Ls outs; sh; se; d] =>
      i <-? scope_of input ;;
      os <-? opt_mapM (fun y => match y with
                                | Ls [St oid; sc; od; er] =>
                                    s <-? scope_of sc ;; od' <-? odisplay_of od ;; er' <-? b_of_atom er ;;
                                    Some (oid, mkOutput s od' er')
                                | _ => None end) outs ;;
      sh' <-? signals_of sh ;; se' <-? signals_of se ;; d' <-? odisplay_of d ;;
      Some (id, mkStep id i os sh' se' d')
  | _ => None
  end.
Definition plugin_of (x : sexp) : option dplugin :=
  match x with
  | Ls [At "plugin"; Ls steps] => opt_mapM step_of steps
  | _ => None
  end.

Fixpoint ins_key {A} (x : string * A) (l : list (string * A)) : list (string * A) :=
  match l with
  | [] => [x]
  | y :: t => if str_ltb (fst x) (fst y) then x :: l else y :: ins_key x t
  end.
Definition sort_keys {A} (l : list (string * A)) : list (string * A) := fold_right ins_key [] l.

(* every data schema with its label, in the harness's order *)
Definition labelled_scopes (p : dplugin) : list (string * schema) :=
  flat_map (fun ks =>
    let sid := fst ks in
    let st := snd ks in
    List.app [("in:" ++ sid, st_input st)]
    (List.app (map (fun ko => ("out:" ++ sid ++ ":" ++ fst ko, so_schema (snd ko))) (sort_keys (st_outputs st)))
    (List.app (map (fun kg => ("sh:" ++ sid ++ ":" ++ fst kg, sg_data (snd kg))) (sort_keys (st_handlers st)))
              (map (fun kg => ("se:" ++ sid ++ ":" ++ fst kg, sg_data (snd kg))) (sort_keys (st_emitters st))))))
    (sort_keys p).

Definition plugin_describable (p : dplugin) : bool :=
  nodup_str (map fst p)
  && forallb (fun ks =>
       let st := snd ks in
       id_ok (fst ks) && id_ok (st_id st) && odisplay_ok (st_display st) && describable (st_input st)
       && nodup_str (map fst (st_outputs st))
       && forallb (fun ko => id_ok (fst ko) && odisplay_ok (so_display (snd ko)) && describable (so_schema (snd ko))) (st_outputs st)
       && nodup_str (map fst (st_handlers st)) && nodup_str (map fst (st_emitters st))
       && forallb (fun kg => id_ok (fst kg) && id_ok (sg_id (snd kg)) && odisplay_ok (sg_display (snd kg))
                             && describable (sg_data (snd kg))) (List.app (st_handlers st) (st_emitters st))) p.

Fixpoint nth_mod_inputs (n i : nat) (j : nat) (inputs : list sexp) : list sexp :=
  match inputs with
  | [] => []
  | x :: t => if Nat.eqb (Nat.modulo j n) i then x :: nth_mod_inputs n i (S j) t else nth_mod_inputs n i (S j) t
  end.

Fixpoint behs_of (e : env) (n i : nat) (a b : list (string * schema)) (inputs : list sexp) : list sexp :=
  match a, b with
  | (la, sa) :: ta, (lb, sb) :: tb =>
      if String.eqb la lb
      then Ls (St la :: beh_of e sa sb (nth_mod_inputs n i O inputs)) :: behs_of e n (S i) ta tb inputs
      else [At "shape-differs"]
  | [], [] => []
  | _, _ => [At "shape-differs"]
  end.

Definition via_plugin (tag : string) (pats : list (string * re)) (jor : oracles) (d1 dn : gval) : sexp :=
  match m_rebuild_plugin pats jor dn with
  | Ok p3 => Ls [At tag; s_val dn; same_or_diff d1 (describe_plugin p3)]
  | o => Ls [At tag; s_val dn; s_class o]
  end.

Definition run_desc_plugin (e : env) (p : dplugin) (inputs : list sexp) : sexp :=
  if negb (plugin_describable p) then Ls [At "r"; At "err"]
  else
    let d1 := describe_plugin p in
    let pats := flat_map pats_of (plugin_scopes p) in
    let jor := e_or e in
    match m_rebuild_plugin pats jor d1 with
    | Ok p2 =>
        let a := labelled_scopes p in
        let b := labelled_scopes p2 in
        Ls [At "r"; Ls [At "ok"; s_val d1]; At "ok"; same_or_diff d1 (describe_plugin p2);
            via_plugin "cbor" pats jor d1 (cbor_norm DEPTH d1);
            via_plugin "yaml" pats jor d1 (yaml_norm DEPTH d1);
            Ls (At "behs" :: (if Nat.eqb (List.length a) (List.length b)
                              then behs_of e (List.length a) O a b inputs else [At "shape-differs"]))]
    | o => Ls [At "r"; Ls [At "ok"; s_val d1]; s_class o]
    end.

Definition run_describe_case (x : sexp) : sexp :=
  match x with
  | Ls [At "desc"; At kind; ex; sx; Ls (At "inputs" :: inputs)] =>
      match env_of ex with
      | None => bad "env"
      | Some e =>
          if String.eqb kind "scope" then
            match scope_of sx with Some s => run_desc_scope e s inputs | None => bad "scope" end
          else if String.eqb kind "plugin" then
            match plugin_of sx with Some p => run_desc_plugin e p inputs | None => bad "plugin" end
          else bad "kind"
      end
  | _ => bad "describe case"
  end.

(* ---------- C10 ---------- *)
Definition env10_of (x : sexp) : option (oracles * (string -> option re)) :=
  match x with
  | Ls [At "env10"; Ls [At "json"; Ls js]; Ls [At "repat"; Ls rs]] =>
      jt <-? opt_mapM (fun y => match y with
                                | Ls [St txt; At "fail"] => Some (txt, None)
                                | Ls [St txt; v] => v' <-? gval_of DEPTH v ;; Some (txt, Some v')
                                | _ => None end) js ;;
      rt <-? opt_mapM (fun y => match y with
                                | Ls [St s; b] => b' <-? b_of_atom b ;; Some (s, b')
                                | _ => None end) rs ;;
      Some (mkOracles (fun txt => match alookup txt jt with Some r => r | None => None end)
                      (fun s => match alookup s rt with Some b => b | None => false end),
            (* the parsed form of a mutated pattern is not needed to decide acceptance *)
            fun s => match alookup s rt with Some true => Some Eps | _ => None end)
  | _ => None
  end.

Definition run_mutant_case (x : sexp) : sexp :=
  match x with
  | Ls [At "mut"; At kind; ex; vx; _] =>
      match env10_of ex, gval_of DEPTH vx with
      | Some (jor, rp), Some d =>
          if String.eqb kind "scope" then
            match rebuild bool_words parse_units_float unit_characters rp jor d with
            | Ok s => if foreign_refs s then At "pending" else Ls [At "usable"; s_val (describe s)]
            | Err _ => At "rejected"
            | Panic _ => Ls [At "panic"; At "load"]
            | OutOfFuel => At "diverged"
            end
          else
            match rebuild_plugin bool_words parse_units_float unit_characters rp jor d with
            | Ok p => Ls [At "usable"; s_val (describe_plugin p)]
            | Err _ => At "rejected"
            | Panic _ => Ls [At "panic"; At "load"]
            | OutOfFuel => At "diverged"
            end
      | None, _ => bad "env10"
      | _, None => bad "value"
      end
  | _ => bad "mutant case"
  end.
