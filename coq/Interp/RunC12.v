(* Interp/RunC12.v — purity cases (C12):
     (c12 ENV SCHEMA (coll B) (calls OP...))     OP ::= (u V) | (v V) | (s V) | (c V)
   prediction:
     (r (coll B) (CLS same kept)... (state same) (after same) (desc same))
   The model is a pure function of (schema, argument): by C12_history_free the result of every call of a
   history equals its result on the initial state, repeated evaluation gives the same result whatever
   the order of map entries (C12_order_independent, outside the key-collision class), arguments are
   immutable values, and the state after a history is that of a fresh instance; the schema is a value of the model too, so
   its self-description (desc: property flags, default texts, rule lists in their order) after any call is the one before it.  `coll` is the model's
   evaluation of Perm.has_key_collision on the call arguments (known finding D19).
     (c12s NAME (calls OP...))  struct-mapped objects: not modelled; the prediction is the statement of
   C12 with the outcome class projected to `t`. *)
From Verif Require Import Base.Prelude Base.Str Base.Float Base.GoVal
  Schema.Regex Schema.Units Schema.Syntax Schema.Ops Schema.Perm Schema.FloatUnits
  Generated.Tables Interp.Sexp Interp.RunUnits Interp.Codec Interp.RunSchema Interp.RunC04.
Open Scope string_scope.

Definition c12_call_val (op : sexp) : option gval :=
  match op with Ls [At k; vx] => if String.eqb k "cs" then None else gval_of DEPTH vx | _ => None end.

(* (cs SCHEMA2): ValidateCompatibility with a schema as argument; the verdict is C15's (Schema/Compat.v), here the
   outcome class is projected to `t` and only the purity flags are predicted *)
Definition run_c12_call (e : env) (s : schema) (op : sexp) : sexp :=
  match op with
  | Ls [At k; vx] =>
      if String.eqb k "cs" then Ls [At "t"; At "same"; At "kept"] else
      match gval_of DEPTH vx with
      | Some v =>
          let cls := if String.eqb k "u" then s_class (m_unser FUEL e s v)
                     else if String.eqb k "v" then s_class (m_validate FUEL e s v)
                     else if String.eqb k "s" then s_class (m_serialize FUEL e s v)
                     else s_class (m_compat FUEL e s v) in
          Ls [cls; At "same"; At "kept"]
      | None => bad "value"
      end
  | _ => bad "call shape"
  end.

Definition run_c12_case (x : sexp) : sexp :=
  match x with
  | Ls [At "c12"; ex; sx; Ls [At "coll"; _]; Ls (At "calls" :: calls)] =>
      match env_of ex, schema_of DEPTH sx with
      | Some e, Some s =>
          let coll := existsb (fun op => match c12_call_val op with Some v => has_key_collision v | None => false end) calls in
          Ls (At "r" :: Ls [At "coll"; sb coll]
                :: (map (run_c12_call e s) calls ++ [Ls [At "state"; At "same"]; Ls [At "after"; At "same"]; Ls [At "desc"; At "same"]])%list)
      | None, _ => bad "env"
      | _, None => bad "schema"
      end
  | _ => bad "c12 case"
  end.

Definition run_c12s_case (x : sexp) : sexp :=
  match x with
  | Ls [At "c12s"; _; Ls (At "calls" :: calls)] =>
      Ls (At "r" :: (map (fun _ => Ls [At "t"; At "same"; At "kept"]) calls
                       ++ [Ls [At "state"; At "same"]; Ls [At "after"; At "same"]; Ls [At "desc"; At "same"]])%list)
  | _ => bad "c12s case"
  end.
