(* Interp/RunFootprint.v — sequential footprint cases (family c13foot):
     (foot UNITS (ops (pi "s")|(pf "s")|(fsi N)|(fli N)|(fsf F)|(flf F) ...))
   the operations run one after the other on ONE fresh unit definition; observation: per operation
   the cache cells it filled:  (r (w sorted? re?) ...)  — first use fills, later use fills nothing. *)
From Verif Require Import Base.Prelude Base.Str Base.Float Base.GoVal Schema.Regex Schema.Units Schema.Syntax Schema.Ops
  Schema.FloatUnits ATP.Msg ATP.Footprint Schema.FootprintOps Generated.Tables
  Interp.Sexp Interp.RunUnits Interp.Codec Interp.RunSchema.
Open Scope string_scope.

(* strings.TrimSpace leaves nothing: ASCII white space only (the generator's alphabet) *)
Definition is_space (c : ascii) : bool :=
  match c with
  | " "%char | "009"%char | "010"%char | "011"%char | "012"%char | "013"%char => true
  | _ => false
  end.
Definition is_blank (s : string) : bool := forallb is_space (chars s).

Definition units_op_of (x : sexp) : option units_op :=
  match x with
  | Ls [At k; St s] =>
      if String.eqb k "pi" || String.eqb k "pf" then Some (UParse (is_blank s)) else None
  | Ls [At k; n] =>
      if String.eqb k "fsi" || String.eqb k "fli" then z <-? z_of_atom n ;; Some (UFormat (Z.eqb z 0))
      else if String.eqb k "fsf" || String.eqb k "flf" then
        f <-? fl_of n ;; Some (UFormat (match f with FZero _ => true | _ => false end))
      else None
  | _ => None
  end.

Definition s_cell (c : cell) : sexp :=
  match c with
  | CUnitsSorted _ => At "sorted" | CUnitsRe _ => At "re" | CDefaults _ => At "defaults"
  | CStepData _ => At "stepdata" | CLink _ => At "link"
  end.
Definition cell_rank (c : cell) : Z :=
  match c with CUnitsSorted _ => 0 | CUnitsRe _ => 1 | CDefaults _ => 2 | CStepData _ => 3 | CLink _ => 4 end.
Fixpoint ins_cell (c : cell) (l : list cell) : list cell :=
  match l with [] => [c] | x :: t => if Z.ltb (cell_rank c) (cell_rank x) then c :: l else x :: ins_cell c t end.

Fixpoint run_foot_ops (sh : shape) (st : cstate) (ops : list units_op) : list sexp :=
  match ops with
  | [] => []
  | o :: r =>
      let '(_, st') := run_prims sh true st (units_prims 0 o) in
      Ls (At "w" :: map s_cell (fold_right ins_cell [] (newly_filled st st'))) :: run_foot_ops sh st' r
  end.

Definition run_foot_units_case (x : sexp) : sexp :=
  match x with
  | Ls [At "foot"; ux; Ls (At "ops" :: ops)] =>
      match units_of ux, opt_mapM units_op_of ops with
      | Some us, Some os =>
          let sh := mkShape (fun _ => match u_mults us with [] => false | _ => true end) (fun _ => false) in
          Ls (At "r" :: run_foot_ops sh cs_empty os)
      | None, _ => bad "units"
      | _, None => bad "ops"
      end
  | _ => bad "foot case"
  end.

(* ---------- whole schema operations (cases `footops`, harness/cmd/harness/c13_footops.go):
     (footops fresh|lazy ENV SCHEMA (ops (u V)|(v V)|(s V)|(c V) ...))
   prediction: (r (init all|none) (o CLASS (d CELL...) (t CELL...) (m CELL...)) ...)   CELL ::= (sorted N)|(re N)|(defaults N)
     d: the cells the operation fills in the model's own state-passing run (run_prims from the state the
        previous operations left);  t: the cells its uses fill from an EMPTY state, in the model's
        evaluation order (for an operation that succeeds: every cell it touches, whatever the order);
     m: the same with the iterations over Go maps continued past failing entries (upper bound for an
        operation that fails, whatever iteration order the runtime picked). ---------- *)
Definition s_ncell (c : cell) : sexp :=
  match c with
  | CUnitsSorted n => Ls [At "sorted"; sz (Z.of_N n)] | CUnitsRe n => Ls [At "re"; sz (Z.of_N n)]
  | CDefaults n => Ls [At "defaults"; sz (Z.of_N n)] | CStepData n => Ls [At "stepdata"; sz (Z.of_N n)]
  | CLink n => Ls [At "link"; sz (Z.of_N n)]
  end.
Definition cell_num (c : cell) : N :=
  match c with CUnitsSorted n | CUnitsRe n | CDefaults n | CStepData n | CLink n => n end.
Definition ncell_ltb (a b : cell) : bool :=
  N.ltb (cell_num a) (cell_num b) || (N.eqb (cell_num a) (cell_num b) && Z.ltb (cell_rank a) (cell_rank b)).
Fixpoint ins_ncell (c : cell) (l : list cell) : list cell :=
  match l with [] => [c] | x :: t => if ncell_ltb c x then c :: l else x :: ins_ncell c t end.
Definition s_cells (tag : string) (l : list cell) : sexp := Ls (At tag :: map s_ncell (fold_right ins_ncell [] l)).

Definition s_class0 {A} (o : outcome A) : sexp :=
  match o with Ok _ => At "ok" | Err _ => At "err" | Panic _ => At "panic" | OutOfFuel => At "diverged" end.
Definition xprims_op (cont : bool) (k : string) (e : env) (s : schema) (v : gval) : list xprim :=
  let ne := nenv0 e s in
  if String.eqb k "u" then xprims_unser bool_words parse_units_float cont FUEL 0%N ne e s v
  else if String.eqb k "v" then xprims_validate bool_words parse_units_float cont FUEL 0%N ne e s v
  else if String.eqb k "s" then xprims_serialize bool_words parse_units_float cont FUEL 0%N ne e s v
  else xprims_compat bool_words parse_units_float cont FUEL 0%N ne e s v.
Definition class_op (k : string) (e : env) (s : schema) (v : gval) : sexp :=
  if String.eqb k "u" then s_class0 (m_unser FUEL e s v)
  else if String.eqb k "v" then s_class0 (m_validate FUEL e s v)
  else if String.eqb k "s" then s_class0 (m_serialize FUEL e s v)
  else s_class0 (m_compat FUEL e s v).

Fixpoint run_footops (lazy : bool) (e : env) (s : schema) (st : cstate) (ops : list sexp) : list sexp :=
  match ops with
  | [] => []
  | Ls [At k; vx] :: r =>
      match gval_of DEPTH vx with
      | Some v =>
          let xs := xprims_op false k e s v in
          let xm := xprims_op true k e s v in
          let sh := shape_of xs lazy in
          let '(_, st') := run_prims sh true st (map prim_of xs) in
          let '(_, st0) := run_prims sh true cs_empty (map prim_of xs) in
          let '(_, stm) := run_prims (shape_of xm lazy) true cs_empty (map prim_of xm) in
          Ls [At "o"; class_op k e s v; s_cells "d" (newly_filled st st');
              s_cells "t" (cs_filled st0); s_cells "m" (cs_filled stm)] :: run_footops lazy e s st' r
      | None => [bad "value"]
      end
  | _ :: _ => [bad "op shape"]
  end.

Definition run_footops_case (x : sexp) : sexp :=
  match x with
  | Ls [At "footops"; At mode; ex; sx; Ls (At "ops" :: ops)] =>
      match env_of ex, schema_of DEPTH sx with
      | Some e, Some s =>
          let lazy := String.eqb mode "lazy" in
          Ls (At "r" :: Ls [At "init"; At (if lazy then "none" else "all")] :: run_footops lazy e s cs_empty ops)
      | None, _ => bad "env"
      | _, None => bad "schema"
      end
  | _ => bad "footops case"
  end.

(* family c13foot: dispatch on the head of the payload *)
Definition run_foot_case (x : sexp) : sexp :=
  match x with
  | Ls (At "footops" :: _) => run_footops_case x
  | _ => run_foot_units_case x
  end.
