(* Interp/RunFootprint.v — sequential footprint cases (family c13foot):
     (foot UNITS (ops (pi "s")|(pf "s")|(fsi N)|(fli N)|(fsf F)|(flf F) ...))
   the operations run one after the other on ONE fresh unit definition; observation: per operation
   the cache cells it filled:  (r (w sorted? re?) ...)  — first use fills, later use fills nothing. *)
From Verif Require Import Base.Prelude Base.Str Base.Float Schema.Regex Schema.Units ATP.Msg ATP.Footprint
  Interp.Sexp Interp.RunUnits Interp.Codec.
Open Scope string_scope.

(* strings.TrimSpace leaves nothing: ASCII white space only (the generator's alphabet) *)
Definition is_space (c : ascii) : bool :=
  match c with
  | " "%char | "009"%char | "010"%char | "011"%char | "012"%char | "013"%char => true
  | _ => false
  end.
Definition is_blank (s : string) : bool := forallb is_space (chars s).

Definition units_op_of (x : sexp) : option units_op :=
  match x with
  | Ls [At k; St s] =>
      if String.eqb k "pi" || String.eqb k "pf" then Some (UParse (is_blank s)) else None
  | Ls [At k; n] =>
      if String.eqb k "fsi" || String.eqb k "fli" then z <-? z_of_atom n ;; Some (UFormat (Z.eqb z 0))
      else if String.eqb k "fsf" || String.eqb k "flf" then
        f <-? fl_of n ;; Some (UFormat (match f with FZero _ => true | _ => false end))
      else None
  | _ => None
  end.

Definition s_cell (c : cell) : sexp :=
  match c with
  | CUnitsSorted _ => At "sorted" | CUnitsRe _ => At "re" | CDefaults _ => At "defaults"
  | CStepData _ => At "stepdata" | CLink _ => At "link"
  end.
Definition cell_rank (c : cell) : Z :=
  match c with CUnitsSorted _ => 0 | CUnitsRe _ => 1 | CDefaults _ => 2 | CStepData _ => 3 | CLink _ => 4 end.
Fixpoint ins_cell (c : cell) (l : list cell) : list cell :=
  match l with [] => [c] | x :: t => if Z.ltb (cell_rank c) (cell_rank x) then c :: l else x :: ins_cell c t end.

Fixpoint run_foot_ops (sh : shape) (st : cstate) (ops : list units_op) : list sexp :=
  match ops with
  | [] => []
  | o :: r =>
      let '(_, st') := run_prims sh true st (units_prims 0 o) in
      Ls (At "w" :: map s_cell (fold_right ins_cell [] (newly_filled st st'))) :: run_foot_ops sh st' r
  end.

Definition run_foot_case (x : sexp) : sexp :=
  match x with
  | Ls [At "foot"; ux; Ls (At "ops" :: ops)] =>
      match units_of ux, opt_mapM units_op_of ops with
      | Some us, Some os =>
          let sh := mkShape (fun _ => match u_mults us with [] => false | _ => true end) (fun _ => false) in
          Ls (At "r" :: run_foot_ops sh cs_empty os)
      | None, _ => bad "units"
      | _, None => bad "ops"
      end
  | _ => bad "foot case"
  end.
