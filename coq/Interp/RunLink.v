(* Interp/RunLink.v — reference-linking cases (C14):
     (c14 ENV SCHEMA (order|order-so|order-rb "ns"...) INLINED (ops OP...))     OP ::= (u V) | (rt V) | (vs NATIVE)
     order-rb: SCHEMA and INLINED are REBUILT from their descriptions (UnserializeScope): no scope of the tree went
     through NewScopeSchema, the whole tree is linked by ONE ApplySelf of the outermost scope — `link_rebuilt` =
     link_ns None "" on the empty table (Properties/C14.v: C14_rebuilt_lexical, C14_rebuilt_agrees_with_built);
     the reverse-order run is on the code-built tree (link_build)
   observation (see harness/cmd/harness/c14_scopes.go):
     (r (st LINKS VR) (st LINKS VR)... (rev (st LINKS VR)) (ops O...) (inl O...)) *)
From Verif Require Import Base.Prelude Base.Str Base.Float Base.GoVal
  Schema.Regex Schema.Units Schema.Syntax Schema.Ops Schema.Link Schema.FloatUnits
  Generated.Tables Interp.Sexp Interp.RunUnits Interp.Codec Interp.RunSchema.
Open Scope string_scope.

Definition C14_LFUEL : nat := 400.      (* walks of the schema text *)
Definition C14_FUEL : nat := 1500.      (* data operations on deeply nested inputs *)

Definition s_loc (l : lloc) : sexp :=
  match l with LScope p => Ls [At "scope"; St (lpath_text p)] | LExt ns => Ls [At "ext"; St ns] end.

Fixpoint ins_path (x : string * sexp) (l : list (string * sexp)) : list (string * sexp) :=
  match l with
  | [] => [x]
  | y :: t => if str_ltb (fst x) (fst y) then x :: l else y :: ins_path x t
  end.

Definition s_state (s : schema) (lt : ltab) : sexp :=
  let rows := map (fun r => (lpath_text (fst r), Ls [St (lpath_text (fst r)); St (fst (snd r)); St (snd (snd r));
                                       match lt_get (fst r) lt with Some x => s_loc (le_loc x) | None => At "nil" end]))
                  (refs_of C14_LFUEL [] s) in
  Ls [At "st"; Ls (map snd (fold_right ins_path [] rows));
      At (if validate_refs C14_LFUEL lt [] s then "ok" else "err")].

(* the states after each application; None = an application panicked (the list ends with `panic`) *)
Fixpoint run_order (e : env) (s : schema) (order : list string) (lt : ltab) : list sexp * option ltab :=
  match order with
  | [] => ([], Some lt)
  | ns :: t =>
      match alookup ns (e_ext e) with
      | None => ([bad "namespace"], None)
      | Some tab =>
          match link_ext C14_LFUEL ns tab s lt with
          | Ok lt' => let '(rest, fin) := run_order e s t lt' in (s_state s lt' :: rest, fin)
          | Panic _ => ([At "panic"], None)
          | _ => ([At "diverged"], None)
          end
      end
  end.

(* outcomes without error paths *)
Definition s_out14 {A} (enc : A -> sexp) (o : outcome A) : sexp :=
  match o with
  | Ok a => Ls [At "ok"; enc a]
  | Err x => Ls [At "err"; sb (e_constraint x)]
  | Panic _ => At "panic"
  | OutOfFuel => At "diverged"
  end.

Definition run_op14 (e : env) (s : schema) (op : sexp) : sexp :=
  match op with
  | Ls [At k; vx] =>
      match gval_of DEPTH vx with
      | Some v =>
          if String.eqb k "u" then s_out14 s_val (m_unser C14_FUEL e s v)
          else if String.eqb k "rt" then
            let u := m_unser C14_FUEL e s v in
            match u with
            | Ok n => Ls [At "rt"; s_out14 s_val u; s_out14 s_unit (m_validate C14_FUEL e s n);
                          s_out14 s_val (m_serialize C14_FUEL e s n)]
            | _ => Ls [At "rt"; s_out14 s_val u]
            end
          else if String.eqb k "vs" then
            (* Validate and Serialize of a native value, e.g. one carrying the field of a disabled property *)
            Ls [At "vs"; s_out14 s_unit (m_validate C14_FUEL e s v); s_out14 s_val (m_serialize C14_FUEL e s v)]
          else bad "op"
      | None => bad "value"
      end
  | _ => bad "op shape"
  end.

(* order-so: the namespaces are applied through a StepOutputSchema wrapping the scope.
   StepOutputSchema.ApplyNamespace / ValidateReferences (step_output.go) hand their arguments to the
   wrapped scope unchanged, so the model of the wrapper is the model of the scope. *)
Definition strs_of_order (x : sexp) : option (list string) :=
  match x with
  | Ls (At k :: l) => if String.eqb k "order" || String.eqb k "order-so" || String.eqb k "order-rb" then opt_mapM str_of l else None
  | _ => None
  end.
Definition order_rebuilt (x : sexp) : bool :=
  match x with Ls (At k :: _) => String.eqb k "order-rb" | _ => false end.
(* the first linking of a tree: construction through NewScopeSchema, or UnserializeScope's ApplySelf *)
Definition link_first (rb : bool) (s : schema) : outcome ltab :=
  if rb then link_rebuilt C14_LFUEL s else link_build C14_LFUEL [] s [].

Definition run_c14_case (x : sexp) : sexp :=
  match x with
  | Ls [At "c14"; ex; sx; ox; ix; Ls (At "ops" :: ops)] =>
      match env_of ex, schema_of DEPTH sx, strs_of_order ox, schema_of DEPTH ix with
      | Some e, Some s, Some order, Some si =>
          (* the boolean side conditions of the C14 theorems hold for every generated case *)
          if negb (luniq s && luniq si && refs_to_objects e s && refs_to_objects e si && ns_names_ok (e_ext e))
          then bad "c14 side condition" else
          match link_first (order_rebuilt ox) s, link_build C14_LFUEL [] s [] with
          | Ok lt0, Ok ltb =>
              let '(states, fin) := run_order e s order lt0 in
              let '(rstates, rfin) := run_order e s (rev order) ltb in
              let revx := match rfin with
                          | Some ltr => Ls [At "rev"; s_state s ltr]
                          | None => Ls [At "rev"; At "panic"]
                          end in
              match fin with
              | Some _ =>
                  let inlr :=
                    match link_first (order_rebuilt ox) si with
                    | Ok li0 => match snd (run_order e si order li0) with
                                | Some _ => Ls (At "inl" :: map (run_op14 e si) ops)
                                | None => Ls [At "inl"; At "panic"]
                                end
                    | _ => Ls [At "inl"; At "build-panic"]
                    end in
                  Ls (At "r" :: s_state s lt0 :: states ++ [revx; Ls (At "ops" :: map (run_op14 e s) ops); inlr])
              | None => Ls (At "r" :: s_state s lt0 :: states ++ [revx; Ls [At "ops"]; Ls [At "inl"]])
              end
          | Panic _, _ | _, Panic _ => Ls [At "r"; At "build-panic"]
          | _, _ => Ls [At "r"; At "diverged"]
          end
      | _, _, _, _ => bad "c14 case"
      end
  | _ => bad "c14 case shape"
  end.
