(* Interp/RunATPClient.v — ATP client cases: decode a session, let the model (ATP/Client.v) choose one maximal
   schedule (from a list of random choices) or enumerate all of them up to a count, and print for each schedule
   the steps the driver has to force (role, action, argument, gate kinds) and the predicted final observation.

   payload ::= (SESSION MODE)
   SESSION ::= (session (frag N) (wfail N|-1) (close 0|1) (calls (call "RUN" LANE SIGTO CLOSECH SIGFROM) ...)
                        (peer any (pm "RUN" KIND) ...) [(fault N KIND)])
   KIND    ::= done | stepfatal | stepfatal_norun | svfatal | notice | signal | unknown | baddone
             | eof | readerr | garbage | partial
   MODE    ::= (choices N1 N2 ...) | (enum MAXCOUNT)
   result  ::= (scheds (sched (steps (st ROLE ACTION ARG (KIND ...)) ...) FINAL (flightok 0|1) (lostbuf IDX|-1)) ...)
               flightok: ATP.Client.flight_ok (a theorem for good sessions, C06_flight_ok; re-evaluated here) held in every state
               lostbuf:  index of the first step at which a read loop ended with a non-empty read-ahead buffer (-1: never)
   FINAL   ::= (final (traces (ROLE KIND ...) ...) (results ("RUN" ok|err|none N) ...) (close ok|err|panic|none)
                      (emitted N ...) (wire ITEM ...) (left (ROLE parked KIND)|(ROLE blocked) ...)) *)
From Verif Require Import Base.Prelude Base.Str ATP.Msg ATP.Client Interp.Sexp.
Open Scope string_scope.
Open Scope list_scope.

Definition pl := unit.
Definition ast := state pl.

Definition ac_event (r : string) (kind : string) : option (event pl) :=
  if String.eqb kind "done" then Some (EvMsg (WorkDone r "s" "ok" tt ""))
  else if String.eqb kind "stepfatal" then Some (EvMsg (ErrMsg r true false))
  else if String.eqb kind "stepfatal_norun" then Some (EvMsg (ErrMsg "" true false))
  else if String.eqb kind "svfatal" then Some (EvMsg (ErrMsg r true true))
  else if String.eqb kind "notice" then Some (EvMsg (ErrMsg r false false))
  else if String.eqb kind "signal" then Some (EvMsg (Signal r "sg" tt))
  else if String.eqb kind "unknown" then Some (EvMsg (Unknown 99 r))
  else if String.eqb kind "baddone" then Some (EvMsg (BadPayload 2 r))
  else if String.eqb kind "eof" then Some EvEOF
  else if String.eqb kind "readerr" then Some EvReadErr
  else if String.eqb kind "garbage" then Some EvGarbage
  else if String.eqb kind "partial" then Some EvPartialThenEOF
  else None.

Definition nat_of (x : sexp) : option nat :=
  z <-? z_of_atom x ;; if (z <? 0)%Z then None else Some (Z.to_nat z).

(* index of the previous call on the same lane *)
Fixpoint last_on_lane (lanes : list nat) (lane : nat) (i : nat) : option nat :=
  match lanes with
  | [] => None
  | l :: t => match last_on_lane t lane (S i) with
              | Some j => Some j
              | None => if Nat.eqb l lane then Some i else None
              end
  end.

Definition ac_call (prev : list nat) (x : sexp) : option (callspec pl * nat) :=
  match x with
  | Ls [At "call"; St run; lane; sigto; closech; sigfrom] =>
      ln <-? nat_of lane ;; st <-? z_of_atom sigto ;; cc <-? b_of_atom closech ;; sf <-? b_of_atom sigfrom ;;
      Some (mkCall run (last_on_lane prev ln 0) (if (st <? 0)%Z then None else Some (Z.to_nat st, cc)) sf tt, ln)
  | _ => None
  end.

Fixpoint ac_calls (prev : list nat) (xs : list sexp) : option (list (callspec pl)) :=
  match xs with
  | [] => Some []
  | x :: t => cl <-? ac_call prev x ;; rest <-? ac_calls (prev ++ [snd cl]) t ;; Some (fst cl :: rest)
  end.

Fixpoint plan_add (r : string) (e : event pl) (p : list (string * list (event pl))) : list (string * list (event pl)) :=
  match p with
  | [] => [(r, [e])]
  | (k, q) :: t => if String.eqb k r then (k, q ++ [e]) :: t else (k, q) :: plan_add r e t
  end.

Fixpoint ac_plan (xs : list sexp) (acc : list (string * list (event pl))) : option (list (string * list (event pl))) :=
  match xs with
  | [] => Some acc
  | Ls [At "pm"; St r; At k] :: t => e <-? ac_event r k ;; ac_plan t (plan_add r e acc)
  | _ => None
  end.

Fixpoint field (name : string) (xs : list sexp) : option (list sexp) :=
  match xs with
  | [] => None
  | Ls (At n :: args) :: t => if String.eqb n name then Some args else field name t
  | _ :: t => field name t
  end.

Definition ac_session (x : sexp) : option (session pl) :=
  match x with
  | Ls (At "session" :: fs) =>
      wf <-? field "wfail" fs ;; cl <-? field "close" fs ;; cs <-? field "calls" fs ;; pe <-? field "peer" fs ;;
      w <-? match wf with [a] => z_of_atom a | _ => None end ;;
      c <-? match cl with [a] => b_of_atom a | _ => None end ;;
      calls <-? ac_calls [] cs ;;
      plan <-? match pe with _ :: pms => ac_plan pms [] | [] => None end ;;
      fault <-? match field "fault" fs with
                | None => Some None
                | Some [n; At k] => n' <-? nat_of n ;; e <-? ac_event "" k ;; Some (Some (n', e))
                | Some _ => None
                end ;;
      Some (mkSession calls c plan fault (if (w <? 0)%Z then None else Some (Z.to_nat w)))
  | _ => None
  end.

(* ---- enabled labels ---- *)
Fixpoint iota (n : nat) : list nat := match n with O => [] | S k => iota k ++ [k] end.

Definition candidates (s : ast) : list label :=
  map LCaller (iota (List.length (callers s))) ++ map LSig (iota (List.length (callers s))) ++
  [LLoop 0; LLoop 1; LLoop 2; LCloser; LPeerAccept] ++ map (fun p => LPeerSend (fst p)) (p_plan s).

Definition is_some {A} (o : option A) : bool := match o with Some _ => true | None => false end.

Definition enabled (s : ast) : list label :=
  match filter (fun l => is_some (step s l)) (candidates s) with
  | [] => if is_some (step s LTimeout) then [LTimeout] else []
  | l => l
  end.

(* ---- printing ---- *)
Definition nat_str (n : nat) : string := z_to_dec (Z.of_nat n).

Definition s_op (o : opkind) : sexp :=
  match o with
  | OLock => At "Lock" | OUnlock => At "Unlock" | OWait => At "Wait" | OWoke => At "Woke" | OSignal => At "Signal"
  | OWgAdd => At "WgAdd" | OWgDone => At "WgDone" | OWgWait => At "WgWait" | OEncode => At "Encode"
  | ODecode => At "Decode" | OSpawn => At "Spawn" | OChanSend => At "ChanSend" | OChanClose => At "ChanClose"
  | OSelect => At "Select" | OCancel => At "Cancel"
  | OFan a b => At ("Fan:" ++ nat_str a ++ ":" ++ nat_str b)%string
  end.

Definition role_of (s : ast) (l : label) : string :=
  match l with
  | LCaller i => ("caller" ++ nat_str i)%string
  | LSig i => ("sig" ++ nat_str i)%string
  | LLoop _ => ("loop" ++ nat_str (nloops s))%string
  | LCloser => match closer s with KFailWait => "waiter" | _ => "closer" end
  | LTimeout => "closer"
  | LPeerAccept | LPeerSend _ => "peer"
  end.

(* action name and argument *)
Definition action_of (s : ast) (l : label) : string * sexp :=
  match l with
  | LCaller i =>
      (match nth_error (callers s) i with
       | Some c => match c_pc c with CStart => "start" | CSend => "send" | CWait => "wait" | CWaiting => "take" | CDone _ => "none" end
       | None => "none"
       end, At "0")
  | LSig i =>
      (match nth_error (callers s) i with
       | Some c => match c_spc c with
                   | SCheck => "check"
                   | SSelect => if cancelled s then "sigctx" else match c_sleft c with S _ => "sigforward" | O => "sigclosed" end
                   | _ => "none"
                   end
       | None => "none"
       end, At "0")
  | LLoop k =>
      match cur s with
      | Some lo =>
          match l_pc lo with
          | LDecode => ("decode", match l_buf lo with [] => At (nat_str (S k)) | _ => At "0" end)
          | LHandle _ => ("handle", At "0")
          | LFatal => ("fatal", At "0")
          | LCheck => ("check", At "0")
          | LExited => ("none", At "0")
          end
      | None => ("none", At "0")
      end
  | LCloser =>
      (match closer s with KCancel => "cancel" | KMark => "mark" | KSend => "send" | KWait => "wait" | KFailWait => "failwait" | _ => "none" end, At "0")
  | LTimeout => ("timeout", At "0")
  | LPeerAccept => ("accept", At "0")
  | LPeerSend r => ("send", St r)
  end.

Definition step_ops (s : ast) (l : label) : list opkind :=
  match l, closer s with
  | LCloser, KFailWait => [OWgWait]      (* performed by the waiter goroutine of waitWithTimeout *)
  | _, _ => ops s l
  end.

Definition s_step (s : ast) (l : label) : sexp :=
  let '(a, arg) := action_of s l in
  Ls [At "st"; At (role_of s l); At a; arg; Ls (map s_op (step_ops s l))].

Definition wire_item (s : ast) (l : label) : list sexp :=
  match l, to_server s with
  | LPeerAccept, m :: _ =>
      [At (match m with
           | WorkStart r _ _ => ("workstart:" ++ r)%string
           | Signal r _ _ => ("signal:" ++ r)%string
           | ClientDone => "clientdone:"
           | _ => "other"
           end)]
  | _, _ => []
  end.

(* per-role traces, in the order: callers, closer, loops, sigs, waiter (= alphabetical) *)
Fixpoint trace_add (role : string) (ks : list sexp) (t : list (string * list sexp)) : list (string * list sexp) :=
  match t with
  | [] => [(role, ks)]
  | (r, l) :: rest => if String.eqb r role then (r, l ++ ks) :: rest else (r, l) :: trace_add role ks rest
  end.

Definition role_rank (r : string) : Z :=
  match chars r with
  | c :: d :: _ =>
      if Ascii.eqb c "c" then (if Ascii.eqb d "a" then 0 else 1)
      else if Ascii.eqb c "l" then 2 else if Ascii.eqb c "s" then 3 else if Ascii.eqb c "w" then 4 else 5
  | _ => 6
  end.

Definition role_num (r : string) : Z :=
  digits_val (filter is_digit (chars r)).

Definition role_le (a b : string) : bool :=
  let ra := role_rank a in let rb := role_rank b in
  if (ra <? rb)%Z then true else if (rb <? ra)%Z then false else (role_num a <=? role_num b)%Z.

Fixpoint insert_role (x : string * list sexp) (l : list (string * list sexp)) :=
  match l with
  | [] => [x]
  | y :: t => if role_le (fst x) (fst y) then x :: y :: t else y :: insert_role x t
  end.
Definition sort_roles (l : list (string * list sexp)) := fold_right insert_role [] l.

Definition s_result (c : caller pl) : sexp :=
  match c_pc c with
  | CDone (ROk _ _) => Ls [St (c_run c); At "ok"; At "1"]
  | CDone (RErr _) => Ls [St (c_run c); At "err"; At "1"]
  | _ => Ls [St (c_run c); At "none"; At "0"]
  end.

Fixpoint left_callers (s : ast) (cs : list (caller pl)) (i : nat) : list (string * list sexp) :=
  match cs with
  | [] => []
  | c :: t =>
      (match c_pc c with
       | CDone _ => []
       | CStart => if pred_done s c then [(("caller" ++ nat_str i)%string, [At "parked"; At (if c_hassig c then "WgAdd" else "Lock")])] else []
       | CSend | CWait => [(("caller" ++ nat_str i)%string, [At "parked"; At "Lock"])]
       | CWaiting => match alookup (c_run c) (entries s) with
                     | Some (Some _) => [(("caller" ++ nat_str i)%string, [At "parked"; At "Woke"])]
                     | _ => [(("caller" ++ nat_str i)%string, [At "blocked"])]
                     end
       end) ++
      (match c_spc c with
       | SCheck => [(("sig" ++ nat_str i)%string, [At "parked"; At "Lock"])]
       | SSelect => [(("sig" ++ nat_str i)%string, [At "parked"; At "Select"])]
       | _ => []
       end) ++ left_callers s t (S i)
  end.

Definition left_of (s : ast) (waiter_parked : bool) : list (string * list sexp) :=
  left_callers s (callers s) 0 ++
  (match cur s with
   | Some lo => match l_pc lo with
                | LExited => []
                | LDecode => [(("loop" ++ nat_str (nloops s))%string, [At "parked"; At "Decode"])]
                | _ => [(("loop" ++ nat_str (nloops s))%string, [At "parked"; At "Lock"])]
                end
   | None => []
   end) ++
  (match closer s with
   | KCancel => [("closer", [At "parked"; At "Cancel"])]
   | KMark | KSend => [("closer", [At "parked"; At "Lock"])]
   | KWait => [("closer", [At "parked"; At "WgWait"])]
   | KFailWait => [("closer", [At "blocked"])]
   | _ => []
   end) ++ (if waiter_parked then [("waiter", [At "parked"; At "WgWait"])] else []).

Definition s_final (s : ast) (traces : list (string * list sexp)) (wire : list sexp) (waiter_parked : bool) : sexp :=
  Ls [At "final";
      Ls (At "traces" :: map (fun p => Ls (At (fst p) :: snd p)) (sort_roles (filter (fun p => negb (Nat.eqb (List.length (snd p)) 0)) traces)));
      Ls (At "results" :: map s_result (callers s));
      Ls [At "close"; At (match closer s with KDone CloseOk => "ok" | KDone CloseErr => "err" | KDone ClosePanic => "panic" | _ => "none" end)];
      Ls (At "emitted" :: map (fun c => At (nat_str (c_emitted c))) (callers s));
      Ls (At "wire" :: wire);
      Ls (At "left" :: map (fun p => Ls (At (fst p) :: snd p)) (sort_roles (left_of s waiter_parked)))].

(* the bookkeeping carried along a schedule *)
Record acc := mkAcc { a_steps : list sexp; a_traces : list (string * list sexp); a_wire : list sexp; a_waiter : bool;
                      a_ok : bool;     (* flight_ok held in every state visited so far *)
                      a_lost : option nat }.   (* index of the first step at which a read loop ended with a non-empty read-ahead buffer *)

(* The read loop ends (exit check, fatal exit, server-fatal message) while its decoder still holds read-ahead.  The model
   drops whole ITEMS; the real decoder, on a fragmenting transport, holds a BYTE prefix of the next item (or nothing), so
   from here on the two may differ (the next loop meets a corrupt stream / the stale item).  Never the case for a healthy
   peer (nothing is in flight when no entry is pending); the flag delimits exactly the schedules for which the replay
   of a fragmenting session checks the property's predicate instead of equality with the model. *)
Definition loses_readahead (s : ast) (l : label) : bool :=
  match l, cur s with
  | LLoop _, Some lo =>
      match l_buf lo with
      | [] => false
      | _ :: _ => match step s l with
                  | Some s' => loop_live (cur s) && negb (loop_live (cur s'))
                  | None => false
                  end
      end
  | _, _ => false
  end.

Definition acc_step (s : ast) (l : label) (a : acc) : acc :=
  let spawned_waiter := match l, closer s with LCloser, KSend => negb (is_some (cwrite s (@ClientDone pl))) | _, _ => false end in
  let waiter_gone := match l, closer s with LCloser, KFailWait => true | _, _ => false end in
  mkAcc (a_steps a ++ [s_step s l])
        (match l with
         | LPeerAccept | LPeerSend _ | LTimeout => a_traces a
         | _ => trace_add (role_of s l) (map s_op (step_ops s l)) (a_traces a)
         end)
        (a_wire a ++ wire_item s l)
        ((a_waiter a || spawned_waiter) && negb waiter_gone)
        (a_ok a && flight_ok s)
        (match a_lost a with
         | Some i => Some i
         | None => if loses_readahead s l then Some (List.length (a_steps a)) else None
         end).

Definition s_sched (s : ast) (a : acc) (complete : bool) : sexp :=
  Ls [At (if complete then "sched" else "sched-incomplete"); Ls (At "steps" :: a_steps a); s_final s (a_traces a) (a_wire a) (a_waiter a);
      Ls [At "flightok"; sb (a_ok a && flight_ok s)];
      Ls [At "lostbuf"; At (match a_lost a with Some i => nat_str i | None => "-1" end)]].

Fixpoint sample (fuel : nat) (s : ast) (choices : list Z) (a : acc) : sexp :=
  match fuel with
  | O => s_sched s a false
  | S f =>
      match enabled s with
      | [] => s_sched s a true
      | en =>
          let c := match choices with c :: _ => c | [] => 0 end in
          let l := nth (Z.to_nat (c mod Z.of_nat (List.length en))) en LCloser in
          match step s l with
          | Some s' => sample f s' (tl choices) (acc_step s l a)
          | None => s_sched s a false
          end
      end
  end.

(* all maximal schedules, depth first, at most `budget` of them *)
Fixpoint enum (fuel : nat) (s : ast) (a : acc) (budget : nat) (out : list sexp) : list sexp * nat :=
  match fuel with
  | O => (out, budget)
  | S f =>
      match budget with
      | O => (out, O)
      | _ =>
        match enabled s with
        | [] => (out ++ [s_sched s a true], pred budget)
        | en =>
            fold_left (fun (st : list sexp * nat) (l : label) =>
                         match step s l with
                         | Some s' => enum f s' (acc_step s l a) (snd st) (fst st)
                         | None => st
                         end) en (out, budget)
        end
      end
  end.

Definition acc0 := mkAcc [] [] [] false true None.

Definition run_atpclient_case (x : sexp) : sexp :=
  match x with
  | Ls [sx; mode] =>
      match ac_session sx with
      | None => bad "atpclient: cannot decode the session"
      | Some se =>
          let s0 := init se in
          match mode with
          | Ls (At "choices" :: cs) =>
              match opt_mapM z_of_atom cs with
              | Some zs => Ls [At "scheds"; sample 2000 s0 zs acc0]
              | None => bad "atpclient: bad choices"
              end
          | Ls [At "enum"; n] =>
              match nat_of n with
              | Some k => Ls (At "scheds" :: fst (enum 400 s0 acc0 k []))
              | None => bad "atpclient: bad enum bound"
              end
          | _ => bad "atpclient: unknown mode"
          end
      end
  | _ => bad "atpclient: malformed case"
  end.
