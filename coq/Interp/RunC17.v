(* Interp/RunC17.v — single-fault cases of C17:
     (c17 ENV SCHEMA (ops OP...) (expect E...))     OP ::= (u V) | (v V)
   The expectations (what the property demands of each operation) are for the direct check on
   the implementation (lib/props_c17.py); the model evaluates the operations exactly as in the
   schema family, so its predictions carry the full error paths (markers included).
     (c17x ENV STRUCTS XSCHEMA (ops OP...) (expect E...))
   the same for struct-mapped objects: evaluated exactly as in the structobj family (Schema/XOps.v). *)
From Verif Require Import Base.Prelude Base.Str Interp.Sexp Interp.RunSchema Interp.RunXSchema.
Open Scope string_scope.

Definition run_c17_case (x : sexp) : sexp :=
  match x with
  | Ls [At "c17"; ex; sx; ops; _] => run_schema_case (Ls [At "sch"; ex; sx; ops])
  | _ => bad "c17 case"
  end.

Definition run_c17x_case (x : sexp) : sexp :=
  match x with
  | Ls [At "c17x"; ex; stx; sx; ops; _] => run_xschema_case (Ls [At "xsch"; ex; stx; sx; ops])
  | _ => bad "c17x case"
  end.
