(* Interp/RunFunction.v -- C18 cases: decode, run the function model, encode the observation.

   TY    ::= bool | i64 | f64 | str | any | err | (sl TY) | (m TY TY) | (st "NAME" 0|1)
   SIG   ::= (sig (TY ...) (TY ...) 0|1)        ; parameter types, result types, variadic
   DECL  ::= (decl (TY ...) TY|none 0|1)        ; reflected input types, output, outputsError
                                                ; (output and flag are ignored for `dynamic`)
   ARG   ::= nil | (a TY K)                     ; the value made from token K at dynamic type TY
   BEH   ::= (beh K 0|1|2|3)                    ; the handler returns the value made from K at its
                                                ; first result type, and: 0 a nil error, 1 a plain
                                                ; error carrying K, 2 / 3 an error value that itself is
                                                ; a *FunctionCallError (IsFunctionReportedError false /
                                                ; true) around the plain error carrying K
               reported errors of kind 2 / 3 print as (r err reported fce0|fce1 K (got ...))
   case  ::= (accept static|dynamic SIG DECL)                    -> (r accept) | (r reject)
           | (call static|dynamic SIG DECL (args ARG ...) BEH)   -> (r reject) | (r ok none)
               | (r ok VALUE (got VALUE ...)) | (r err reported K (got VALUE ...))
               | (r err shape) | (r panic)
   VALUE ::= nil | (b 0|1) | (i K) | (f K) | (s "K") | (sl VALUE VALUE) | (m (VALUE VALUE)) | (st "NAME")
   `got` is what the handler received, argument by argument. *)
From Verif Require Import Base.Prelude Base.Str Call.Function Interp.Sexp.
Open Scope string_scope.

Fixpoint gty_of (x : sexp) : option gty :=
  match x with
  | At a =>
      if String.eqb a "bool" then Some GBool
      else if String.eqb a "i64" then Some GInt64
      else if String.eqb a "f64" then Some GFloat64
      else if String.eqb a "str" then Some GString
      else if String.eqb a "any" then Some GAny
      else if String.eqb a "err" then Some GErr
      else None
  | Ls [h; t] =>
      if atom_eq h "sl" then match gty_of t with Some t' => Some (GSlice t') | None => None end
      else None
  | Ls [h; a; b] =>
      if atom_eq h "m" then
        match gty_of a, gty_of b with Some k, Some v => Some (GMap k v) | _, _ => None end
      else if atom_eq h "st" then
        match a, b_of_atom b with St n, Some e => Some (GStruct n e) | _, _ => None end
      else None
  | _ => None
  end.

Definition gtys_of (x : sexp) : option (list gty) :=
  match x with Ls l => opt_mapM gty_of l | _ => None end.

Definition sig_of (x : sexp) : option hsig :=
  match x with
  | Ls [h; i; o; v] =>
      if atom_eq h "sig" then
        ins <-? gtys_of i ;; outs <-? gtys_of o ;; va <-? b_of_atom v ;; Some (mkSig ins outs va)
      else None
  | _ => None
  end.

Definition decl_of (x : sexp) : option decl :=
  match x with
  | Ls [h; i; o; e] =>
      if atom_eq h "decl" then
        ins <-? gtys_of i ;; out <-? opt_of gty_of o ;; er <-? b_of_atom e ;; Some (mkDecl ins out er)
      else None
  | _ => None
  end.

(* the canonical rendering of the value made from token k at type t (the harness's mk + show) *)
Fixpoint mkval (t : gty) (k : Z) : sexp :=
  match t with
  | GBool => Ls [At "b"; sb (Z.odd k)]
  | GInt64 | GAny | GErr => Ls [At "i"; sz k]
  | GFloat64 => Ls [At "f"; sz k]
  | GString => Ls [At "s"; St (z_to_dec k)]
  | GSlice e => Ls [At "sl"; mkval e k; mkval e (k + 1)]
  | GMap a b => Ls [At "m"; Ls [mkval a k; mkval b k]]
  | GStruct n _ => Ls [At "st"; St n]
  end.

(* the dynamic type of a non-nil argument is never an interface type *)
Definition arg_of (x : sexp) : option (arg sexp) :=
  match x with
  | At a => if String.eqb a "nil" then Some ANil else None
  | Ls [h; t; k] =>
      if atom_eq h "a" then
        ty <-? gty_of t ;; kz <-? z_of_atom k ;;
        if is_interface ty then None else Some (AVal ty (mkval ty kz))
      else None
  | _ => None
  end.

Definition render_arg (a : arg sexp) : sexp :=
  match a with ANil => At "nil" | AVal _ v => v end.

(* the handler of a case: returns the value made from k at its first result type together with
   what it received, and (when e) a non-nil error carrying k and what it received *)
(* the kinds of error value a handler returns (BEH's second field): the model's `call` treats the
   handler's error as an abstract value of type E, so WHAT the value is — a plain error, or a value
   that itself is a *FunctionCallError carrying IsFunctionReportedError = false / true — cannot
   influence how the result is attributed (C18_call_faithful, C18_handler_error_is_reported). *)
Inductive herr_kind := HNil | HPlain | HFce (reported : bool).

Definition herr_kind_of (x : sexp) : option herr_kind :=
  match z_of_atom x with
  | Some 0%Z => Some HNil
  | Some 1%Z => Some HPlain
  | Some 2%Z => Some (HFce false)
  | Some 3%Z => Some (HFce true)
  | _ => None
  end.

Definition case_handler (s : hsig) (k : Z) (e : herr_kind) (args : list (arg sexp)) : hres sexp sexp :=
  let got := Ls (At "got" :: map render_arg args) in
  mkHres (Ls [mkval (hd GAny (s_outs s)) k; got])
         (match e with
          | HNil => None
          | HPlain => Some (Ls [sz k; got])
          | HFce r => Some (Ls [At (if r then "fce1" else "fce0"); sz k; got])
          end).

Definition items (x : sexp) : list sexp := match x with Ls l => l | y => [y] end.

Definition s_call_res (r : call_res sexp sexp) : sexp :=
  match r with
  | COk None => Ls [At "r"; At "ok"; At "none"]
  | COk (Some v) => Ls (At "r" :: At "ok" :: items v)
  | CErr (Reported e) => Ls (At "r" :: At "err" :: At "reported" :: items e)
  | CErr Shape => Ls [At "r"; At "err"; At "shape"]
  | CPanic _ => Ls [At "r"; At "panic"]
  end.

Definition construct (mode : sexp) (s : hsig) (d : decl) : option (option fn) :=
  if atom_eq mode "static" then Some (new_callable d s)
  else if atom_eq mode "dynamic" then Some (new_dynamic (d_ins d) s)
  else None.

Definition run_function_case (x : sexp) : sexp :=
  match x with
  | Ls [h; mode; sg; dc] =>
      if atom_eq h "accept" then
        match sig_of sg, decl_of dc with
        | Some s, Some d =>
            match construct mode s d with
            | Some (Some _) => Ls [At "r"; At "accept"]
            | Some None => Ls [At "r"; At "reject"]
            | None => bad "mode"
            end
        | _, _ => bad "accept"
        end
      else bad "function case"
  | Ls [h; mode; sg; dc; Ls (ah :: al); Ls [bh; bk; be]] =>
      if atom_eq h "call" && atom_eq ah "args" && atom_eq bh "beh" then
        match sig_of sg, decl_of dc, opt_mapM arg_of al, z_of_atom bk, herr_kind_of be with
        | Some s, Some d, Some args, Some k, Some e =>
            match construct mode s d with
            | Some (Some f) => s_call_res (call (case_handler s k e) f args)
            | Some None => Ls [At "r"; At "reject"]
            | None => bad "mode"
            end
        | _, _, _, _, _ => bad "call"
        end
      else bad "function case"
  | _ => bad "function case"
  end.
