(* Interp/Codec.v — s-expression <-> types, values, schemas, outcomes (DESIGN appendix A).
   Decoders recurse on explicit fuel (nesting depth of the text), encoders likewise. *)
From Verif Require Import Base.Prelude Base.Str Base.Float Base.GoVal
  Schema.Regex Schema.Units Schema.Syntax Interp.Sexp Interp.RunUnits.
Open Scope string_scope.
Open Scope Z_scope.

Definition DEPTH : nat := 400.

(* ---------- types ---------- *)
Definition ikind_of_atom (a : string) : option ikind :=
  if String.eqb a "i0" then Some I0 else if String.eqb a "i8" then Some I8
  else if String.eqb a "i16" then Some I16 else if String.eqb a "i32" then Some I32
  else if String.eqb a "i64" then Some I64 else if String.eqb a "u0" then Some U0
  else if String.eqb a "u8" then Some U8 else if String.eqb a "u16" then Some U16
  else if String.eqb a "u32" then Some U32 else if String.eqb a "u64" then Some U64 else None.
Definition atom_of_ikind (k : ikind) : string :=
  match k with I0 => "i0" | I8 => "i8" | I16 => "i16" | I32 => "i32" | I64 => "i64"
             | U0 => "u0" | U8 => "u8" | U16 => "u16" | U32 => "u32" | U64 => "u64" end.

Fixpoint gtype_of (fuel : nat) (x : sexp) : option gtype :=
  match fuel with
  | O => None
  | S f =>
    match x with
    | At a =>
        if String.eqb a "bool" then Some TBool else if String.eqb a "f32" then Some TF32
        else if String.eqb a "f64" then Some TF64 else if String.eqb a "str" then Some TStr
        else if String.eqb a "any" then Some TAny else if String.eqb a "regexp" then Some TRegexp
        else option_map TInt (ikind_of_atom a)
    | Ls [At "named"; St n; u] => option_map (TNamed n) (gtype_of f u)
    | Ls [At "slice"; e] => option_map TSlice (gtype_of f e)
    | Ls [At "map"; k; v] => k' <-? gtype_of f k ;; v' <-? gtype_of f v ;; Some (TMap k' v')
    | Ls [At "ptr"; e] => option_map TPtr (gtype_of f e)
    | Ls [At "struct"; St n] => Some (TStruct n)
    | Ls [At "opaque"; St d] => Some (TOpaque d)
    | _ => None
    end
  end.

Fixpoint s_gtype (t : gtype) : sexp :=
  match t with
  | TBool => At "bool" | TInt k => At (atom_of_ikind k) | TF32 => At "f32" | TF64 => At "f64"
  | TStr => At "str" | TAny => At "any" | TRegexp => At "regexp"
  | TNamed n u => Ls [At "named"; St n; s_gtype u]
  | TSlice e => Ls [At "slice"; s_gtype e]
  | TMap k v => Ls [At "map"; s_gtype k; s_gtype v]
  | TPtr e => Ls [At "ptr"; s_gtype e]
  | TStruct n => Ls [At "struct"; St n]
  | TOpaque d => Ls [At "opaque"; St d]
  end.

(* ---------- floats ---------- *)
Definition fl_of (x : sexp) : option fl :=
  match x with
  | At a => if String.eqb a "nan" then Some FNaN
            else if String.eqb a "+inf" then Some (FInf false) else if String.eqb a "-inf" then Some (FInf true)
            else if String.eqb a "+0" then Some (FZero false) else if String.eqb a "-0" then Some (FZero true)
            else None
  | Ls [At sg; m; e] =>
      mz <-? z_of_atom m ;; ez <-? z_of_atom e ;;
      match mz with
      | Zpos p => if String.eqb sg "+" then Some (fnorm (FFin false p ez))
                  else if String.eqb sg "-" then Some (fnorm (FFin true p ez)) else None
      | _ => None
      end
  | _ => None
  end.
Definition s_fl (f : fl) : sexp :=
  match fnorm f with
  | FNaN => At "nan"
  | FInf s => At (if s then "-inf" else "+inf")
  | FZero s => At (if s then "-0" else "+0")
  | FFin s m e => Ls [At (if s then "-" else "+"); sz (Zpos m); sz e]
  end.

(* ---------- values ---------- *)
Definition okind_of_atom (a : string) : option okind :=
  if String.eqb a "struct" then Some OStruct else if String.eqb a "ptr" then Some OPtr
  else if String.eqb a "chan" then Some OChan else if String.eqb a "func" then Some OFunc
  else if String.eqb a "array" then Some OArray else if String.eqb a "complex" then Some OComplex
  else if String.eqb a "uintptr" then Some OUintptr else if String.eqb a "unsafeptr" then Some OUnsafePtr else None.
Definition atom_of_okind (k : okind) : string :=
  match k with OStruct => "struct" | OPtr => "ptr" | OChan => "chan" | OFunc => "func" | OArray => "array"
             | OComplex => "complex" | OUintptr => "uintptr" | OUnsafePtr => "unsafeptr" end.

Fixpoint gval_of (fuel : nat) (x : sexp) : option gval :=
  match fuel with
  | O => None
  | S f =>
    match x with
    | At a => if String.eqb a "nil" then Some VNil else None
    | Ls [At "b"; t; b] => t' <-? gtype_of DEPTH t ;; b' <-? b_of_atom b ;; Some (VBool t' b')
    | Ls [At "i"; t; n] => t' <-? gtype_of DEPTH t ;; z <-? z_of_atom n ;; Some (VInt t' z)
    | Ls [At "f"; t; fx] => t' <-? gtype_of DEPTH t ;; fv <-? fl_of fx ;; Some (VFloat t' fv)
    | Ls [At "s"; t; St s] => t' <-? gtype_of DEPTH t ;; Some (VStr t' s)
    | Ls (At "sl" :: t :: isnil :: items) =>
        t' <-? gtype_of DEPTH t ;; n <-? b_of_atom isnil ;; l <-? opt_mapM (gval_of f) items ;; Some (VSlice t' n l)
    | Ls (At "m" :: t :: isnil :: items) =>
        t' <-? gtype_of DEPTH t ;; n <-? b_of_atom isnil ;;
        l <-? opt_mapM (fun it => match it with
                                  | Ls [k; v] => k' <-? gval_of f k ;; v' <-? gval_of f v ;; Some (k', v')
                                  | _ => None end) items ;;
        Some (VMap t' n l)
    | Ls [At "p"; t; At "nil"] => t' <-? gtype_of DEPTH t ;; Some (VPtr t' None)
    | Ls [At "p"; t; v] => t' <-? gtype_of DEPTH t ;; v' <-? gval_of f v ;; Some (VPtr t' (Some v'))
    | Ls (At "st" :: t :: fields) =>
        t' <-? gtype_of DEPTH t ;;
        l <-? opt_mapM (fun it => match it with
                                  | Ls [St n; v] => v' <-? gval_of f v ;; Some (n, v')
                                  | _ => None end) fields ;;
        Some (VStruct t' l)
    | Ls [At "re"; St s] => Some (VRegexp s)
    | Ls [At "op"; At k; St d] => k' <-? okind_of_atom k ;; Some (VOpaque k' d)
    | _ => None
    end
  end.

(* canonical order of map entries for printing: ints < strings < bools < floats < rest *)
Definition key_rank (v : gval) : Z :=
  match v with VInt _ _ => 0 | VStr _ _ => 1 | VBool _ _ => 2 | VFloat _ _ => 3 | _ => 4 end.
Definition key_ltb (a b : gval) : bool :=
  if key_rank a <? key_rank b then true
  else if key_rank b <? key_rank a then false
  else match a, b with
       | VInt _ x, VInt _ y => x <? y
       | VStr _ x, VStr _ y => str_ltb x y
       | VBool _ x, VBool _ y => negb x && y
       | VFloat _ x, VFloat _ y => flt x y
       | _, _ => false
       end.
Fixpoint ins_entry (x : gval * sexp) (l : list (gval * sexp)) : list (gval * sexp) :=
  match l with
  | [] => [x]
  | y :: t => if key_ltb (fst x) (fst y) then x :: l else y :: ins_entry x t
  end.

Fixpoint s_gval (fuel : nat) (v : gval) : sexp :=
  match fuel with
  | O => At "deep"
  | S f =>
    match v with
    | VNil => At "nil"
    | VBool t b => Ls [At "b"; s_gtype t; sb b]
    | VInt t z => Ls [At "i"; s_gtype t; sz z]
    | VFloat t x => Ls [At "f"; s_gtype t; s_fl x]
    | VStr t s => Ls [At "s"; s_gtype t; St s]
    | VSlice t n l => Ls (At "sl" :: s_gtype t :: sb n :: map (s_gval f) l)
    | VMap t n l =>
        let entries := fold_right ins_entry [] (map (fun kv => (fst kv, Ls [s_gval f (fst kv); s_gval f (snd kv)])) l) in
        Ls (At "m" :: s_gtype t :: sb n :: map snd entries)
    | VPtr t None => Ls [At "p"; s_gtype t; At "nil"]
    | VPtr t (Some x) => Ls [At "p"; s_gtype t; s_gval f x]
    | VStruct t fs => Ls (At "st" :: s_gtype t :: map (fun nv => Ls [St (fst nv); s_gval f (snd nv)]) fs)
    | VRegexp s => Ls [At "re"; St s]
    | VOpaque k d => Ls [At "op"; At (atom_of_okind k); St d]
    end
  end.

(* ---------- regular expressions ---------- *)
Fixpoint re_of (fuel : nat) (x : sexp) : option re :=
  match fuel with
  | O => None
  | S f =>
    match x with
    | At a => if String.eqb a "eps" then Some Eps else if String.eqb a "any" then Some AnyC
              else if String.eqb a "bol" then Some Bol else if String.eqb a "eol" then Some Eol else None
    | Ls [At "chr"; n] => z <-? z_of_atom n ;; Some (Chr (chrz z))
    | Ls [At "cls"; neg; Ls rs] =>
        ng <-? b_of_atom neg ;;
        l <-? opt_mapM (fun r => match r with
                                 | Ls [lo; hi] => a <-? z_of_atom lo ;; b <-? z_of_atom hi ;; Some (chrz a, chrz b)
                                 | _ => None end) rs ;;
        Some (Cls ng l)
    | Ls [At "cat"; a; b] => a' <-? re_of f a ;; b' <-? re_of f b ;; Some (Cat a' b')
    | Ls [At "alt"; a; b] => a' <-? re_of f a ;; b' <-? re_of f b ;; Some (Alt a' b')
    | Ls [At "star"; a] => option_map Star (re_of f a)
    | Ls [At "grp"; n; a] => z <-? z_of_atom n ;; a' <-? re_of f a ;; Some (Grp z a')
    | _ => None
    end
  end.

(* ---------- schemas ---------- *)
Definition ostr_of (x : sexp) : option (option string) := opt_of str_of x.
Definition oz_of (x : sexp) : option (option Z) := opt_of z_of_atom x.
Definition ofl_of (x : sexp) : option (option fl) := opt_of fl_of x.
Definition ounits_of (x : sexp) : option (option units) := opt_of units_of x.
Definition strs_of (x : sexp) : option (list string) :=
  match x with Ls l => opt_mapM str_of l | _ => None end.

Definition display_of (x : sexp) : option display :=
  match x with
  | Ls [At "disp"; n; d; i] => n' <-? ostr_of n ;; d' <-? ostr_of d ;; i' <-? ostr_of i ;; Some (mkDisplay n' d' i')
  | _ => None
  end.
Definition odisplay_of (x : sexp) : option (option display) := opt_of display_of x.

Fixpoint schema_of (fuel : nat) (x : sexp) : option schema :=
  match fuel with
  | O => None
  | S f =>
    match x with
    | At a => if String.eqb a "bool" then Some SBool else if String.eqb a "pattern" then Some SPattern
              else if String.eqb a "any" then Some SAny else None
    | Ls [At "int"; mn; mx; u] => a <-? oz_of mn ;; b <-? oz_of mx ;; c <-? ounits_of u ;; Some (SInt a b c)
    | Ls [At "float"; mn; mx; u] => a <-? ofl_of mn ;; b <-? ofl_of mx ;; c <-? ounits_of u ;; Some (SFloat a b c)
    | Ls [At "string"; mn; mx; p] =>
        a <-? oz_of mn ;; b <-? oz_of mx ;;
        c <-? opt_of (fun y => match y with
                               | Ls [At "pat"; St src; r] => r' <-? re_of DEPTH r ;; Some (src, r')
                               | _ => None end) p ;;
        Some (SString a b c)
    | Ls [At "enum_int"; Ls vals; u] =>
        l <-? opt_mapM (fun y => match y with
                                 | Ls [n; d] => z <-? z_of_atom n ;; d' <-? odisplay_of d ;; Some (z, d')
                                 | _ => None end) vals ;;
        c <-? ounits_of u ;; Some (SEnumInt l c)
    | Ls [At "enum_str"; nm; Ls vals] =>
        n <-? ostr_of nm ;;
        l <-? opt_mapM (fun y => match y with
                                 | Ls [St s; d] => d' <-? odisplay_of d ;; Some (s, d')
                                 | _ => None end) vals ;;
        Some (SEnumStr n l)
    | Ls [At "list"; it; mn; mx] => i <-? schema_of f it ;; a <-? oz_of mn ;; b <-? oz_of mx ;; Some (SList i a b)
    | Ls [At "map"; k; v; mn; mx] =>
        k' <-? schema_of f k ;; v' <-? schema_of f v ;; a <-? oz_of mn ;; b <-? oz_of mx ;; Some (SMap k' v' a b)
    | Ls [At "object"; St id; un; Ls props] =>
        u <-? b_of_atom un ;;
        ps <-? opt_mapM (fun y =>
                 match y with
                 | Ls [St name; Ls [At "prop"; t; d; req; rif; rifn; confl; dflt; ex; empty; dis; reason]] =>
                     t' <-? schema_of f t ;; d' <-? odisplay_of d ;; req' <-? b_of_atom req ;;
                     rif' <-? strs_of rif ;; rifn' <-? strs_of rifn ;; confl' <-? strs_of confl ;;
                     dflt' <-? ostr_of dflt ;; ex' <-? strs_of ex ;; empty' <-? b_of_atom empty ;;
                     dis' <-? b_of_atom dis ;; reason' <-? ostr_of reason ;;
                     Some (name, mkProp t' d' req' rif' rifn' confl' dflt' ex' empty' dis' reason')
                 | _ => None
                 end) props ;;
        Some (SObject id u ps)
    | Ls [At "oneof"; ik; Ls types; St field; inlx] =>
        ik' <-? b_of_atom ik ;; inl' <-? b_of_atom inlx ;;
        ts <-? opt_mapM (fun y => match y with
                                  | Ls [St k; m] => m' <-? schema_of f m ;; Some (KS k, m')
                                  | Ls [k; m] => z <-? z_of_atom k ;; m' <-? schema_of f m ;; Some (KI z, m')
                                  | _ => None end) types ;;
        Some (SOneOf ts ik' field inl')
    | Ls [At "ref"; St id; St ns; d] => d' <-? odisplay_of d ;; Some (SRef id ns d')
    | Ls [At "scope"; Ls objs; St root] =>
        os <-? opt_mapM (fun y => match y with
                                  | Ls [St id; o] => o' <-? schema_of f o ;; Some (id, o')
                                  | _ => None end) objs ;;
        Some (SScope os root)
    | _ => None
    end
  end.

(* ---------- environments and oracle tables ---------- *)
Definition objtab_of (x : sexp) : option objtab :=
  match x with
  | Ls objs => opt_mapM (fun y => match y with
                                  | Ls [St id; o] => o' <-? schema_of DEPTH o ;; Some (id, o')
                                  | _ => None end) objs
  | _ => None
  end.

(* (env (ext (("ns" OBJTAB) ...)) (json (("text" VALUE|fail) ...)) (reok (("s" 0|1) ...))) *)
Definition env_of (x : sexp) : option env :=
  match x with
  | Ls [At "env"; Ls [At "ext"; Ls exts]; Ls [At "json"; Ls js]; Ls [At "reok"; Ls rs]] =>
      ex <-? opt_mapM (fun y => match y with
                                | Ls [St ns; tab] => t <-? objtab_of tab ;; Some (ns, t)
                                | _ => None end) exts ;;
      jt <-? opt_mapM (fun y => match y with
                                | Ls [St txt; At "fail"] => Some (txt, None)
                                | Ls [St txt; v] => v' <-? gval_of DEPTH v ;; Some (txt, Some v')
                                | _ => None end) js ;;
      rt <-? opt_mapM (fun y => match y with
                                | Ls [St s; b] => b' <-? b_of_atom b ;; Some (s, b')
                                | _ => None end) rs ;;
      Some (mkEnv [] ex (mkOracles (fun txt => match alookup txt jt with Some r => r | None => None end)
                                   (fun s => match alookup s rt with Some b => b | None => false end)))
  | _ => None
  end.

(* ---------- outcomes ---------- *)
Definition s_err (e : err) : sexp :=
  Ls [At "err"; sb (e_constraint e); Ls (map St (e_path e))].
Definition s_outcome {A} (enc : A -> sexp) (o : outcome A) : sexp :=
  match o with
  | Ok a => Ls [At "ok"; enc a]
  | Err e => s_err e
  | Panic _ => At "panic"
  | OutOfFuel => At "diverged"
  end.
