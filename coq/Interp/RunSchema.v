(* Interp/RunSchema.v — schema-operation cases:
     (sch ENV SCHEMA (ops OP...))   OP ::= (u V) | (v V) | (s V) | (c V) | (rt V)
   observation: (r O...) *)
From Verif Require Import Base.Prelude Base.Str Base.Float Base.GoVal
  Schema.Regex Schema.Units Schema.Syntax Schema.Ops Schema.Cbor Schema.FloatUnits
  Generated.Tables Interp.Sexp Interp.RunUnits Interp.Codec.
Open Scope string_scope.
Open Scope Z_scope.

Definition FUEL : nat := 600.

Definition m_unser := unser bool_words parse_units_float.
Definition m_validate := validate bool_words parse_units_float.
Definition m_serialize := serialize bool_words parse_units_float.
Definition m_compat := compat bool_words parse_units_float.

Definition s_val (v : gval) : sexp := s_gval DEPTH v.
Definition s_unit (_ : unit) : sexp := At "-".

(* the round-trip chain of C01 on one raw input *)
Definition run_rt (e : env) (s : schema) (v : gval) : sexp :=
  let u1 := m_unser FUEL e s v in
  match u1 with
  | Ok n =>
      let va := m_validate FUEL e s n in
      let se := m_serialize FUEL e s n in
      match se with
      | Ok w =>
          let u2 := m_unser FUEL e s w in
          let s2 := match u2 with Ok n2 => s_outcome s_val (m_serialize FUEL e s n2) | _ => At "-" end in
          let wc := cbor_norm DEPTH w in
          let u3 := m_unser FUEL e s wc in
          Ls [At "rt"; s_outcome s_val u1; s_outcome s_unit va; s_outcome s_val se;
              s_outcome s_val u2; s2; s_val wc; s_outcome s_val u3]
      | _ => Ls [At "rt"; s_outcome s_val u1; s_outcome s_unit va; s_outcome s_val se]
      end
  | _ => Ls [At "rt"; s_outcome s_val u1]
  end.

Definition run_op (e : env) (s : schema) (op : sexp) : sexp :=
  match op with
  | Ls [At k; vx] =>
      match gval_of DEPTH vx with
      | Some v =>
          if String.eqb k "u" then s_outcome s_val (m_unser FUEL e s v)
          else if String.eqb k "v" then s_outcome s_unit (m_validate FUEL e s v)
          else if String.eqb k "s" then s_outcome s_val (m_serialize FUEL e s v)
          else if String.eqb k "c" then s_outcome s_unit (m_compat FUEL e s v)
          else if String.eqb k "rt" then run_rt e s v
          else bad "op"
      | None => bad "value"
      end
  | _ => bad "op shape"
  end.

Definition run_schema_case (x : sexp) : sexp :=
  match x with
  | Ls [At "sch"; ex; sx; Ls (At "ops" :: ops)] =>
      match env_of ex, schema_of DEPTH sx with
      | Some e, Some s => Ls (At "r" :: map (run_op e s) ops)
      | None, _ => bad "env"
      | _, None => bad "schema"
      end
  | _ => bad "schema case"
  end.
