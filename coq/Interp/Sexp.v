(* Interp/Sexp.v — the interchange syntax (DESIGN appendix A) as a Coq datatype, with the
   decoders/encoders for the basic types.  The OCaml driver only tokenises text into this
   type and prints it back; everything else is Gallina, so the same case can be evaluated
   with vm_compute inside Coq. *)
From Verif Require Import Base.Prelude Base.Str.

Inductive sexp :=
| At (s : string)          (* bare atom *)
| St (s : string)          (* quoted string (already unescaped) *)
| Ls (l : list sexp).

Definition atom_eq (x : sexp) (s : string) : bool :=
  match x with At a => String.eqb a s | _ => false end.

Definition z_of_atom (x : sexp) : option Z :=
  match x with
  | At a =>
      let l := chars a in
      let '(neg, ds) := match l with
                        | c :: t => if Ascii.eqb c "-"%char then (true, t) else (false, l)
                        | [] => (false, [])
                        end in
      match ds with
      | [] => None
      | _ => if all_digits ds then Some (if neg then - digits_val ds else digits_val ds) else None
      end
  | _ => None
  end.

Definition sz (z : Z) : sexp := At (z_to_dec z).
Definition sb (b : bool) : sexp := At (if b then "1" else "0")%string.
Definition b_of_atom (x : sexp) : option bool :=
  match x with
  | At a => if String.eqb a "1" then Some true else if String.eqb a "0" then Some false else None
  | _ => None
  end.
Definition str_of (x : sexp) : option string := match x with St s => Some s | _ => None end.

Definition opt_bind {A B} (o : option A) (f : A -> option B) : option B :=
  match o with Some a => f a | None => None end.
Notation "x <-? o ;; k" := (opt_bind o (fun x => k)) (at level 61, o at next level, right associativity).

Fixpoint opt_mapM {A B} (f : A -> option B) (l : list A) : option (list B) :=
  match l with
  | [] => Some []
  | x :: t => y <-? f x ;; ys <-? opt_mapM f t ;; Some (y :: ys)
  end.

(* (none) | X  for optional fields *)
Definition opt_of {A} (f : sexp -> option A) (x : sexp) : option (option A) :=
  if atom_eq x "none" then Some None else y <-? f x ;; Some (Some y).
Definition sopt {A} (f : A -> sexp) (o : option A) : sexp :=
  match o with None => At "none" | Some a => f a end.

Definition bad (why : string) : sexp := Ls [At "bad"; St why].
