(* Interp/RunUnitsF.v — C16 cases on the float side of schema/units.go and through the schema
   entry points (IntSchema / FloatSchema.Unserialize of a schema WITH units):

     (fmtfloat U FL)     -> (r "short" "long" PF PF)     FormatShortFloat / FormatLongFloat, then
                                                         UnitsDefinition.ParseFloat of each
     (parsefloat U "s")  -> (r PF)                       UnitsDefinition.ParseFloat
     (unser U "s")       -> (r UI UF PI PF)              NewIntSchema(nil,nil,U).Unserialize(s),
                                                         NewFloatSchema(nil,nil,U).Unserialize(s),
                                                         U.ParseInt(s), U.ParseFloat(s)
     PF ::= (ok FL) | err     PI, UI ::= (ok Z) | err     UF ::= (ok FL) | err
   FL as in Interp/Codec.v (exact: sign, odd mantissa, exponent).  Every other payload goes to
   Interp/RunUnits.v. *)
From Verif Require Import Base.Prelude Base.Str Base.Float Base.GoVal Schema.Regex Schema.Units
  Schema.FloatUnits Schema.Syntax Schema.Ops Interp.Sexp Interp.RunUnits Interp.Codec.
Open Scope string_scope.

Definition s_ofl (o : option fl) : sexp :=
  match o with Some f => Ls [At "ok"; s_fl f] | None => At "err" end.
Definition s_oz (o : option Z) : sexp :=
  match o with Some z => Ls [At "ok"; sz z] | None => At "err" end.

(* projection of a schema-level Unserialize outcome: the value, or that it is an error *)
Definition s_unser_num (o : outcome gval) : sexp :=
  match o with
  | Ok (VInt _ z) => Ls [At "ok"; sz z]
  | Ok (VFloat _ f) => Ls [At "ok"; s_fl f]
  | Ok _ => At "other"
  | Err _ => At "err"
  | Panic _ => At "panic"
  | OutOfFuel => At "fuel"
  end.

Definition run_unitsf_case (x : sexp) : sexp :=
  match x with
  | Ls [At "fmtfloat"; us; fx] =>
      match units_of us, fl_of fx with
      | Some u, Some f =>
          let s := format_float false u f in
          let l := format_float true u f in
          Ls [At "r"; St s; St l; s_ofl (parse_units_float u s); s_ofl (parse_units_float u l)]
      | _, _ => bad "fmtfloat"
      end
  | Ls [At "parsefloat"; us; St s] =>
      match units_of us with
      | Some u => Ls [At "r"; s_ofl (parse_units_float u s)]
      | None => bad "parsefloat"
      end
  | Ls [At "unser"; us; St s] =>
      match units_of us with
      | Some u =>
          Ls [At "r";
              s_unser_num (int_unser None None (Some u) (VStr TStr s));
              s_unser_num (float_unser parse_units_float None None (Some u) (VStr TStr s));
              s_oz (parse_units_int u s);
              s_ofl (parse_units_float u s)]
      | None => bad "unser"
      end
  | _ => run_units_case x
  end.
