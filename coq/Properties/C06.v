(* Properties/C06.v — C06: every Execute on a healthy connection returns exactly once under any schedule; Close
   returns; after Close nothing the client started is left blocked.
   Statements only; proofs in Proofs/ATPClient.v (measure, read-loop invariant, progress under flight_ok),
   Proofs/ATPClientInv.v (the conservation invariant, inductive), Proofs/ATPClientFinal.v (maximal executions),
   Proofs/ATPClientWitness.v (D20 window).  Model: ATP/Client.v (the ATP client after the D20 repair, one step per
   critical section of c.mutex / I/O operation), ATP/ClientPreFix.v (the unchanged read loop).

   SESSIONS.  `good_session se` (Proofs/ATPClientInv.v) =
       wf_session: the run ids of the calls are distinct; a call's predecessor on its harness goroutine has a smaller index
       answered:   the peer's script for the run of every call holds an event that ends the call (work done, malformed
                   work done, step-fatal / run-less step-fatal / server-fatal error, or a stream fault)
       fault_ok:   the scripted fault, if there is one, is a fault of the stream (not a message).
   A healthy connection is the case `se_fault = None`, `se_wfail = None` with message-only scripts; the theorems below
   need less: C06_no_stuck / C06_every_execute_returns_once hold for every good session (also faulty ones, see C08),
   the Close half needs in addition that no write fails (`se_wfail = None`; otherwise D25, Properties/C08.v).

   "Every schedule" = every label list `ls`; a MAXIMAL execution = `run (init se) ls = Some s` with `final s`
   (no label is enabled in s); executions are finite by C06_terminates, so every execution extends to a maximal one.

     C06_inv                          PROVED: the conservation invariant `inv` (read-loop conjuncts invA; entries <->
                                      callers between Prepare and Take invE; wait-group accounting invW; Close's
                                      bookkeeping invK; every waiting caller's answer in flight invP) holds in the initial
                                      state of every good session and is preserved by every step for every label.
     C06_flight_ok                    PROVED: hence the executable predicate ATP.Client.flight_ok, which the correspondence
                                      runs also evaluate on every model state, holds in every reachable state.
     C06_terminates / _executions_finite   PROVED (every step of every session decreases a natural-number measure).
     C06_no_stuck                     PROVED: a reachable state with an unreturned Execute has an enabled step.
     C06_every_execute_returns_once   PROVED: in every maximal execution every caller is Done, and along the execution
                                      each caller has exactly ONE return event (its result is taken once).
     C06_close_leaves_nothing_blocked PROVED: in every maximal execution of a session with Close and without write
                                      failures Close returned nil, wg = 0, the read loop has exited, every signal writer
                                      has exited, every Execute has returned.
     C06_window_refuted               the unchanged read loop: a 16-step schedule ends with an Execute waiting for ever. *)
From Coq Require Import Lia.
From Verif Require Import Base.Prelude Base.Str ATP.Msg ATP.Client ATP.ClientPreFix Proofs.ATPClient Proofs.ATPClientWitness
  Proofs.ATPClientInv Proofs.ATPClientFinal Proofs.ATPClientExamples.

Theorem C06_inv : forall (payload : Type) (se : session payload) ls s,
  good_session se -> run (init se) ls = Some s -> inv s.
Proof. exact inv_reachable. Qed.
Print Assumptions C06_inv.

(* the invariant is inductive: it holds initially and every step, for every label, preserves it *)
Theorem C06_inv_inductive : forall (payload : Type),
  (forall se : session payload, good_session se -> inv (init se)) /\
  (forall (s : state payload) l s', inv s -> step s l = Some s' -> inv s').
Proof. intros payload. split; [apply inv_init|apply inv_step]. Qed.
Print Assumptions C06_inv_inductive.

(* the read-loop conjuncts need no assumption on the session at all *)
Theorem C06_inv_read_loop : forall (payload : Type) (se : session payload) ls s,
  run (init se) ls = Some s -> invA s.
Proof. intros payload se ls s H. eapply invA_run; [apply invA_init|exact H]. Qed.
Print Assumptions C06_inv_read_loop.

Theorem C06_flight_ok : forall (payload : Type) (se : session payload) ls s,
  good_session se -> run (init se) ls = Some s -> flight_ok s = true.
Proof. intros payload se ls s G H. apply inv_flight_ok. eapply inv_reachable; eauto. Qed.
Print Assumptions C06_flight_ok.

Theorem C06_terminates : forall (payload : Type) (s : state payload) l s',
  step s l = Some s' -> (mu s' < mu s)%nat.
Proof. exact step_decreases. Qed.
Print Assumptions C06_terminates.

Theorem C06_executions_finite : forall (payload : Type) ls (s s' : state payload),
  run s ls = Some s' -> (List.length ls + mu s' <= mu s)%nat.
Proof. exact run_length_bounded. Qed.
Print Assumptions C06_executions_finite.

Theorem C06_no_stuck : forall (payload : Type) (se : session payload) ls s,
  good_session se -> run (init se) ls = Some s ->
  forall i c, nth_error (callers s) i = Some c -> caller_done c = false -> exists l, step s l <> None.
Proof. intros payload se ls s G H. apply inv_progress. eapply inv_reachable; eauto. Qed.
Print Assumptions C06_no_stuck.

Theorem C06_every_execute_returns_once : forall (payload : Type) (se : session payload) ls s,
  good_session se -> run (init se) ls = Some s -> final s ->
  map (@c_run payload) (callers s) = map (@cs_run payload) (se_calls se) /\
  forall i c, nth_error (callers s) i = Some c -> caller_done c = true /\ returns (init se) ls i = 1%nat.
Proof.
  intros payload se ls s G H F. split.
  - rewrite (run_skel _ _ _ _ H). cbn. apply init_runs.
  - intros i c Hc. assert (caller_done c = true) as Hd by (eapply final_all_done; eauto; eapply inv_reachable; eauto).
    split; auto. pose proof (returns_count _ _ _ _ i H) as Hn.
    rewrite (returned_init _ se i), (returned_done _ _ _ _ Hc), Hd in Hn. lia.
Qed.
Print Assumptions C06_every_execute_returns_once.

Theorem C06_close_leaves_nothing_blocked : forall (payload : Type) (se : session payload) ls s,
  good_session se -> se_wfail se = None -> se_close se = true -> run (init se) ls = Some s -> final s ->
  closer s = KDone CloseOk /\ wg s = 0%nat /\ loop_live (cur s) = false /\
  (forall i c, nth_error (callers s) i = Some c -> caller_done c = true /\ (c_spc c = SNone \/ c_spc c = SExit)).
Proof.
  intros payload se ls s G Hw Hc H F. apply final_closed; auto.
  - eapply inv_reachable; eauto.
  - eapply run_wr_none; eauto.
  - intros E. apply (run_closer_none _ _ _ _ H) in E. cbn in E. rewrite Hc in E. discriminate.
Qed.
Print Assumptions C06_close_leaves_nothing_blocked.

(* without Close the read loop still exits once nothing is pending, and every Execute has returned *)
Theorem C06_no_close_loop_exits : forall (payload : Type) (se : session payload) ls s,
  good_session se -> se_wfail se = None -> run (init se) ls = Some s -> final s ->
  loop_live (cur s) = false /\ forall i c, nth_error (callers s) i = Some c -> caller_done c = true.
Proof.
  intros payload se ls s G Hw H F. apply final_open; auto; [eapply inv_reachable; eauto|eapply run_wr_none; eauto].
Qed.
Print Assumptions C06_no_close_loop_exits.

(* the unchanged read loop: a schedule of the healthy two-call serial session that ends with the second Execute waiting
   for ever - its answer sits unread in the stream, no read loop is alive, nothing can move (D20) *)
Theorem C06_window_refuted :
  exists ls ps, pre_run (init serial2, false) ls = Some ps /\
    (forall l, pre_step ps l = None) /\
    (exists c, nth_error (callers (fst ps)) 1 = Some c /\ c_pc c = CWaiting) /\
    from_server (fst ps) = [wd "b"] /\ has_pending (entries (fst ps)) = true /\ loop_live (cur (fst ps)) = false.
Proof. exact window_stuck. Qed.
Print Assumptions C06_window_refuted.

(* non-vacuity: the two-call serial session is a good session without faults or write failures; on the repaired client
   its 18-step schedule is a maximal execution (both calls returned, two read loops were started, wait group back at
   zero), and a reachable mid-session state has an unreturned Execute *)
Example C06_serial2_is_good : good_session serial2 /\ se_fault serial2 = None /\ se_wfail serial2 = None.
Proof. exact serial2_good. Qed.

Example C06_repaired_session_completes :
  exists s, run (init serial2) repaired_schedule = Some s /\ final s /\ flight_ok s = true /\
            forallb (@caller_done unit) (callers s) = true /\ nloops s = 2%nat /\ wg s = 0%nat.
Proof. exact repaired_ok_final. Qed.

Example C06_no_stuck_hypotheses_satisfiable :
  exists s c, run (init serial2) (firstn 14 repaired_schedule) = Some s /\ flight_ok s = true /\
              nth_error (callers s) 1 = Some c /\ caller_done c = false.
Proof. exact repaired_midway. Qed.
