(* Properties/C06.v — C06: every Execute on a healthy connection returns exactly once under any schedule.
   Statements only; proofs in Proofs/ATPClient.v and Proofs/ATPClientWitness.v.  Model: ATP/Client.v (the ATP client
   after the D20 repair, one step per critical section / I/O operation), ATP/ClientPreFix.v (the unchanged read loop).

   FULL STATEMENTS (DESIGN §5 C06), kept visible; what is proved below is marked.
     C06_inv                          PROVED for the read-loop conjuncts, for EVERY session (also faulty peers):
                                      pending entry => live loop that has not passed its exit check; readLoopRunning =
                                      "a loop is alive"; never two loops; a loop about to Decode has a pending entry.
                                      NOT proved in Coq: the conservation conjuncts (entries <-> callers, wait-group
                                      accounting, every waiting caller's answer in flight).  They are the executable
                                      predicate ATP.Client.flight_ok, evaluated on every state of every model schedule of
                                      every run of the check (a test, not a theorem).
     C06_terminates                   PROVED in full: every step, client or environment, of every session decreases a
                                      natural-number measure; every execution from s has at most mu(s) steps.
     C06_no_stuck                     forall healthy se ls s, run (init se) ls = Some s -> (some Execute or Close not
                                      returned) -> exists l, step s l <> None.
                                      PROVED as C06_no_stuck_partial: for Execute calls, under the hypothesis flight_ok s.
                                      Missing: flight_ok as an invariant of healthy sessions; the Close half.
     C06_every_execute_returns_once   forall healthy se, every maximal execution ends with every caller Done.
                                      PROVED as ..._partial under flight_ok of the final state ("exactly once" is by
                                      construction: a caller's program counter reaches Done once and has no step after).
     after Close no client goroutine blocked: NOT proved in Coq; checked on the implementation by every replayed schedule
                                      with Close (the `left` observation must be empty) and by the schedule exploration. *)
From Coq Require Import Lia.
From Verif Require Import Base.Prelude Base.Str ATP.Msg ATP.Client ATP.ClientPreFix Proofs.ATPClient Proofs.ATPClientWitness.

Theorem C06_inv : forall (payload : Type) (se : session payload) ls s,
  run (init se) ls = Some s -> invA s.
Proof. intros payload se ls s H. eapply invA_run; [apply invA_init|exact H]. Qed.
Print Assumptions C06_inv.

Theorem C06_terminates : forall (payload : Type) (s : state payload) l s',
  step s l = Some s' -> (mu s' < mu s)%nat.
Proof. exact step_decreases. Qed.
Print Assumptions C06_terminates.

Theorem C06_executions_finite : forall (payload : Type) ls (s s' : state payload),
  run s ls = Some s' -> (List.length ls + mu s' <= mu s)%nat.
Proof. exact run_length_bounded. Qed.
Print Assumptions C06_executions_finite.

Theorem C06_no_stuck_partial : forall (payload : Type) (se : session payload) ls s,
  run (init se) ls = Some s -> flight_ok s = true ->
  forall i c, nth_error (callers s) i = Some c -> caller_done c = false -> exists l, step s l <> None.
Proof. intros payload se ls s H F. apply caller_progress; auto. eapply invA_run; [apply invA_init|exact H]. Qed.
Print Assumptions C06_no_stuck_partial.

Theorem C06_every_execute_returns_once_partial : forall (payload : Type) (se : session payload) ls s,
  run (init se) ls = Some s -> (forall l, step s l = None) -> flight_ok s = true ->
  forall i c, nth_error (callers s) i = Some c -> caller_done c = true.
Proof.
  intros payload se ls s H Hmax F i c Hc. destruct (caller_done c) eqn:Hd; auto.
  assert (invA s) as I by (eapply invA_run; [apply invA_init|exact H]).
  destruct (caller_progress _ _ I F i _ Hc Hd) as [l Hl]. now rewrite Hmax in Hl.
Qed.
Print Assumptions C06_every_execute_returns_once_partial.

(* the unchanged read loop: a schedule of the healthy two-call serial session that ends with the second Execute waiting
   for ever - its answer sits unread in the stream, no read loop is alive, nothing can move (D20) *)
Theorem C06_window_refuted :
  exists ls ps, pre_run (init serial2, false) ls = Some ps /\
    (forall l, pre_step ps l = None) /\
    (exists c, nth_error (callers (fst ps)) 1 = Some c /\ c_pc c = CWaiting) /\
    from_server (fst ps) = [wd "b"] /\ has_pending (entries (fst ps)) = true /\ loop_live (cur (fst ps)) = false.
Proof. exact window_stuck. Qed.
Print Assumptions C06_window_refuted.

(* non-vacuity: the same session on the repaired client runs to the end (both calls returned, two read loops were
   started, wait group back at zero), and a reachable mid-session state meets the hypotheses of C06_no_stuck_partial *)
Example C06_repaired_session_completes :
  exists s, run (init serial2) repaired_schedule = Some s /\ flight_ok s = true /\
            forallb (@caller_done unit) (callers s) = true /\ nloops s = 2%nat /\ wg s = 0%nat.
Proof. exact repaired_ok. Qed.

Example C06_no_stuck_hypotheses_satisfiable :
  exists s c, run (init serial2) (firstn 14 repaired_schedule) = Some s /\ flight_ok s = true /\
              nth_error (callers s) 1 = Some c /\ caller_done c = false.
Proof. exact repaired_midway. Qed.
