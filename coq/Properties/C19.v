(* Properties/C19.v — The code generator is total, deterministic, and emits one typed,
   JSON-tagged field per property.  Statements only; every proof is `exact <lemma>` or a
   short wrapper.  The model (Codegen/Gen.v) is the model of the REPAIRED generator (ignore
   argument optional, sorted keys); the code before the repairs is refuted at the end.

   Reading guide (all definitions are in Codegen/Gen.v):
     doc            list of (object key, list of (property key, (type_id, id))) in an ARBITRARY
                    order = Go's map iteration order / the order of the keys in the YAML file
     ig             the ignore argument: None = `gen in.yaml`, Some i = `gen in.yaml i`
     gen ig d       the structs and fields of typedef_output.go, in file order
     gen_run ig d   the same with the one modelled failure: format.Source rejects the text
                    (=> panic) iff a field's type token is a Go keyword
     gen_text       the text handed to format.Source
     field_ok, struct_ok, doc_perm, keys_unique   the vocabulary of the statements *)
From Coq Require Import List Permutation Sorting.Sorted String.
From Verif Require Import Base.Prelude Base.Str Codegen.Gen Proofs.Codegen.
Import ListNotations.
Open Scope string_scope.

(* ------------------------------------------------------------------------------------ *)
(* (1) Totality, with or without the ignore argument (ig ranges over both forms).        *)
(* ------------------------------------------------------------------------------------ *)

(* If no property's type token is a Go keyword the generator finishes and its output is
   gen ig d.  NOTE the hypothesis: the property as written ("every type ID") is FALSE for the
   arcaflow type id "map", which is a Go keyword — see C19_total_refuted_keyword_type (D46). *)
Theorem C19_total : forall ig d, types_ok d = true -> gen_run ig d = Ok (gen ig d).
Proof. exact gen_run_total. Qed.
Print Assumptions C19_total.

(* The exact failure set: the generator panics iff some NON-ignored object has a property
   whose type token (type id, or referenced id for a ref, after int64/float64 mapping) is a
   Go keyword.  There is no other outcome (no error return, no divergence). *)
Theorem C19_fails_exactly_on_keyword_types : forall ig d,
  (gen_run ig d = Ok (gen ig d) \/ exists w, gen_run ig d = Panic w) /\
  ((exists w, gen_run ig d = Panic w) <->
   (exists o p, In o d /\ keep ig o = true /\ In p (snd o) /\
                go_keyword (go_type (p_tid p) (p_rid p)) = true)).
Proof. intros ig d. split; [exact (gen_run_ok_or_panic ig d) | exact (gen_run_panic_iff ig d)]. Qed.
Print Assumptions C19_fails_exactly_on_keyword_types.

(* Why only the type column matters: a title-cased key is never a Go keyword, so struct and
   field names cannot break the generated file, whatever the keys are. *)
Theorem C19_names_never_keywords : forall s, go_keyword (title s) = false.
Proof. exact title_not_keyword. Qed.
Print Assumptions C19_names_never_keywords.

(* ------------------------------------------------------------------------------------ *)
(* (2) Structure.                                                                        *)
(* ------------------------------------------------------------------------------------ *)

(* The output structs are in one-to-one correspondence (Forall2) with a re-ordering `os` of
   the non-ignored objects; each struct is named by the title-cased key and its fields are in
   one-to-one correspondence with a re-ordering of the object's properties, each field being
   (title-cased key, mapped type, json tag = key) — field_ok spells the type mapping out:
   integer -> int64, float -> float64, ref -> the referenced id, anything else -> the type id.
   With unique keys, `os` is the list of non-ignored objects in strictly increasing key order. *)
Theorem C19_structure : forall ig d,
  exists os, Permutation os (filter (keep ig) d)
             /\ Forall2 struct_ok os (gen ig d)
             /\ (NoDup (map fst d) -> StronglySorted klt os).
Proof. exact gen_structure. Qed.
Print Assumptions C19_structure.

(* "non-ignored" means: the key differs from the ignore argument, if there is one *)
Theorem C19_ignored : forall ig o, keep ig o = true <-> ig <> Some (fst o).
Proof. exact keep_spec. Qed.
Print Assumptions C19_ignored.

(* counting form: exactly one struct per non-ignored object, one field per property *)
Theorem C19_counts : forall ig d,
  List.length (gen ig d) = List.length (filter (keep ig) d)
  /\ forall o, List.length (s_fields (struct_of o)) = List.length (snd o).
Proof. intros ig d. split; [exact (gen_length ig d) | exact struct_of_fields_length]. Qed.
Print Assumptions C19_counts.

(* ------------------------------------------------------------------------------------ *)
(* (3) Determinism: the output does not depend on the iteration order of either map.     *)
(* ------------------------------------------------------------------------------------ *)

(* For EVERY re-ordering of the object list and of every property list (doc_perm: Coq's
   Permutation on both levels), with unique keys, the outcome, the structured output and the
   text handed to format.Source are identical. *)
Theorem C19_deterministic : forall ig d d',
  keys_unique d -> doc_perm d d' ->
  gen_run ig d' = gen_run ig d /\ gen ig d' = gen ig d /\
  forall file, gen_text file ig d' = gen_text file ig d.
Proof.
  intros ig d d' H1 H2. split; [exact (gen_run_deterministic ig d d' H1 H2)|].
  split; [exact (gen_deterministic ig d d' H1 H2) | intro file; exact (gen_text_deterministic file ig d d' H1 H2)].
Qed.
Print Assumptions C19_deterministic.

(* the route: a key-sorted list with unique keys is unique among its permutations *)
Theorem C19_sorted_permutation_unique : forall (A : Type) (l l' : list (string * A)),
  NoDup (map fst l) -> Permutation l l' -> sort_keys l = sort_keys l'.
Proof. intros A. exact sort_keys_perm_eq. Qed.
Print Assumptions C19_sorted_permutation_unique.

(* the uniqueness hypothesis is what the interpreter checks on every generated case *)
Theorem C19_wf_keys_unique : forall d, wf_doc d = true -> keys_unique d.
Proof. exact wf_doc_keys_unique. Qed.
Print Assumptions C19_wf_keys_unique.

(* ------------------------------------------------------------------------------------ *)
(* Non-vacuity: a document meeting every hypothesis, and a genuine re-ordering of it.     *)
(* ------------------------------------------------------------------------------------ *)

Definition ex_conn : obj :=
  ("connection", [("qps", ("float", "")); ("metadata", ("ref", "ObjectMeta"));
                  ("burst", ("integer", "")); ("_9a", ("string", ""))]).
Definition ex_conn' : obj :=
  ("connection", [("metadata", ("ref", "ObjectMeta")); ("qps", ("float", ""));
                  ("burst", ("integer", "")); ("_9a", ("string", ""))]).
Definition ex_meta : obj := ("ObjectMeta", [("name", ("string", "")); ("labels", ("list", ""))]).
Definition ex_doc : doc := [ex_conn; ex_meta].
Definition ex_doc' : doc := [ex_meta; ex_conn'].

Example C19_ex_hypotheses :
  wf_doc ex_doc = true /\ types_ok ex_doc = true /\ keys_unique ex_doc /\ doc_perm ex_doc ex_doc'
  /\ ex_doc <> ex_doc'.
Proof.
  split; [vm_compute; reflexivity|]. split; [vm_compute; reflexivity|].
  split; [apply wf_doc_keys_unique; vm_compute; reflexivity|]. split; [|discriminate].
  exists [ex_conn'; ex_meta]. split.
  - constructor; [split; [reflexivity | apply perm_swap]|].
    constructor; [split; [reflexivity | apply Permutation_refl] | constructor].
  - apply perm_swap.
Qed.

Example C19_ex_output :
  gen_run None ex_doc =
    Ok [mkStruct "ObjectMeta" [mkField "Labels" "list" "labels"; mkField "Name" "string" "name"];
        mkStruct "Connection" [mkField "_9A" "string" "_9a"; mkField "Burst" "int64" "burst";
                               mkField "Metadata" "ObjectMeta" "metadata"; mkField "Qps" "float64" "qps"]]
  /\ gen_run None ex_doc' = gen_run None ex_doc
  /\ gen_run (Some "ObjectMeta") ex_doc =
    Ok [mkStruct "Connection" [mkField "_9A" "string" "_9a"; mkField "Burst" "int64" "burst";
                               mkField "Metadata" "ObjectMeta" "metadata"; mkField "Qps" "float64" "qps"]]
  /\ gen_run (Some "nosuchobject") ex_doc = gen_run None ex_doc.
Proof. vm_compute. repeat split; reflexivity. Qed.

(* the text handed to format.Source for gen_test.go's first schema *)
Example C19_ex_text :
  gen_text "schema_input.yaml" (Some "ObjectMeta") [("Connection", [("bearerToken", ("string", ""))])] =
  "// Code generated by ""gen schema_input.yaml ObjectMeta""" ++ nl ++
  "package arcaflow_plugin_service" ++ nl ++ nl ++
  "import (" ++ nl ++
  "    v1 ""k8s.io/api/core/v1""" ++ nl ++
  "    metav1 ""k8s.io/apimachinery/pkg/apis/meta/v1""" ++ nl ++
  ")" ++ nl ++ nl ++
  "type Connection struct {" ++ nl ++
  tab ++ "BearerToken string `json:""bearerToken""`" ++ nl ++
  "}" ++ nl.
Proof. vm_compute. reflexivity. Qed.

(* ------------------------------------------------------------------------------------ *)
(* Refutations.                                                                          *)
(* ------------------------------------------------------------------------------------ *)

(* D46 (open): totality WITHOUT the types_ok hypothesis is false.  A well-formed document
   with one property of the arcaflow type id "map": the generator writes
   `Labels map `json:"labels"``, format.Source rejects it, check(err) panics. *)
Theorem C19_total_refuted_keyword_type :
  exists d, wf_doc d = true /\ forall ig, ig <> Some "pod" -> exists w, gen_run ig d = Panic w.
Proof.
  exists [("pod", [("labels", ("map", ""))])]. split; [vm_compute; reflexivity|].
  intros ig Hig. apply gen_run_panic_iff.
  exists ("pod", [("labels", ("map", ""))]), ("labels", ("map", "")).
  split; [left; reflexivity|]. split; [apply keep_spec; exact Hig|].
  split; [left; reflexivity | vm_compute; reflexivity].
Qed.
Print Assumptions C19_total_refuted_keyword_type.

(* D36 (repaired): the code that reads os.Args[2] unconditionally panics on every non-empty
   document when no ignore argument is given. *)
Theorem C19_prefix_D36_refuted :
  wf_doc ex_doc = true /\ types_ok ex_doc = true /\
  exists w, gen_run_prefix_D36 None ex_doc = Panic w.
Proof. split; [vm_compute; reflexivity|]. split; [vm_compute; reflexivity|]. eexists. reflexivity. Qed.
Print Assumptions C19_prefix_D36_refuted.

(* D37 (repaired): the code that follows map iteration order gives different output for two
   iteration orders of the same document. *)
Theorem C19_prefix_D37_refuted :
  keys_unique ex_doc /\ doc_perm ex_doc ex_doc' /\
  gen_prefix_D37 None ex_doc' <> gen_prefix_D37 None ex_doc.
Proof.
  destruct C19_ex_hypotheses as (_ & _ & H1 & H2 & _). split; [exact H1|]. split; [exact H2|].
  vm_compute. discriminate.
Qed.
Print Assumptions C19_prefix_D37_refuted.

(* NOT proved here (carried by the correspondence check only):
   - that format.Source accepts the text whenever no type token is a keyword, and that the
     gofmt-ed file re-parses to exactly `gen ig d` (go/format and go/parser are not modelled;
     the harness re-parses every generated file and compares with the model, and checks that
     the file is a gofmt fixed point);
   - that x/text's cases.Title coincides with `title` beyond the identifiers compared by
     experiment (Gen.v header) and by the correspondence on every generated name. *)
