(* Properties/C03.v — Object presence rules, defaults and one-of dispatch are enforced as declared.
   Statements only; proofs in Proofs/C03Obj.v, Proofs/C03Main.v; the declarative side
   (object_accepts, oneof_routes, obj_native_ok, oneof_native_routes) is Schema/SpecObj.v,
   written from the property text.  Map-based objects; struct-mapped objects are the
   struct-mapped extension of the model (its own files).

   Hypotheses, both boolean: the property names of the object are unique and the keys of the raw
   Go map are unique (Go maps cannot be otherwise).  `words`/`pu` are the boolean-word table and
   the unit parser the kinds below the object layer use; the theorems hold for every choice. *)
From Coq Require Import Permutation.
From Verif Require Import Base.Prelude Base.Str Base.Float Base.GoVal
  Schema.Regex Schema.Units Schema.Syntax Schema.Ops Schema.SpecObj Proofs.OpsLemmas Proofs.C03Obj Proofs.C03Main.
Open Scope string_scope.
Open Scope Z_scope.

(* Unserialize of an object returns Ok n only if the declarative rule accepts v with result n:
   v is a map whose keys are all strings and all declared (or a lone non-map value and the object
   has exactly one property), every property in use (supplied, or absent with a default: the
   decoded default; a supplied value is never replaced) is enabled and accepted by its type, n holds
   exactly those unserialized values, and required / required_if / required_if_not / conflicts hold
   on the set of properties present after defaulting. *)
Theorem C03_object_result : forall words pu f e id u props v n,
  nodup_str (map fst props) = true -> raw_keys_unique v = true ->
  unser words pu (S f) e (SObject id u props) v = Ok n ->
  object_accepts (unser words pu f e) (e_or e) props v n.
Proof. exact c03_object_result. Qed.
Print Assumptions C03_object_result.

(* ... and whenever the declarative rule accepts, Unserialize returns that map (up to the order of
   its entries). *)
Theorem C03_object_complete : forall words pu f e id u props v n,
  nodup_str (map fst props) = true -> raw_keys_unique v = true ->
  object_accepts (unser words pu f e) (e_or e) props v n ->
  exists n', unser words pu (S f) e (SObject id u props) v = Ok n' /\ same_entries n n'.
Proof. exact c03_object_complete. Qed.
Print Assumptions C03_object_complete.

Theorem C03_object_iff : forall words pu f e id u props v,
  nodup_str (map fst props) = true -> raw_keys_unique v = true ->
  ((exists n, unser words pu (S f) e (SObject id u props) v = Ok n) <->
   (exists n, object_accepts (unser words pu f e) (e_or e) props v n)).
Proof. exact c03_object_iff. Qed.
Print Assumptions C03_object_iff.

(* independent of the order of the property list (Go's map iteration order) — shared with C12 *)
Theorem C03_object_order_independent : forall words pu f e id u props props' v n,
  Permutation props props' -> nodup_str (map fst props) = true -> raw_keys_unique v = true ->
  unser words pu (S f) e (SObject id u props) v = Ok n ->
  exists n', unser words pu (S f) e (SObject id u props') v = Ok n' /\ same_entries n n'.
Proof. exact c03_object_order_independent. Qed.
Print Assumptions C03_object_order_independent.

Theorem C03_object_reject_order_independent : forall words pu f e id u props props' v,
  Permutation props props' -> nodup_str (map fst props) = true -> raw_keys_unique v = true ->
  ((exists n, unser words pu (S f) e (SObject id u props) v = Ok n) <->
   (exists n, unser words pu (S f) e (SObject id u props') v = Ok n)).
Proof. exact c03_object_reject_order_independent. Qed.
Print Assumptions C03_object_reject_order_independent.

(* a one-of value is routed by the typed discriminator alone; the discriminator is passed on to the
   member iff it is inlined; the one-of accepts iff the member accepts; the result carries the typed
   discriminator *)
Theorem C03_oneof_routes : forall words pu f e types ik field inlined v n,
  unser words pu (S f) e (SOneOf types ik field inlined) v = Ok n <->
  oneof_routes (unser words pu f e) types ik field inlined v n.
Proof. exact c03_oneof_routes. Qed.
Print Assumptions C03_oneof_routes.

(* Validate and Serialize enforce one and the same key / type / presence predicate on native maps
   (obj_native_ok), each with its own acceptance of the property values *)
Theorem C03_paths_agree_object : forall words pu f e id u props v,
  (validate words pu (S f) e (SObject id u props) v = Ok tt <->
     obj_native_ok (fun s x => validate words pu f e s x = Ok tt) props v) /\
  ((exists w, serialize words pu (S f) e (SObject id u props) v = Ok w) <->
     obj_native_ok (fun s x => exists y, serialize words pu f e s x = Ok y) props v).
Proof. exact c03_paths_agree_object. Qed.
Print Assumptions C03_paths_agree_object.

(* ... and one and the same dispatch (oneof_native_routes: exactly map[string]any, the typed
   discriminator selects the member, the member's data-compatibility pre-check, the discriminator
   stripped unless inlined) on native one-of values *)
Theorem C03_paths_agree_oneof : forall words pu f e types ik field inlined v,
  (validate words pu (S (S f)) e (SOneOf types ik field inlined) v = Ok tt <->
     exists key member d',
       oneof_native_routes (fun m x => compat words pu f e m x = Ok tt) types ik field inlined v key member d'
       /\ validate words pu (S f) e member d' = Ok tt) /\
  ((exists w, serialize words pu (S (S f)) e (SOneOf types ik field inlined) v = Ok w) <->
     exists key member d',
       oneof_native_routes (fun m x => compat words pu f e m x = Ok tt) types ik field inlined v key member d'
       /\ exists x xs, serialize words pu (S f) e member d' = Ok x /\ is_str_any_map x = Some xs).
Proof. exact c03_paths_agree_oneof. Qed.
Print Assumptions C03_paths_agree_oneof.

(* ---- the hypotheses are satisfiable by a non-trivial instance: required a (supplied as uint64),
        b absent with default "7" read by the int type, c conflicting with a and absent ---- *)
Definition ex_orc : oracles := mkOracles (fun _ => Some (vstr "7")) (fun _ => true).
Definition ex_env : env := mkEnv [] [] ex_orc.
Definition ex_prop (req : bool) (confl : list string) (dflt : option string) : property :=
  mkProp (SInt None None None) None req [] [] confl dflt [] false false None.
Definition ex_props : list (string * property) :=
  [("a", ex_prop true [] None); ("b", ex_prop false [] (Some """7""")); ("c", ex_prop false ["a"] None)].
Definition ex_raw : gval := VMap t_any_map false [(vstr "a", VInt (TInt U64) 3)].

Example C03_object_example :
  nodup_str (map fst ex_props) = true /\ raw_keys_unique ex_raw = true /\
  unser [] (fun _ _ => None) 5 ex_env (SObject "o" false ex_props) ex_raw
  = Ok (VMap t_str_map false [(vstr "a", vi64 3); (vstr "b", vi64 7)]).
Proof. vm_compute. repeat split. Qed.

Example C03_oneof_example :
  unser [] (fun _ _ => None) 6 ex_env
    (SOneOf [(KI 1, SObject "m1" false [("p", ex_prop true [] None)]); (KI 2, SObject "m2" false [])] true "kind" false)
    (VMap t_any_map false [(vstr "kind", vstr "1"); (vstr "p", VInt (TInt U8) 4)])
  = Ok (VMap t_str_map false [(vstr "p", vi64 4); (vstr "kind", vi64 1)]).
Proof. vm_compute. reflexivity. Qed.

(* ====================================================================================================
   Struct-mapped objects (Schema/XOps.v; Proofs/XPaths.v): validateStruct and serializeStruct enforce one
   and the same type / presence predicate on a Go value (xstruct_native_ok: the value is exactly a T — a
   non-nil pointer when T = *S —, the presence rules hold on the set of properties PRESENT in the struct,
   every present field value is accepted by its property type), where presence is decided by the field
   extraction alone (xfield_value: the field FieldByName finds; absent behind a nil embedded pointer, as a
   nil pointer, as a nil interface, or — treat-empty-as-default — when it DeepEquals the empty value; a
   pointer field is dereferenced unless the property's own reflected type is a pointer).  The only
   hypothesis is what buildObjectFieldCache guarantees: every property has a field. *)
From Verif Require Import Base.XReflect Schema.XSyntax Schema.XOps Schema.XWf Proofs.XStruct Proofs.XPaths Proofs.XExamples.

Theorem C03_struct_paths_agree : forall words pu f e id u props si v,
  xfields_ok props (Some si) = true ->
  (xvalidate words pu (S f) e (XObject id u props (Some si)) v = Ok tt <->
     xstruct_native_ok (fun s x => xvalidate words pu f e s x = Ok tt) e props si v) /\
  ((exists w, xserialize words pu (S f) e (XObject id u props (Some si)) v = Ok w) <->
     xstruct_native_ok (fun s x => exists y, xserialize words pu f e s x = Ok y) e props si v).
Proof. exact x_struct_paths_agree. Qed.
Print Assumptions C03_struct_paths_agree.

(* hence the same verdict whenever the property types give the same verdict on the field values *)
Theorem C03_struct_paths_agree_verdict : forall words pu f e id u props si v,
  xfields_ok props (Some si) = true ->
  (forall np x, In np props ->
     (xvalidate words pu f e (p_type (snd np)) x = Ok tt <-> exists y, xserialize words pu f e (p_type (snd np)) x = Ok y)) ->
  (xvalidate words pu (S f) e (XObject id u props (Some si)) v = Ok tt <->
   exists w, xserialize words pu (S f) e (XObject id u props (Some si)) v = Ok w).
Proof. exact x_struct_paths_agree_verdict. Qed.
Print Assumptions C03_struct_paths_agree_verdict.

(* XNested{In XInner; P *XInner; X int64} of the harness: the nil pointer member is absent, both paths accept *)
Example C03_struct_paths_example :
  let v := VStruct (TStruct "XNested") [("In", xs_inner_v 1 "q"); ("P", VPtr (TPtr (TStruct "XInner")) None); ("X", vi64 3)] in
  xfields_ok xs_nested_props (Some xs_nested_si) = true /\
  xvalidate w_words w_pu 8 (xs_env xs_tab) xs_nested v = Ok tt /\
  is_ok (xserialize w_words w_pu 8 (xs_env xs_tab) xs_nested v) = true /\
  xpresent (xs_env xs_tab) xs_nested_si v xs_nested_props = [("in", xs_inner_v 1 "q"); ("x", vi64 3)].
Proof. exact xs_paths_accept. Qed.

(* ---------- one-of over struct-mapped members, native values (known finding D85) ----------
   For RAW values a one-of is routed solely by its discriminator (C03_oneof_routes).  A native STRUCT value is dispatched by its
   Go type (oneof.go findUnderlyingType), and an INLINED discriminator is then just a property of the member: when the member's
   own discriminator field is unset or names the member, what Serialize returns carries the member's key and is routed back to
   it; when it names ANOTHER member, Validate and Serialize still accept the value and the serialized form is rejected by
   Unserialize (or routed elsewhere).  The full statement "Validate / Serialize accept a native one-of value exactly when
   Unserialize accepts its content, through the same member" is therefore refuted in the faithful model: *)
From Verif Require Import Proofs.XOneOfNative.

Theorem C03_oneof_native_dispatch_refuted :
  exists (e : xenv) (s : xschema) (n w : gval),
    is_ok (xvalidate d85_words d85_pu 50 e s n) = true /\
    xserialize d85_words d85_pu 50 e s n = Ok w /\
    is_err (xunser d85_words d85_pu 50 e s w) = true.
Proof. exact x_oneof_native_discriminator_refuted. Qed.
Print Assumptions C03_oneof_native_dispatch_refuted.

(* the discriminator unset: Serialize supplies the key of the member the value was dispatched to, and the result is routed back *)
Example C03_oneof_native_dispatch_example :
  let n := VStruct (TStruct "XKindP") [("Kind", VPtr (TPtr TStr) None); ("X", vstr "v")] in
  xserialize d85_words d85_pu 50 d85_env d85_oneof n = Ok (VMap t_str_map false [(vstr "x", vstr "v"); (vstr "kind", vstr "a")]) /\
  xunser d85_words d85_pu 50 d85_env d85_oneof (VMap t_str_map false [(vstr "x", vstr "v"); (vstr "kind", vstr "a")])
  = Ok (VStruct (TStruct "XKindP") [("Kind", VPtr (TPtr TStr) (Some (vstr "a"))); ("X", vstr "v")]).
Proof. exact x_oneof_native_discriminator_unset_ok. Qed.
