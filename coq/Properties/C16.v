(* Properties/C16.v — Unit formatting and parsing are inverse; parsing never returns a wrong
   number.  Statements only; every proof is `exact <lemma>`. *)
From Coq Require Import ZArith List Ascii String Sorted.
From Verif Require Import Base.Prelude Base.Str Base.Float Schema.Regex Schema.Units Schema.FloatUnits Generated.Tables
  Proofs.UnitsArith Proofs.UnitsSweep Proofs.UnitsBuiltin Proofs.UnitsFloat
  Proofs.UnitsStringRe Proofs.UnitsStringTok Proofs.UnitsStringSound Proofs.UnitsStringRound
  Proofs.UnitsStringRT Proofs.UnitsStringWitness Proofs.UnitsStringFloat Proofs.UnitsStringSpec Proofs.TrimSpaceU.
Import ListNotations.
Open Scope Z_scope.
Open Scope list_scope.

(* (1) Formatting, arithmetic level, unbounded: for ANY list of positive multipliers and any
   n >= 0 the greedy decomposition the formatter prints sums back to n exactly. *)
Theorem C16_decompose_sum : forall ms n cs r,
  Forall (fun m => 0 < m) ms -> 0 <= n ->
  decompose ms n = (cs, r) ->
  dot cs ms + r = n /\ 0 <= r /\ Forall (fun c => 0 <= c) cs /\ List.length cs = List.length ms.
Proof. exact decompose_sum. Qed.
Print Assumptions C16_decompose_sum.

(* (2) Parsing, arithmetic level, unbounded: "never a wrong number".  Whatever tokens the
   matcher captured, if the accumulator answers then the answer is exactly the sum of
   count x multiplier and fits int64 ... *)
Theorem C16_accumulate_exact : forall toks z,
  fold_left (fun acc tm => accumulate_tok acc (fst tm) (snd tm)) toks (Some 0) = Some z ->
  exists vs, Forall2 (fun tm v => tok_val tm = Some v) toks vs /\ z = fold_right Z.add 0 vs /\ in_i64 z = true.
Proof.
  intros toks z H. destruct (accumulate_exact toks 0 z eq_refl H) as (vs & A & B & C).
  exists vs. repeat split; assumption.
Qed.
Print Assumptions C16_accumulate_exact.

(* ... and it answers whenever every product and every partial sum fits 64 bits; in every
   other case (a value that does not fit) the result is None, i.e. an error. *)
Theorem C16_accumulate_complete : forall toks vs,
  Forall2 (fun tm v => tok_val tm = Some v) toks vs ->
  (forall k, (k <= List.length vs)%nat -> in_i64 (fold_right Z.add 0 (firstn k vs)) = true) ->
  Forall (fun v => in_i64 v = true) vs ->
  fold_left (fun acc tm => accumulate_tok acc (fst tm) (snd tm)) toks (Some 0) = Some (fold_right Z.add 0 vs).
Proof.
  intros toks vs H1 H2 H3. exact (accumulate_complete toks vs 0 H1 H2 H3).
Qed.
Print Assumptions C16_accumulate_complete.

(* (3) String level, the built-in unit sets exactly as the code defines them now
   (Generated/Tables.v is re-dumped from the SDK on every run): format then parse is the
   identity, short and long form, for every integer in [0, 2000].  A finite domain, decided
   by computation inside the kernel (vm_compute); the range [0, 200000] named by the
   property's quantifier is proved in Thorough/C16_sweep.v by the thorough tier. *)
Theorem C16_roundtrip_builtin_bounded : forall u n, In u builtin_units -> 0 <= n <= 2000 ->
  parse_units_int u (format_short_int u n) = Some n /\ parse_units_int u (format_long_int u n) = Some n.
Proof. exact builtin_roundtrip_2000. Qed.
Print Assumptions C16_roundtrip_builtin_bounded.

(* non-vacuity: the hypotheses are met by real data *)
Example C16_builtin_nonempty : List.length builtin_units = 5%nat /\ forallb wf_units builtin_units = true.
Proof. split; [reflexivity | exact builtin_wf]. Qed.
Example C16_overflow_is_error :
  parse_units_int unit_duration_seconds "153722867280912931m" = None
  /\ parse_units_int unit_duration_seconds "5m30s" = Some 330.
Proof. vm_compute. split; reflexivity. Qed.

(* (4) The float side, number rendering: every count the float formatters print goes through
   trimFraction(fmt.Sprintf("%f", x)) (fmt_f_trim).  trimFraction never removes a significant
   digit: on a decimal rendering  ip "." fp  it returns ip UNTOUCHED followed by fp without its
   trailing zeros (without the point when nothing is left of the fraction), so the fraction keeps
   its value  fp / 10^|fp| = fp' / 10^|fp'|.  For any ip, fp free of further points. *)
Theorem C16_trim_fraction_exact : forall ip fp, has_dot ip = false -> has_dot fp = false ->
  trim_fraction (ip ++ "."%char :: fp) = ip ++ frac_part (trim_right is0 fp).
Proof. exact trim_fraction_spec. Qed.
Print Assumptions C16_trim_fraction_exact.

Theorem C16_trim_fraction_keeps_value : forall ip fp, has_dot ip = false -> has_dot fp = false ->
  exists fp' k,
    trim_fraction (ip ++ "."%char :: fp) = ip ++ frac_part fp'
    /\ List.length fp = (List.length fp' + k)%nat
    /\ digits_val fp = digits_val fp' * 10 ^ Z.of_nat k.
Proof. exact trim_fraction_keeps_value. Qed.
Print Assumptions C16_trim_fraction_keeps_value.

(* ... and that is what the formatter model prints for EVERY finite float64 (sign s, mantissa m,
   exponent e): the %f rendering has the shape  ip "." fp, the integer part is printed intact. *)
Theorem C16_float_count_rendering : forall s m e, exists ip fp fp' k,
  chars (fmt_f (FFin s m e)) = ip ++ "."%char :: fp
  /\ fmt_f_trim (FFin s m e) = unchars (ip ++ frac_part fp')
  /\ List.length fp = (List.length fp' + k)%nat
  /\ digits_val fp = digits_val fp' * 10 ^ Z.of_nat k.
Proof. exact fmt_f_trim_finite. Qed.
Print Assumptions C16_float_count_rendering.

(* non-vacuity, and the difference to a single TrimRight with the merged cutset "0." *)
Example C16_trim_fraction_examples :
  has_dot (chars "10") = false /\ has_dot (chars "000000") = false
  /\ trim_fraction (chars "10" ++ "."%char :: chars "000000") = chars "10"
  /\ trim_fraction (chars "10.500000") = chars "10.5"
  /\ fmt_f_trim (fl_of_Z b64 10) = "10"%string /\ fmt_f_trim (FZero false) = "0"%string
  /\ trim_fraction_merged (chars "10.000000") = chars "1".
Proof. vm_compute. repeat split; reflexivity. Qed.

(* NOT proved for the float side: the float round trip itself (format_float then
   parse_units_float within tolerance) — it depends on the correctly rounded division, floor and
   subtraction of the decomposition; it is carried by the correspondence family (fmtfloat cases,
   direct tolerance check) only. *)

(* (5) String level, ARBITRARY well-formed definitions, every input string: "parsing never
   returns a wrong number".  If ParseInt answers n then the trimmed input IS a tokenisation
   (Proofs/UnitsStringSound.v: tokenisation / Proofs/UnitsStringTok.v: useq, uparts):
   optional spaces, then for every multiplier in strictly DESCENDING order and last for the base
   unit either nothing or  count, optional spaces, one of the four declared names of that unit
   (the base unit may stay unnamed), optional spaces; the counts are non-empty digit runs;
   n is EXACTLY  sum count x multiplier  (absent unit = 0), every partial sum (largest
   unit first), every count and every product is an int64.  Rests on the soundness of the backtracking matcher w.r.t. a
   declarative semantics of the whole regexp language of Schema/Regex.v (C16_matcher_sound). *)
Theorem C16_matcher_sound : forall r whole s cs,
  re_match_at r whole s = Some cs -> exists s', re_matches whole r s s' [] cs.
Proof. exact re_match_at_sound. Qed.
Print Assumptions C16_matcher_sound.

(* ... and the fuel the model gives the matcher is enough: where a declarative match exists
   the matcher answers (with a match, by soundness) *)
Theorem C16_matcher_complete_weak : forall r whole s s' cs,
  re_matches whole r s s' [] cs -> re_match_at r whole s <> None.
Proof. exact re_match_at_complete. Qed.
Print Assumptions C16_matcher_complete_weak.

Theorem C16_parse_sound : forall u s n, wf_units u = true -> parse_units_int u s = Some n ->
  exists toks,
    tokenisation u (chars (trim_space s)) toks
    /\ n = dot (map tok_count toks) (units_keys u)
    /\ (forall k, in_i64 (dot (firstn k (map tok_count toks)) (units_keys u)) = true)
    /\ Forall (fun cm => in_i64 (fst cm) = true /\ in_i64 (fst cm * snd cm) = true) (combine (map tok_count toks) (units_keys u))
    /\ StronglySorted mult_gt (sorted_mults u).
Proof. exact parse_sound. Qed.
Print Assumptions C16_parse_sound.

(* non-vacuity: a definition and inputs that meet the hypotheses; and the shape of a tokenisation *)
Example C16_parse_sound_nonvacuous :
  wf_units unit_duration_seconds = true
  /\ parse_units_int unit_duration_seconds "  1 day 5m30 seconds " = Some 86730
  /\ units_keys unit_duration_seconds = [86400; 3600; 60; 1]
  /\ tokenisation unit_duration_seconds (chars "5m 30s") [[]; []; chars "5"; chars "30"].
Proof.
  split; [vm_compute; reflexivity|]. split; [vm_compute; reflexivity|]. split; [vm_compute; reflexivity|].
  exists [], (chars "5m 30s"). split; [reflexivity|]. split; [reflexivity|]. split.
  - change (chars "5m 30s") with ([] ++ [] ++ (chars "5" ++ [] ++ chars "m") ++ chars " " ++ (chars "30" ++ [] ++ chars "s") ++ [] ++ [])%list.
    change (uparts unit_duration_seconds) with
      [(86400, false, unit_names (mkUnit "d" "d" "day" "days")); (3600, false, unit_names (mkUnit "H" "H" "hour" "hours"));
       (60, false, unit_names (mkUnit "m" "m" "minute" "minutes")); (1, true, ""%string :: unit_names (mkUnit "s" "s" "second" "seconds"))].
    apply (useq_cons 86400 false _ _ [] [] [] ([] ++ [] ++ (chars "5" ++ [] ++ chars "m") ++ chars " " ++ (chars "30" ++ [] ++ chars "s") ++ [] ++ [])%list
             [[]; chars "5"; chars "30"]); [constructor | reflexivity |].
    apply (useq_cons 3600 false _ _ [] [] [] ((chars "5" ++ [] ++ chars "m") ++ chars " " ++ (chars "30" ++ [] ++ chars "s") ++ [] ++ [])%list
             [chars "5"; chars "30"]); [constructor | reflexivity |].
    apply (useq_cons 60 false _ _ (chars "5" ++ [] ++ chars "m")%list (chars "5") (chars " ") ((chars "30" ++ [] ++ chars "s") ++ [] ++ [])%list
             [chars "30"]);
      [apply (useg_tok false _ (chars "5") [] "m"%string); [constructor; [discriminate | reflexivity] | reflexivity | cbn; tauto] | reflexivity |].
    apply (useq_cons 1 true _ _ (chars "30" ++ [] ++ chars "s")%list (chars "30") [] [] []);
      [apply (useg_tok true _ (chars "30") [] "s"%string); [constructor; [discriminate | reflexivity] | reflexivity | cbn; tauto] | reflexivity | constructor].
  - constructor; [left; reflexivity|]. constructor; [left; reflexivity|].
    constructor; [right; split; [discriminate | reflexivity]|].
    constructor; [right; split; [discriminate | reflexivity] | constructor].
Qed.

(* (6) String level, ARBITRARY definitions: the round trip.
   FULL statement (FALSE — see C16_roundtrip_arbitrary_refuted below):
     forall u n, wf_units u = true -> 0 <= n <= max_i64 ->
       parse_units_int u (format_short_int u n) = Some n /\ parse_units_int u (format_long_int u n) = Some n.
   Proved: the same under the boolean  names_unambiguous u  (Proofs/UnitsStringRound.v):
     - every name starts with a byte that is neither a digit nor a regexp space, is not "." and
       does not start with "." followed by a digit, and does not END WITH A WHITE-SPACE CHARACTER of strings.TrimSpace
       (unicode.IsSpace on the UTF-8 text: the six ASCII ones, U+0085, U+00A0, U+1680, U+2000..U+200A, U+2028, U+2029,
       U+202F, U+205F, U+3000 - name_last_ok; until work package s8u the model trimmed ASCII only and this clause read
       "does not end in an ASCII white-space byte", which the SDK refutes on a name ending in U+00A0);
     - no name is a proper prefix of another name (of any unit) that continues with a digit or a space
       (plain prefixes such as "m" / "ms" / "mm" are fine);
     - two DIFFERENT units (base included) do not share a name.
   Unbounded in n (all of [0, max int64]) and in the definition; no sweep.  Method: the formatted
   string has a tokenisation, so the matcher answers (C16_matcher_complete_weak: fuel is enough);
   its answer is a tokenisation (C16_matcher_sound); under names_unambiguous the formatted string
   has exactly ONE tokenisation (useq_unique), whose counts are the greedy decomposition
   (C16_decompose_sum) — so leftmost-first priorities never have to be analysed. *)
Theorem C16_roundtrip_partial : forall u n,
  wf_units u = true -> names_unambiguous u = true -> 0 <= n <= max_i64 ->
  parse_units_int u (format_short_int u n) = Some n /\ parse_units_int u (format_long_int u n) = Some n.
Proof. intros u n W NU Hn. split; [exact (roundtrip_short u n W NU Hn) | exact (roundtrip_long u n W NU Hn)]. Qed.
Print Assumptions C16_roundtrip_partial.

(* the tokenisation of a formatted string is unique (the heart of the round trip), for any list
   of parts whose names are good *)
Theorem C16_tokenisation_unique : forall G, names_good G -> forall ps, incl ps G ->
  NoDup (map upart_key ps) -> bare_last ps ->
  forall ocs, Forall2 oc_valid ps ocs -> forall toks, useq ps (render ocs) toks -> toks = map otok ocs.
Proof. exact useq_unique. Qed.
Print Assumptions C16_tokenisation_unique.

(* the five built-in unit sets are unambiguous: for them the round trip holds on the WHOLE range,
   not only on the swept interval of C16_roundtrip_builtin_bounded *)
Theorem C16_roundtrip_builtin_all : forall u n, In u builtin_units -> 0 <= n <= max_i64 ->
  parse_units_int u (format_short_int u n) = Some n /\ parse_units_int u (format_long_int u n) = Some n.
Proof. exact builtin_roundtrip_all. Qed.
Print Assumptions C16_roundtrip_builtin_all.

(* non-vacuity: definitions that satisfy the hypotheses, among them one with names that are
   prefixes of each other *)
Example C16_roundtrip_nonvacuous :
  forallb (fun u => wf_units u && names_unambiguous u) builtin_units = true
  /\ wf_units w_mmm = true /\ names_unambiguous w_mmm = true
  /\ format_short_int w_mmm 3727 = "1mmm2m7mm"%string /\ parse_units_int w_mmm "1mmm2m7mm" = Some 3727.
Proof. split; [exact builtin_unambiguous | exact w_mmm_ok]. Qed.

(* Without names_unambiguous the round trip is FALSE in the faithful model — and in the SDK, which
   accepts these definitions (NewUnits validates nothing) and answers identically: a unit whose
   short name is shared prints 3600 as "1m" and reads it back as 60. *)
Theorem C16_roundtrip_arbitrary_refuted :
  exists u n, wf_units u = true /\ 0 <= n <= max_i64
    /\ exists m, parse_units_int u (format_short_int u n) = Some m /\ m <> n.
Proof. exact roundtrip_arbitrary_refuted. Qed.
Print Assumptions C16_roundtrip_arbitrary_refuted.

(* one witness per clause of names_unambiguous (each definition is wf_units, violates exactly the
   clause named, and fails to round-trip) *)
Example C16_unambiguous_clauses_needed :
  (names_unambiguous w_shared = false /\ parse_units_int w_shared (format_short_int w_shared 3600) = Some 60)
  /\ (names_unambiguous w_prefix = false /\ parse_units_int w_prefix (format_short_int w_prefix 121) = Some 120)
  /\ (names_unambiguous w_digit = false /\ parse_units_int w_digit (format_short_int w_digit 10) = Some 100)
  /\ (names_unambiguous w_trail = false /\ parse_units_int w_trail (format_short_int w_trail 5) = None)
  /\ (names_unambiguous w_dot = false /\ parse_units_int w_dot (format_short_int w_dot 180) = None)
  /\ (names_unambiguous w_point = false /\ parse_units_int w_point (format_short_int w_point 303) = None).
Proof.
  pose proof w_shared_fails. pose proof w_prefix_fails. pose proof w_digit_fails.
  pose proof w_trail_fails. pose proof w_dot_fails. pose proof w_point_fails. tauto.
Qed.

(* the Unicode twin of w_trail: a well-formed definition whose short names end in NO-BREAK SPACE (U+00A0, C2 A0).  The
   regular expression's \s never matches that character, strings.TrimSpace cuts it: FormatShortInt 5 = "5x<NBSP>" is
   refused by ParseInt (the long form, "5exes", reads back).  The SDK answers identically (family units, `D73 witnesses`).
   A name that starts with or contains the character is matched literally and round-trips (w_inner_nbsp). *)
Theorem C16_roundtrip_unicode_trail_refuted :
  exists u n, wf_units u = true /\ 0 <= n <= max_i64 /\ names_unambiguous u = false
    /\ parse_units_int u (format_short_int u n) = None /\ parse_units_int u (format_long_int u n) = Some n.
Proof. exact roundtrip_unicode_trail_refuted. Qed.
Print Assumptions C16_roundtrip_unicode_trail_refuted.

Example C16_unicode_names :
  (wf_units w_trail_nbsp = true /\ names_unambiguous w_trail_nbsp = false
   /\ parse_units_int w_trail_nbsp (format_short_int w_trail_nbsp 5) = None)
  /\ (wf_units w_inner_nbsp = true /\ names_unambiguous w_inner_nbsp = true
      /\ parse_units_int w_inner_nbsp (format_short_int w_inner_nbsp 61) = Some 61)
  /\ forallb (fun u => forallb (fun x => name_last_ok (chars x)) (all_names u)) builtin_units = true.
Proof.
  pose proof w_trail_nbsp_fails. pose proof w_inner_nbsp_ok. split; [tauto|]. split; [tauto|]. vm_compute. reflexivity.
Qed.

(* TrimSpace in the model is Go's: Unicode white space at both ends of the UTF-8 text, nothing else.  The parser's
   trimmed input is blank exactly when the text is a sequence of white-space characters (then it is refused) ... *)
Theorem C16_trim_space_blank_iff : forall s,
  chars (trim_space s) = [] <-> exists rs, Forall (fun r => is_uspace_enc r = true) rs /\ chars s = List.concat rs.
Proof. exact trim_space_blank_iff. Qed.
Print Assumptions C16_trim_space_blank_iff.

(* ... and a text that starts with a digit and does not end with a white-space character is left as it is *)
Theorem C16_trim_space_id : forall s c t, chars s = c :: t -> is_digit c = true ->
  head_sp usp2r usp3r (rev (chars s)) = false -> chars (trim_space s) = chars s.
Proof. exact trim_space_id. Qed.
Print Assumptions C16_trim_space_id.

Example C16_trim_space_examples :
  trim_space (bytes_str [194; 160; 53; 115; 227; 128; 128; 11]%Z) = "5s"%string
  /\ trim_space (bytes_str [53; 194; 160; 115]%Z) = bytes_str [53; 194; 160; 115]%Z
  /\ trim_space (bytes_str [160; 53; 133]%Z) = bytes_str [160; 53; 133]%Z
  /\ parse_units_int unit_duration_seconds (bytes_str [194; 133; 53; 115]%Z) = Some 5
  /\ parse_units_int unit_duration_seconds (bytes_str [227; 128; 128; 53; 109; 227; 128; 128]%Z) = Some 300
  /\ parse_units_int unit_duration_seconds (bytes_str [53; 194; 160; 115]%Z) = None
  /\ parse_units_int unit_duration_seconds (bytes_str [53; 11; 115]%Z) = None
  /\ parse_units_int unit_duration_seconds (bytes_str [11; 53; 115; 11]%Z) = Some 5.
Proof. vm_compute. repeat split; reflexivity. Qed.

(* (7) The float entry point at string level, ARBITRARY definitions.  A successful ParseFloat reads
   a tokenisation of its input (same template, same matcher; only the base count may carry a
   fraction) and its answer is the accumulation with the correctly rounded + and x of
   Schema/FloatUnits.v over exactly these tokens ... *)
Theorem C16_parse_float_sound : forall u s x, wf_units u = true -> parse_units_float u s = Some x ->
  exists sp0 body toks st,
    chars (trim_space s) = sp0 ++ body /\ spaces sp0 = true /\ useq (uparts u) body toks
    /\ fold_left facc (combine toks (units_keys u)) (Some (0, FZero false, false)) = Some st
    /\ x = fresult st.
Proof. exact parse_float_sound. Qed.
Print Assumptions C16_parse_float_sound.

(* ... and wherever ParseInt answers n, ParseFloat answers the correctly rounded float64 of that
   exact integer (any definition, any string): no second, diverging reading of integer inputs;
   in particular the integer formatters' output reads back through ParseFloat as float64(n). *)
Theorem C16_parse_float_of_int : forall u s n,
  parse_units_int u s = Some n -> parse_units_float u s = Some (fl_of_Z b64 n).
Proof. exact parse_float_of_int. Qed.
Print Assumptions C16_parse_float_of_int.

Theorem C16_format_int_parse_float : forall u n,
  wf_units u = true -> names_unambiguous u = true -> 0 <= n <= max_i64 ->
  parse_units_float u (format_short_int u n) = Some (fl_of_Z b64 n)
  /\ parse_units_float u (format_long_int u n) = Some (fl_of_Z b64 n).
Proof. exact format_int_parse_float. Qed.
Print Assumptions C16_format_int_parse_float.

Example C16_parse_float_nonvacuous :
  parse_units_int unit_duration_seconds "1m30s" = Some 90
  /\ parse_units_float unit_duration_seconds "1m30s" = Some (fl_of_Z b64 90)
  /\ exists x, parse_units_float unit_duration_seconds "1m 30.5 s" = Some x.
Proof. split; [vm_compute; reflexivity|]. split; [vm_compute; reflexivity|]. eexists. vm_compute. reflexivity. Qed.

(* (8) ParseInt, EXACTLY, for definitions with plain names (boolean names_plain: no digit, no
   regexp space and no point inside a name; different units share no name — the built-in sets are
   such).  Converse of C16_parse_sound: EVERY string whose trimmed form is a non-empty tokenisation
   with all counts, products and partial sums inside int64 is accepted, and the answer is the sum
   (arbitrary spaces between the pieces, leading zeros, absent units, an unnamed base count).  So
   the parser accepts precisely the well-formed strings and returns precisely their value: *)
Theorem C16_parse_complete : forall u s toks,
  wf_units u = true -> names_plain u = true -> chars (trim_space s) <> [] ->
  tokenisation u (chars (trim_space s)) toks -> in_range u toks ->
  parse_units_int u s = Some (dot (map tok_count toks) (units_keys u)).
Proof. exact parse_complete. Qed.
Print Assumptions C16_parse_complete.

Theorem C16_parse_spec : forall u s n, wf_units u = true -> names_plain u = true ->
  (parse_units_int u s = Some n
   <-> chars (trim_space s) <> []
       /\ exists toks, tokenisation u (chars (trim_space s)) toks /\ in_range u toks
                       /\ n = dot (map tok_count toks) (units_keys u)).
Proof. exact parse_spec. Qed.
Print Assumptions C16_parse_spec.

Theorem C16_parse_spec_builtin : forall u s n, In u builtin_units ->
  (parse_units_int u s = Some n
   <-> chars (trim_space s) <> []
       /\ exists toks, tokenisation u (chars (trim_space s)) toks /\ in_range u toks
                       /\ n = dot (map tok_count toks) (units_keys u)).
Proof. exact builtin_parse_spec. Qed.
Print Assumptions C16_parse_spec_builtin.

(* the tokens are a function of the string: two tokenisations of one string (up to leading
   spaces) carry the same tokens *)
Theorem C16_tokens_determined : forall G, plain_good G -> forall ps, incl ps G ->
  NoDup (map upart_key ps) -> bare_last ps ->
  forall zA zB sA sB tA tB, spaces zA = true -> spaces zB = true -> zA ++ sA = zB ++ sB ->
  useq ps sA tA -> useq ps sB tB -> tA = tB.
Proof. exact useq_det. Qed.
Print Assumptions C16_tokens_determined.

Example C16_parse_spec_nonvacuous :
  forallb (fun u => wf_units u && names_plain u) builtin_units = true
  /\ parse_units_int unit_duration_seconds " 007 days 5 m  30s " = Some 605130
  /\ parse_units_int unit_duration_seconds "5m 1H" = None
  /\ parse_units_int unit_bytes "9007199254740993PB" = None.
Proof. split; [exact builtin_plain|]. vm_compute. repeat split; reflexivity. Qed.

(* NOT proved: the float-side round trip within tolerance (see (4)); that the conditions of
   names_unambiguous are the weakest possible (they are sufficient, and each clause is needed
   in the sense of the witnesses above, but e.g. a digit-continuation hazard between two names of
   the same unit can be harmless thanks to the matcher's leftmost-first priorities). *)
