(* Properties/C15.v — ValidateCompatibility between two schemas terminates with a verdict, is
   reflexive, does not depend on map iteration order, and rejects every producer that the property
   text says can never be consumed.  Statements only; every proof is `exact <lemma>`.
   The model (Schema/Compat.v) is the code after the fixes for D01, D02, D04, D60.

   s.ValidateCompatibility(t) is `compat_schema words pu fuel e1 s e2 t`: receiver (consumer) s in
   environment e1, argument (producer) t in environment e2; `words` and `pu` are the boolean-word
   table and the units parser of the data paths the schema paths fall back to — universally
   quantified here. *)
From Coq Require Import List ZArith Bool String Permutation.
From Verif Require Import Base.Prelude Base.Str Base.Float Base.GoVal Schema.Regex Schema.Units
  Schema.Syntax Schema.Ops Schema.Compat Schema.Cbor Schema.Describe Proofs.Compat Proofs.CompatOrder Proofs.CompatSound
  Proofs.C09Behaviour Proofs.C15Rebuilt.
Import ListNotations.
Open Scope Z_scope.

(* (1) Totality.  If the receiver unfolds completely within n levels (no reference cycle is
   reachable, every reference is linked, every scope has its root) and the argument unfolds at all,
   then fuel n+2 (or more) gives a verdict — Ok or Err — never Panic, never OutOfFuel.  The bound is
   explicit: every recursive call descends one level of the receiver. *)
Theorem C15_total : forall words pu n fuel e1 s m e2 t,
  c15_unfolds n e1 s = true -> c15_unfolds m e2 t = true -> (n + 2 <= fuel)%nat ->
  is_verdict (compat_schema words pu fuel e1 s e2 t) = true.
Proof. exact compat_total. Qed.
Print Assumptions C15_total.

Example C15_total_nonvacuous :
  let o := mkOracles (fun _ => None) (fun _ => false) in
  let p := SObject "P" false [("a", c15_prop (SInt (Some 1) None None))] in
  let s := SScope [("O", SObject "O" false [("x", c15_prop (SRef "P" "" None))]); ("P", p)] "O" in
  c15_unfolds 5 (c15_env0 o) s = true /\
  compat_schema [] (fun _ _ => None) 7 (c15_env0 o) s (c15_env0 o) s = Ok tt /\
  compat_schema [] (fun _ _ => None) 7 (c15_env0 o) s (c15_env0 o) (SList SBool None None) = Err (mkErr true [] ERepr).
Proof. vm_compute. repeat split; reflexivity. Qed.

(* (1') FULL STATEMENT of the property ("returns a verdict for every pair - including recursive
   schemas") is refuted: scope(A{x: ref A}) against itself exhausts EVERY fuel; in Go this is the
   fatal stack overflow (known finding D03: no cycle guard).  The same scope against a schema of
   another kind diverges through Unserialize's one-property shorthand (D11). *)
Theorem C15_recursive_refuted : forall words pu o fuel,
  compat_schema words pu fuel (c15_env0 o) c15_rec_scope (c15_env0 o) c15_rec_scope = OutOfFuel.
Proof. exact compat_recursive_diverges. Qed.
Print Assumptions C15_recursive_refuted.

Theorem C15_recursive_data_refuted : forall words pu o fuel,
  compat_schema words pu fuel (c15_env0 o) c15_rec_scope (c15_env0 o) (SInt None None None) = OutOfFuel.
Proof. exact compat_recursive_data_diverges. Qed.
Print Assumptions C15_recursive_data_refuted.

(* (2) Reflexivity: every well-formed schema (unfolds within n levels, unique map keys, object-like
   one-of members) whose ranges are non-empty is compatible with itself. *)
Theorem C15_reflexive : forall words pu n fuel e s,
  c15_wf n e s = true -> (n <= fuel)%nat -> compat_schema words pu fuel e s e s = Ok tt.
Proof. exact compat_refl. Qed.
Print Assumptions C15_reflexive.

Example C15_reflexive_nonvacuous :
  let o := mkOracles (fun _ => None) (fun _ => false) in
  let p := SObject "P" false [("a", c15_prop (SInt (Some 1) (Some 5) None));
                               ("b", c15_prop (SEnumStr None [("x", None); ("y", Some (mkDisplay (Some "why") None None))]))] in
  let s := SScope [("O", SObject "O" false [("x", c15_prop (SList (SRef "P" "" None) (Some 0) (Some 3)))]); ("P", p)] "O" in
  c15_wf 6 (c15_env0 o) s = true.
Proof. vm_compute. reflexivity. Qed.

(* (2') without the non-empty-range condition the statement is false (known finding D05) *)
Theorem C15_reflexive_empty_range_refuted : forall words pu e fuel,
  compat_schema words pu (S fuel) e (SInt (Some 5) (Some 1) None) e (SInt (Some 5) (Some 1) None) = Err (cerr EBound).
Proof. exact empty_range_not_reflexive. Qed.
Print Assumptions C15_reflexive_empty_range_refuted.

(* (2'') "... and with a schema rebuilt from its own description".  `rebuild` / `describe` / `describable` /
   `link_ok` / `erase` are the model of SelfSerialize / UnserializeScope of C09 (Schema/Describe.v).  For EVERY
   scope s that can be described (describable, its pattern sources compile to their parsed forms, it links),
   is well-formed within n levels and has no empty range: UnserializeScope(SelfSerialize(s)) returns a schema
   s', and for every fuel >= n (the explicit bound of C15_reflexive) s accepts s', s' accepts s, and s' accepts
   itself.  All recorded library behaviour (boolean words, unit parser, character units, regexp.Compile, json)
   is universally quantified. *)
Theorem C15_reflexive_rebuilt :
  forall (words : list (string * bool)) (pu : units -> string -> option fl) (cu : units)
         (rp : string -> option re) (jor : oracles) n fuel e os root,
  let s := SScope os root in
  describable s = true ->
  (forall p, In p (pats_of s) -> rp (fst p) = Some (snd p)) ->
  link_ok jor [] s = true ->
  c15_wf n e s = true -> (n <= fuel)%nat ->
  exists s', rebuild words pu cu rp jor (describe s) = Ok s'
             /\ compat_schema words pu fuel e s e s' = Ok tt
             /\ compat_schema words pu fuel e s' e s = Ok tt
             /\ compat_schema words pu fuel e s' e s' = Ok tt.
Proof. exact compat_reflexive_rebuilt. Qed.
Print Assumptions C15_reflexive_rebuilt.

(* the same when the description travelled as CBOR, as it does in the ATP hello message (`cbor_norm k`: what
   fxamacker/cbor encode + decode into `any` makes of it, Schema/Cbor.v; any depth k) *)
Theorem C15_reflexive_rebuilt_cbor :
  forall (words : list (string * bool)) (pu : units -> string -> option fl) (cu : units)
         (rp : string -> option re) (jor : oracles) k n fuel e os root,
  let s := SScope os root in
  describable s = true ->
  (forall p, In p (pats_of s) -> rp (fst p) = Some (snd p)) ->
  link_ok jor [] s = true ->
  c15_wf n e s = true -> (n <= fuel)%nat ->
  exists s', rebuild words pu cu rp jor (cbor_norm k (describe s)) = Ok s'
             /\ compat_schema words pu fuel e s e s' = Ok tt
             /\ compat_schema words pu fuel e s' e s = Ok tt
             /\ compat_schema words pu fuel e s' e s' = Ok tt.
Proof. exact compat_reflexive_rebuilt_cbor. Qed.
Print Assumptions C15_reflexive_rebuilt_cbor.

(* the reason: ValidateCompatibility does not see what a description cannot carry (`erase`:
   TreatEmptyAsDefaultValue; a typed string enum is not describable at all, D69).  For EVERY pair of
   schemas, EVERY pair of environments and EVERY fuel, erasing the receiver, the argument, or both (each in
   its erased environment) leaves the outcome - verdict, error class and path, Panic, OutOfFuel - unchanged. *)
Theorem C15_erase_invisible : forall words pu fuel e1 s e2 t,
  compat_schema words pu fuel e1 (erase s) e2 t = compat_schema words pu fuel e1 s e2 t
  /\ compat_schema words pu fuel e1 s e2 (erase t) = compat_schema words pu fuel e1 s e2 t
  /\ compat_schema words pu fuel (erase_env e1) (erase s) (erase_env e2) (erase t) = compat_schema words pu fuel e1 s e2 t.
Proof. exact compat_schema_erase_all. Qed.
Print Assumptions C15_erase_invisible.

(* hence the rebuilt schema can replace the original on either side of ANY compatibility check - no
   well-formedness needed, recursive schemas and empty ranges included (same outcome, whatever it is) *)
Theorem C15_rebuilt_interchangeable :
  forall (words : list (string * bool)) (pu : units -> string -> option fl) (cu : units)
         (rp : string -> option re) (jor : oracles) os root,
  let s := SScope os root in
  describable s = true ->
  (forall p, In p (pats_of s) -> rp (fst p) = Some (snd p)) ->
  link_ok jor [] s = true ->
  exists s', rebuild words pu cu rp jor (describe s) = Ok s'
             /\ forall fuel e1 e2 t,
                  compat_schema words pu fuel e1 s' e2 t = compat_schema words pu fuel e1 s e2 t
                  /\ compat_schema words pu fuel e1 t e2 s' = compat_schema words pu fuel e1 t e2 s.
Proof. exact compat_rebuilt_interchangeable. Qed.
Print Assumptions C15_rebuilt_interchangeable.

(* well-formedness is itself preserved: the rebuilt schema satisfies the hypothesis of C15_reflexive *)
Theorem C15_wf_erase : forall n e s, c15_wf n (erase_env e) (erase s) = c15_wf n e s.
Proof. exact c15_wf_erase. Qed.
Print Assumptions C15_wf_erase.

(* non-vacuity: a scope with every kind of type, references, a one-of, a nested scope, a default, and five
   properties with TreatEmptyAsDefaultValue satisfies all hypotheses (n = 6); its rebuild differs from it (the
   flag is gone), is exactly what `rebuild` computes, and the verdicts are Ok *)
Example C15_reflexive_rebuilt_hypotheses :
  let e := c15_env0 c15r_jor in
  describable c15r_scope = true /\ link_ok c15r_jor [] c15r_scope = true
  /\ forallb (fun p => match c15r_rp (fst p) with Some r => true | None => false end) (pats_of c15r_scope) = true
  /\ c15_wf 6 e c15r_scope = true.
Proof. exact c15r_hypotheses. Qed.
Example C15_reflexive_rebuilt_nonvacuous :
  let e := c15_env0 c15r_jor in
  match rebuild c15r_words c15r_pu c15r_cu c15r_rp c15r_jor (describe c15r_scope) with
  | Ok s' =>
      s' = erase c15r_scope
      /\ (if schema_differs s' c15r_scope then True else False)
      /\ compat_schema c15r_words c15r_pu 6 e c15r_scope e s' = Ok tt
      /\ compat_schema c15r_words c15r_pu 6 e s' e c15r_scope = Ok tt
  | _ => False
  end.
Proof. exact c15r_instance. Qed.

(* (3) The behaviour before the fixes (kept as definitions in Schema/Compat.v), each a violation of
   the property with a concrete witness. *)
Theorem C15_prefix_D01_refuted : c15_excl_Z_prefix (Some 1) None None (Some 5) = Panic "nil pointer dereference".
Proof. exact prefix_D01_panics. Qed.
Print Assumptions C15_prefix_D01_refuted.

Theorem C15_prefix_D02_refuted :
  c15_enum_str_prefix [("a", None); ("b", None)] [("a", None); ("c", None)] = Ok tt /\
  c15_enum_str_prefix [("a", None); ("b", None)] [("c", None); ("a", None)] = Err (cerr EEnum).
Proof. exact prefix_D02_order. Qed.
Print Assumptions C15_prefix_D02_refuted.

Theorem C15_prefix_D60_refuted : c15_enum_str_of_int_prefix [("A", None)] [(65, None)] = Ok tt.
Proof. exact prefix_D60_kind. Qed.
Print Assumptions C15_prefix_D60_refuted.

(* (4) Order independence.  Go ranges over maps in an unspecified order; the model walks association
   lists in the given order.  Two association lists are the SAME Go map when both have unique keys and
   look every key up to related values (`same_map`); `sperm` closes that under the schema constructors
   (enum values, properties, one-of members, scope objects), `eperm` lifts it to environments (scope
   tables and applied namespaces).  The verdict Ok is invariant — hence, with (1), so is Err. *)
Theorem C15_order_independent : forall words pu fuel e1 s e2 t e1' s' e2' t',
  eperm e1 e1' -> sperm s s' -> eperm e2 e2' -> sperm t t' ->
  (compat_schema words pu fuel e1 s e2 t = Ok tt <-> compat_schema words pu fuel e1' s' e2' t' = Ok tt).
Proof. exact compat_order_independent. Qed.
Print Assumptions C15_order_independent.

(* every permutation of a key-unique association list is the same map *)
Theorem C15_permutation_is_same_map : forall A (l l' : list (string * A)),
  Permutation l l' -> nodup_str (map fst l) = true -> same_map eq l l'.
Proof. exact perm_same_map. Qed.
Print Assumptions C15_permutation_is_same_map.

Example C15_order_independent_nonvacuous :
  sperm (SEnumStr None [("a", None); ("b", None); ("c", None)]) (SEnumStr None [("c", None); ("a", None); ("b", None)]).
Proof.
  constructor. apply perm_same_map; [|reflexivity].
  apply Permutation_sym. apply (Permutation_cons_app [("a", None); ("b", None)] [] ("c", None)). rewrite app_nil_r. apply Permutation_refl.
Qed.

(* (5) Soundness.  `must_reject e1 s e2 t` (Proofs/CompatSound.v) is the declarative reading of the
   property text: a different base kind; element / key / value / property / member types that are
   themselves rejected; an undeclared property; a missing required property; different enforced IDs; an
   enum value outside the consumer's set; another discriminator; a missing member; ranges that cannot
   overlap — closed under references and scopes (any depth).  It implies "never Ok" for EVERY fuel and,
   with the hypotheses of (1), the verdict Err. *)
Theorem C15_must_reject_never_ok : forall words pu e1 s e2 t,
  must_reject e1 s e2 t -> forall fuel, compat_schema words pu fuel e1 s e2 t <> Ok tt.
Proof. exact compat_sound. Qed.
Print Assumptions C15_must_reject_never_ok.

Theorem C15_must_reject_is_err : forall words pu e1 s e2 t n m fuel,
  must_reject e1 s e2 t -> c15_unfolds n e1 s = true -> c15_unfolds m e2 t = true -> (n + 2 <= fuel)%nat ->
  exists e, compat_schema words pu fuel e1 s e2 t = Err e.
Proof. exact compat_sound_err. Qed.
Print Assumptions C15_must_reject_is_err.

Example C15_must_reject_nonvacuous :
  let o := mkOracles (fun _ => None) (fun _ => false) in
  let e := c15_env0 o in
  let p1 := SObject "P" false [("a", c15_prop (SInt (Some 1) (Some 5) None))] in
  let p2 := SObject "P" false [("a", c15_prop (SInt (Some 7) (Some 9) None))] in
  let s := SScope [("O", SObject "O" false [("x", c15_prop (SList (SRef "P" "" None) None None))]); ("P", p1)] "O" in
  let t := SScope [("O", SObject "O" false [("x", c15_prop (SList (SRef "P" "" None) None None))]); ("P", p2)] "O" in
  must_reject e s e t /\ c15_unfolds 8 e s = true /\ c15_unfolds 8 e t = true.
Proof.
  cbv zeta. split; [|split; vm_compute; reflexivity].
  eapply mr_scope_both; [reflexivity | reflexivity |].
  eapply mr_property_type with (n := "x"); [reflexivity | left; reflexivity |]. simpl.
  apply mr_element. eapply mr_ref_both; [reflexivity | reflexivity |].
  eapply mr_property_type with (n := "a"); [reflexivity | left; reflexivity |]. simpl.
  apply mr_disjoint_int. left. exists 5, 7. repeat split; reflexivity.
Qed.

(* one theorem per clause of the property text *)
Theorem C15_rejects_kind : forall words pu e1 s e2 t a b n m fuel,
  skind s = Some a -> tkind t = Some b -> a <> b ->
  c15_unfolds n e1 s = true -> c15_unfolds m e2 t = true -> (n + 2 <= fuel)%nat ->
  exists e, compat_schema words pu fuel e1 s e2 t = Err e.
Proof. exact sound_kind. Qed.
Print Assumptions C15_rejects_kind.

Theorem C15_rejects_element : forall words pu e1 e2 i i' a b a' b' n m fuel,
  must_reject e1 i e2 i' ->
  c15_unfolds n e1 (SList i a b) = true -> c15_unfolds m e2 (SList i' a' b') = true -> (n + 2 <= fuel)%nat ->
  exists e, compat_schema words pu fuel e1 (SList i a b) e2 (SList i' a' b') = Err e.
Proof. exact sound_element. Qed.
Print Assumptions C15_rejects_element.

Theorem C15_rejects_key : forall words pu e1 e2 k k' v v' a b a' b' n m fuel,
  must_reject e1 k e2 k' ->
  c15_unfolds n e1 (SMap k v a b) = true -> c15_unfolds m e2 (SMap k' v' a' b') = true -> (n + 2 <= fuel)%nat ->
  exists e, compat_schema words pu fuel e1 (SMap k v a b) e2 (SMap k' v' a' b') = Err e.
Proof. exact sound_key. Qed.
Print Assumptions C15_rejects_key.

Theorem C15_rejects_value : forall words pu e1 e2 k k' v v' a b a' b' n m fuel,
  must_reject e1 v e2 v' ->
  c15_unfolds n e1 (SMap k v a b) = true -> c15_unfolds m e2 (SMap k' v' a' b') = true -> (n + 2 <= fuel)%nat ->
  exists e, compat_schema words pu fuel e1 (SMap k v a b) e2 (SMap k' v' a' b') = Err e.
Proof. exact sound_value. Qed.
Print Assumptions C15_rejects_value.

Theorem C15_rejects_property_type : forall words pu e1 e2 id u ps id' u' ps' nm p p' n m fuel,
  alookup nm ps = Some p -> In (nm, p') ps' -> must_reject e1 (p_type p) e2 (p_type p') ->
  c15_unfolds n e1 (SObject id u ps) = true -> c15_unfolds m e2 (SObject id' u' ps') = true -> (n + 2 <= fuel)%nat ->
  exists e, compat_schema words pu fuel e1 (SObject id u ps) e2 (SObject id' u' ps') = Err e.
Proof. exact sound_property_type. Qed.
Print Assumptions C15_rejects_property_type.

Theorem C15_rejects_undeclared_property : forall words pu e1 e2 id u ps id' u' ps' nm p' n m fuel,
  In (nm, p') ps' -> alookup nm ps = None ->
  c15_unfolds n e1 (SObject id u ps) = true -> c15_unfolds m e2 (SObject id' u' ps') = true -> (n + 2 <= fuel)%nat ->
  exists e, compat_schema words pu fuel e1 (SObject id u ps) e2 (SObject id' u' ps') = Err e.
Proof. exact sound_undeclared_property. Qed.
Print Assumptions C15_rejects_undeclared_property.

Theorem C15_rejects_missing_required : forall words pu e1 e2 id u ps id' u' ps' nm p n m fuel,
  In (nm, p) ps -> p_required p = true -> alookup nm ps' = None ->
  c15_unfolds n e1 (SObject id u ps) = true -> c15_unfolds m e2 (SObject id' u' ps') = true -> (n + 2 <= fuel)%nat ->
  exists e, compat_schema words pu fuel e1 (SObject id u ps) e2 (SObject id' u' ps') = Err e.
Proof. exact sound_missing_required. Qed.
Print Assumptions C15_rejects_missing_required.

Theorem C15_rejects_id_mismatch : forall words pu e1 e2 id ps id' ps' n m fuel,
  id <> id' ->
  c15_unfolds n e1 (SObject id false ps) = true -> c15_unfolds m e2 (SObject id' false ps') = true -> (n + 2 <= fuel)%nat ->
  exists e, compat_schema words pu fuel e1 (SObject id false ps) e2 (SObject id' false ps') = Err e.
Proof. exact sound_id_mismatch. Qed.
Print Assumptions C15_rejects_id_mismatch.

Theorem C15_rejects_enum_value : forall words pu e1 e2 vs u vs' u' k d n m fuel,
  In (k, d) vs' -> zlookup k vs = None ->
  c15_unfolds n e1 (SEnumInt vs u) = true -> c15_unfolds m e2 (SEnumInt vs' u') = true -> (n + 2 <= fuel)%nat ->
  exists e, compat_schema words pu fuel e1 (SEnumInt vs u) e2 (SEnumInt vs' u') = Err e.
Proof. exact sound_enum_value. Qed.
Print Assumptions C15_rejects_enum_value.

Theorem C15_rejects_enum_value_str : forall words pu e1 e2 vs nm vs' nm' k d n m fuel,
  In (k, d) vs' -> alookup k vs = None ->
  c15_unfolds n e1 (SEnumStr nm vs) = true -> c15_unfolds m e2 (SEnumStr nm' vs') = true -> (n + 2 <= fuel)%nat ->
  exists e, compat_schema words pu fuel e1 (SEnumStr nm vs) e2 (SEnumStr nm' vs') = Err e.
Proof. exact sound_enum_value_str. Qed.
Print Assumptions C15_rejects_enum_value_str.

Theorem C15_rejects_discriminator : forall words pu e1 e2 ts ik fd inl ts' fd' inl' n m fuel,
  fd <> fd' ->
  c15_unfolds n e1 (SOneOf ts ik fd inl) = true -> c15_unfolds m e2 (SOneOf ts' ik fd' inl') = true -> (n + 2 <= fuel)%nat ->
  exists e, compat_schema words pu fuel e1 (SOneOf ts ik fd inl) e2 (SOneOf ts' ik fd' inl') = Err e.
Proof. exact sound_discriminator. Qed.
Print Assumptions C15_rejects_discriminator.

Theorem C15_rejects_missing_member : forall words pu e1 e2 ts ik fd inl ts' fd' inl' k mm n m fuel,
  In (k, mm) ts -> find (fun ks => okey_eqb (fst ks) k) ts' = None ->
  c15_unfolds n e1 (SOneOf ts ik fd inl) = true -> c15_unfolds m e2 (SOneOf ts' ik fd' inl') = true -> (n + 2 <= fuel)%nat ->
  exists e, compat_schema words pu fuel e1 (SOneOf ts ik fd inl) e2 (SOneOf ts' ik fd' inl') = Err e.
Proof. exact sound_missing_member. Qed.
Print Assumptions C15_rejects_missing_member.

Theorem C15_rejects_member : forall words pu e1 e2 ts ik fd inl ts' fd' inl' k mm k' mm' n m fuel,
  In (k, mm) ts -> find (fun ks => okey_eqb (fst ks) k) ts' = Some (k', mm') -> must_reject e1 mm e2 mm' ->
  c15_unfolds n e1 (SOneOf ts ik fd inl) = true -> c15_unfolds m e2 (SOneOf ts' ik fd' inl') = true -> (n + 2 <= fuel)%nat ->
  exists e, compat_schema words pu fuel e1 (SOneOf ts ik fd inl) e2 (SOneOf ts' ik fd' inl') = Err e.
Proof. exact sound_member. Qed.
Print Assumptions C15_rejects_member.

Theorem C15_rejects_disjoint_range : forall words pu e1 e2 a b u a' b' u' n m fuel,
  disjoint_Z a b a' b' ->
  c15_unfolds n e1 (SInt a b u) = true -> c15_unfolds m e2 (SInt a' b' u') = true -> (n + 2 <= fuel)%nat ->
  exists e, compat_schema words pu fuel e1 (SInt a b u) e2 (SInt a' b' u') = Err e.
Proof. exact sound_disjoint_range. Qed.
Print Assumptions C15_rejects_disjoint_range.

Theorem C15_rejects_disjoint_range_float : forall words pu e1 e2 a b u a' b' u' n m fuel,
  disjoint_F a b a' b' ->
  c15_unfolds n e1 (SFloat a b u) = true -> c15_unfolds m e2 (SFloat a' b' u') = true -> (n + 2 <= fuel)%nat ->
  exists e, compat_schema words pu fuel e1 (SFloat a b u) e2 (SFloat a' b' u') = Err e.
Proof. exact sound_disjoint_range_float. Qed.
Print Assumptions C15_rejects_disjoint_range_float.

Theorem C15_rejects_disjoint_range_string : forall words pu e1 e2 a b p a' b' p' n m fuel,
  disjoint_Z a b a' b' ->
  c15_unfolds n e1 (SString a b p) = true -> c15_unfolds m e2 (SString a' b' p') = true -> (n + 2 <= fuel)%nat ->
  exists e, compat_schema words pu fuel e1 (SString a b p) e2 (SString a' b' p') = Err e.
Proof. exact sound_disjoint_range_string. Qed.
Print Assumptions C15_rejects_disjoint_range_string.

Theorem C15_rejects_disjoint_range_list : forall words pu e1 e2 i a b i' a' b' n m fuel,
  disjoint_Z a b a' b' ->
  c15_unfolds n e1 (SList i a b) = true -> c15_unfolds m e2 (SList i' a' b') = true -> (n + 2 <= fuel)%nat ->
  exists e, compat_schema words pu fuel e1 (SList i a b) e2 (SList i' a' b') = Err e.
Proof. exact sound_disjoint_range_list. Qed.
Print Assumptions C15_rejects_disjoint_range_list.

Theorem C15_rejects_disjoint_range_map : forall words pu e1 e2 k v a b k' v' a' b' n m fuel,
  disjoint_Z a b a' b' ->
  c15_unfolds n e1 (SMap k v a b) = true -> c15_unfolds m e2 (SMap k' v' a' b') = true -> (n + 2 <= fuel)%nat ->
  exists e, compat_schema words pu fuel e1 (SMap k v a b) e2 (SMap k' v' a' b') = Err e.
Proof. exact sound_disjoint_range_map. Qed.
Print Assumptions C15_rejects_disjoint_range_map.

Theorem C15_rejects_through_reference : forall words pu e1 e2 id ns d o e1' id2 ns2 d2 o2 e2' n m fuel,
  resolve e1 id ns = Some (o, e1') -> resolve e2 id2 ns2 = Some (o2, e2') -> must_reject e1' o e2' o2 ->
  c15_unfolds n e1 (SRef id ns d) = true -> c15_unfolds m e2 (SRef id2 ns2 d2) = true -> (n + 2 <= fuel)%nat ->
  exists e, compat_schema words pu fuel e1 (SRef id ns d) e2 (SRef id2 ns2 d2) = Err e.
Proof. exact sound_through_reference. Qed.
Print Assumptions C15_rejects_through_reference.

Theorem C15_rejects_through_scope : forall words pu e1 e2 objs root o objs2 root2 o2 n m fuel,
  alookup root objs = Some o -> alookup root2 objs2 = Some o2 -> must_reject (env_enter e1 objs) o (env_enter e2 objs2) o2 ->
  c15_unfolds n e1 (SScope objs root) = true -> c15_unfolds m e2 (SScope objs2 root2) = true -> (n + 2 <= fuel)%nat ->
  exists e, compat_schema words pu fuel e1 (SScope objs root) e2 (SScope objs2 root2) = Err e.
Proof. exact sound_through_scope. Qed.
Print Assumptions C15_rejects_through_scope.
