(* Properties/C02.v — Unserialize accepts exactly the values meeting every declared value
   constraint; Validate and Serialize enforce the same on native values.  Statements only.

   Model: Schema/Ops.v (unser / validate / serialize, path by path).  Reference semantics:
   Schema/Spec.v (int_denotes, float_denotes, string_denotes, bool_denotes, accepts, native, sat),
   written from the property text.  Every theorem holds for every table of boolean words, every
   float unit parser, every environment, every fuel that is large enough, every value. *)
From Verif Require Import Base.Prelude Base.Str Base.Float Base.GoVal
  Schema.Regex Schema.Units Schema.FloatUnits Schema.Syntax Schema.Ops Schema.Spec
  Schema.SpecAny Generated.Tables Proofs.C02Scalars Proofs.C02Containers Proofs.C02 Proofs.C02Any Proofs.C02NoCollide.
Open Scope Z_scope.
Open Scope string_scope.

(* ---------- per kind ---------- *)

Theorem C02_int : forall words pu f e mn mx u v n, go_int v ->
  (unser words pu (S f) e (SInt mn mx u) v = Ok n <->
   exists z, n = vi64 z /\ int_denotes u v z /\ z_lower mn z /\ z_upper mx z).
Proof. exact c02_int. Qed.
Print Assumptions C02_int.
Example C02_int_instance :
  c02_unser 1 c02_env (SInt (Some 3) (Some 10) None) (VStr TStr "7") = Ok (vi64 7) /\
  is_err (c02_unser 1 c02_env (SInt None None None) (VInt (TInt U64) two63)) = true.
Proof. exact (conj c02_int_accepts (proj1 c02_int_rejects_2_63)). Qed.

Theorem C02_float : forall words pu f e mn mx u v n,
  unser words pu (S f) e (SFloat mn mx u) v = Ok n <->
  exists x, n = vf64 x /\ float_denotes pu u v x /\ f_lower mn x /\ f_upper mx x.
Proof. exact c02_float. Qed.
Print Assumptions C02_float.
Example C02_float_instance :
  is_err (c02_unser 1 c02_env (SFloat (Some (fl_of_Z b64 1)) (Some (fl_of_Z b64 2)) None) (VFloat TF64 FNaN)) = true /\
  is_err (c02_unser 1 c02_env (SFloat (Some (fl_of_Z b64 1)) None None) (VStr TStr "NaN")) = true /\
  c02_unser 1 c02_env (SFloat None None None) (VFloat TF64 FNaN) = Ok (vf64 FNaN).
Proof. exact c02_float_nan_rejected. Qed.

Theorem C02_string : forall words pu f e mn mx pat v n,
  unser words pu (S f) e (SString mn mx pat) v = Ok n <->
  exists t, n = vstr t /\ string_denotes v t /\ z_lower mn (blen t) /\ z_upper mx (blen t) /\ pat_ok pat t.
Proof. exact c02_string. Qed.
Print Assumptions C02_string.

Theorem C02_bool : forall words pu f e v n, go_int v ->
  (unser words pu (S f) e SBool v = Ok n <-> exists b, n = vbool b /\ bool_denotes words v b).
Proof. exact c02_bool. Qed.
Print Assumptions C02_bool.
Example C02_bool_instance : c02_unser 1 c02_env SBool (VStr TStr "YES") = Ok (vbool true).
Proof. exact c02_bool_word. Qed.

Theorem C02_pattern : forall words pu f e v n,
  unser words pu (S f) e SPattern v = Ok n <->
  exists t, n = VRegexp t /\ string_denotes v t /\ o_re_ok (e_or e) t = true.
Proof. exact c02_pattern. Qed.
Print Assumptions C02_pattern.

Theorem C02_enum_int : forall words pu f e vals u v n, go_int v ->
  (unser words pu (S f) e (SEnumInt vals u) v = Ok n <->
   exists z, n = vi64 z /\ int_denotes u v z /\ In z (map fst vals)).
Proof. exact c02_enum_int. Qed.
Print Assumptions C02_enum_int.

Theorem C02_enum_str : forall words pu f e named vals v n,
  unser words pu (S f) e (SEnumStr named vals) v = Ok n <->
  exists t, n = VStr (str_enum_type named) t /\ string_denotes v t /\ In t (map fst vals).
Proof. exact c02_enum_str. Qed.
Print Assumptions C02_enum_str.

(* the float that is "integral and in range" is characterised without reference to the code:
   fl_is_Z f z says (-1)^s * m * 2^e = z *)
Theorem C02_integral_float : forall f z,
  fl_to_i64_exact f = Some z <-> fl_is_Z f z /\ in_i64 z = true.
Proof. exact fl_to_i64_exact_spec. Qed.
Print Assumptions C02_integral_float.

(* `any`: accepts exactly the values built from the basic kinds (SpecAny.any_denotes) and returns their
   normal form; the three paths all run the same conversion *)
Theorem C02_any : forall v n, go_shape v -> ((exists f, any_conv f v = Ok n) <-> any_denotes v n).
Proof. exact any_conv_iff_denotes. Qed.
Print Assumptions C02_any.

Theorem C02_any_paths : forall words pu v, go_shape v -> forall n,
  ((exists f e, unser words pu f e SAny v = Ok n) <-> any_denotes v n) /\
  ((exists f e, serialize words pu f e SAny v = Ok n) <-> any_denotes v n) /\
  ((exists f e, validate words pu f e SAny v = Ok tt) <-> exists m, any_denotes v m).
Proof. exact any_paths. Qed.
Print Assumptions C02_any_paths.
Example C02_any_instance :
  any_conv 3 (VMap t_any_map false [(VInt (TInt U8) 2, VSlice t_any_slice false [VFloat TF32 (fl_of_Z b32 1); VStr (TNamed "MyStr" TStr) "x"])])
  = Ok (VMap t_any_map false [(vi64 2, VSlice t_any_slice false [vf64 (fl_of_Z b32 1); vstr "x"])]) /\
  is_err (any_conv 3 VNil) = true /\ is_err (any_conv 3 (VInt (TInt U64) two63)) = true.
Proof. vm_compute. repeat split. Qed.

(* ---------- containers: universally quantified over the item / key / value schemas ---------- *)

Theorem C02_list : forall words pu f e it mn mx v n,
  unser words pu (S f) e (SList it mn mx) v = Ok n <->
  exists ty nl l ns, v = VSlice ty nl l /\ z_lower mn (llen l) /\ z_upper mx (llen l) /\
    Forall2 (fun x y => unser words pu f e it x = Ok y) l ns /\ n = VSlice (TSlice (rtype it)) false ns.
Proof. exact unser_list_iff. Qed.
Print Assumptions C02_list.

Theorem C02_map : forall words pu f e ks vs mn mx v n,
  unser words pu (S f) e (SMap ks vs mn mx) v = Ok n <->
  exists ty nl kvs r, v = VMap ty nl kvs /\ z_lower mn (llen kvs) /\ z_upper mx (llen kvs) /\
    map_built (fun k k' => unser words pu f e ks k = Ok k') (fun x x' => unser words pu f e vs x = Ok x') kvs [] r /\
    n = VMap (TMap (rtype ks) (rtype vs)) false r.
Proof. exact unser_map_iff. Qed.
Print Assumptions C02_map.

(* ---------- the whole nested fragment (scalars, enums, pattern, lists, maps to any depth) ---------- *)

Theorem C02_unserialize_iff_denotes : forall words pu s, c02_schema s -> forall f e v n,
  (sdepth s < f)%nat -> go_val v ->
  (unser words pu f e s v = Ok n <-> accepts words pu e s v n).
Proof. exact unser_iff_accepts. Qed.
Print Assumptions C02_unserialize_iff_denotes.
Example C02_nested_instance :
  c02_schema c02_nested /\ maps_no_min c02_nested /\ go_val c02_nested_raw /\
  c02_unser 3 c02_env c02_nested c02_nested_raw =
  Ok (VMap (TMap TStr (TSlice (TInt I64))) false [(vstr "k", VSlice (TSlice (TInt I64)) false [vi64 5; vi64 7])]).
Proof.
  exact (conj (proj1 c02_nested_fragment) (conj (proj1 (proj2 c02_nested_fragment))
          (conj (proj2 (proj2 c02_nested_fragment)) c02_nested_accepts))).
Qed.

Theorem C02_paths_agree : forall words pu s, c02_schema s -> forall f e n,
  (sdepth s + 1 < f)%nat -> native s n ->
  (validate words pu f e s n = Ok tt <-> sat s n) /\
  ((exists w, serialize words pu f e s n = Ok w) <-> sat s n).
Proof. exact c02_paths_agree. Qed.
Print Assumptions C02_paths_agree.

(* FULL STATEMENT (what the property text says): for every schema of the fragment,
     unser ... s v = Ok n -> accepts ... s v n /\ native s n /\ sat s n.
   It is FALSE for maps that declare a minimum size: the minimum is checked on the raw entries and
   raw keys that denote the same native key collapse (C02_map_min_after_collision_refuted).  Proved
   under maps_no_min: *)
Theorem C02_result_is_denotation_partial : forall words pu s, c02_schema s -> maps_no_min s -> forall f e v n,
  (sdepth s < f)%nat -> go_val v -> unser words pu f e s v = Ok n ->
  accepts words pu e s v n /\ native s n /\ sat s n.
Proof. exact c02_result_is_denotation. Qed.
Print Assumptions C02_result_is_denotation_partial.

Theorem C02_accepted_is_valid_partial : forall words pu s, c02_schema s -> maps_no_min s -> forall f e v n,
  (sdepth s + 1 < f)%nat -> go_val v -> unser words pu f e s v = Ok n ->
  validate words pu f e s n = Ok tt /\ exists w, serialize words pu f e s n = Ok w.
Proof. exact unser_result_valid. Qed.
Print Assumptions C02_accepted_is_valid_partial.

(* the same two statements under the INPUT-level hypothesis of DESIGN section 5 - no two raw keys of a map
   denote the same native key, anywhere in the value - with NO restriction on the schema *)
Theorem C02_result_is_denotation : forall words pu s, c02_schema s -> forall f e v n,
  (sdepth s < f)%nat -> go_val v -> no_collision words pu e s v -> unser words pu f e s v = Ok n ->
  accepts words pu e s v n /\ native s n /\ sat s n.
Proof. exact result_is_denotation_nc. Qed.
Print Assumptions C02_result_is_denotation.

Theorem C02_accepted_is_valid : forall words pu s, c02_schema s -> forall f e v n,
  (sdepth s + 1 < f)%nat -> go_val v -> no_collision words pu e s v -> unser words pu f e s v = Ok n ->
  validate words pu f e s n = Ok tt /\ exists w, serialize words pu f e s n = Ok w.
Proof. exact accepted_is_valid_nc. Qed.
Print Assumptions C02_accepted_is_valid.

(* no_collision in elementary terms: it holds whenever, in every map inside the value, any two entries' keys
   denote native keys that Go's map assignment keeps apart (pairwise, later against earlier) *)
Theorem C02_distinct_keys_no_collision : forall words pu s e v,
  distinct_everywhere words pu e s v -> no_collision words pu e s v.
Proof. exact distinct_everywhere_no_collision. Qed.
Print Assumptions C02_distinct_keys_no_collision.

Theorem C02_map_min_after_collision_refuted :
  exists n, c02_schema c02_collide_schema /\ go_val c02_collide_raw /\
    c02_unser 3 c02_env c02_collide_schema c02_collide_raw = Ok n /\
    is_err (c02_validate 3 c02_env c02_collide_schema n) = true.
Proof. exact c02_map_min_after_collision. Qed.
Print Assumptions C02_map_min_after_collision_refuted.

(* ---------- blank texts ---------- *)
(* A text that consists of white space only (strings.TrimSpace leaves nothing) denotes no number.  With units the parser
   trims and THEN refuses the empty text (UnitsDefinition.parse; Schema/Units.v parse_units), strconv.ParseInt does not trim
   at all: for every unit definition (or none), every bound and every enum table, Unserialize is a constraint error - never
   the number 0.  The same text as a map key or list item is refused with that position's segment in front.
   (Seeded change C02-r2m1 = C16-r2m2 swaps the guard and the trimming and reads " " as 0.) *)
From Verif Require Import Proofs.C17 Proofs.C02Blank.

Theorem C02_blank_text_not_an_int : forall words pu f e mn mx u s, blank_text s ->
  unser words pu (S f) e (SInt mn mx u) (VStr TStr s) = Err (cerr ERepr).
Proof. exact blank_text_not_an_int. Qed.
Print Assumptions C02_blank_text_not_an_int.

Theorem C02_blank_text_not_an_enum_int : forall words pu f e vals u s, blank_text s ->
  unser words pu (S f) e (SEnumInt vals u) (VStr TStr s) = Err (cerr ERepr).
Proof. exact blank_text_not_an_enum_int. Qed.
Print Assumptions C02_blank_text_not_an_enum_int.

Theorem C02_blank_text_not_a_unit_float : forall words f e mn mx us s, blank_text s ->
  unser words parse_units_float (S f) e (SFloat mn mx (Some us)) (VStr TStr s) = Err (cerr ERepr).
Proof. exact blank_text_not_a_unit_float. Qed.
Print Assumptions C02_blank_text_not_a_unit_float.

Theorem C02_blank_text_map_key_refused : forall words pu f e mn mx u vs mn' mx' t nl kvs1 s x kvs2, blank_text s ->
  size_ok mn' mx' (zlen (kvs1 ++ (VStr TStr s, x) :: kvs2)) = true ->
  Forall (entry_ok (unser words pu (S f) e (SInt mn mx u)) (unser words pu (S f) e vs)) kvs1 ->
  unser words pu (S (S f)) e (SMap (SInt mn mx u) vs mn' mx') (VMap t nl (kvs1 ++ (VStr TStr s, x) :: kvs2))
  = Err (add_seg (mkey_seg (VStr TStr s)) (cerr ERepr)).
Proof. exact blank_text_map_key_refused. Qed.
Print Assumptions C02_blank_text_map_key_refused.

(* blank = a sequence of white-space characters of strings.TrimSpace (both directions): each piece is ONE character of
   unicode.IsSpace in UTF-8 - one of the six ASCII ones (\t \n \v \f \r space) or C2 85, C2 A0, E1 9A 80, E2 80 80..8A,
   E2 80 A8, E2 80 A9, E2 80 AF, E2 81 9F, E3 80 80 (Base/Str.v is_uspace_enc).  Before work package s8u the model trimmed
   ASCII white space only and this read  forallb is_trim_space (chars s) = true  - false of the SDK on e.g. NBSP. *)
Theorem C02_blank_text_iff_all_space : forall s,
  blank_text s <-> exists rs, Forall (fun r => is_uspace_enc r = true) rs /\ chars s = List.concat rs.
Proof. intro s. split; [exact (blank_all_space s) | exact (all_space_blank s)]. Qed.
Print Assumptions C02_blank_text_iff_all_space.

Example C02_blank_text_instance :
  blank_text " " /\ ~ blank_text " 0 " /\
  is_err (c02_unser 1 c02_env (SInt None None (Some unit_duration_seconds)) (VStr TStr " ")) = true /\
  c02_unser 1 c02_env (SInt None None (Some unit_duration_seconds)) (VStr TStr " 0 ") = Ok (vi64 0) /\
  c02_unser 1 c02_env (SInt None None (Some unit_duration_seconds)) (VStr TStr " 1m30s ") = Ok (vi64 90) /\
  is_err (c02_unser 1 c02_env (SInt None None None) (VStr TStr " 0 ")) = true.
Proof.
  split; [vm_compute; reflexivity|]. split; [vm_compute; discriminate|].
  vm_compute. repeat split; reflexivity.
Qed.

(* Unicode white space: an OUTER no-break space / NEL / U+3000 is trimmed (NBSP 5m NBSP = 300 seconds), the text made of
   them only is blank and refused; an INNER one (between count and unit) and a lone byte A0 (invalid UTF-8) are refused *)
Example C02_blank_text_unicode_instance :
  blank_text (bytes_str [194; 160]%Z) /\ blank_text (bytes_str [227; 128; 128; 194; 133]%Z) /\ ~ blank_text (bytes_str [160]%Z) /\
  is_err (c02_unser 1 c02_env (SInt None None (Some unit_duration_seconds)) (VStr TStr (bytes_str [194; 160]%Z))) = true /\
  c02_unser 1 c02_env (SInt None None (Some unit_duration_seconds)) (VStr TStr (bytes_str [194; 160; 53; 109; 194; 160]%Z)) = Ok (vi64 300) /\
  c02_unser 1 c02_env (SInt None None (Some unit_duration_seconds)) (VStr TStr (bytes_str [227; 128; 128; 53; 11]%Z)) = Ok (vi64 5) /\
  is_err (c02_unser 1 c02_env (SInt None None (Some unit_duration_seconds)) (VStr TStr (bytes_str [53; 194; 160; 109]%Z))) = true /\
  is_err (c02_unser 1 c02_env (SInt None None (Some unit_duration_seconds)) (VStr TStr (bytes_str [53; 11; 109]%Z))) = true /\
  is_err (c02_unser 1 c02_env (SInt None None (Some unit_duration_seconds)) (VStr TStr (bytes_str [160; 53]%Z))) = true.
Proof.
  split; [vm_compute; reflexivity|]. split; [vm_compute; reflexivity|]. split; [vm_compute; discriminate|].
  vm_compute. repeat split; reflexivity.
Qed.
