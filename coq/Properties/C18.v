(* Properties/C18.v — NewCallableFunction / NewDynamicCallableFunction accept a handler exactly
   when its Go signature agrees with the declaration; an accepted function returns exactly what
   its handler returned, reports the handler's error as function-reported and a call-shape
   problem as not function-reported, and never panics.  Statements only; every proof is
   `exact <lemma>`.  The model (Call/Function.v) is the code after the fixes for D35, D38, D39.

   The handler's behaviour is universally quantified: V, E are the types of its result and
   error values and `handler : list (arg V) -> hres V E` is ANY function. *)
From Coq Require Import List ZArith Bool String.
From Verif Require Import Base.Prelude Call.Function Proofs.Function.
Import ListNotations.
Open Scope list_scope.

(* (1) Acceptance, static constructor: decided by the signature alone, and exactly the
   declared shape.  Unbounded: any number of arguments / results, any types. *)
Theorem C18_accept_iff : forall d s,
  accept_static d s = true <->
  s_ins s = d_ins d /\ s_outs s = declared_outs d /\ s_variadic s = false.
Proof. exact accept_static_iff. Qed.
Print Assumptions C18_accept_iff.

(* (1') Acceptance, dynamic constructor.
   FULL STATEMENT (not provable, refuted below):
     forall di s, accept_dynamic di s = true <->
       s_ins s = di /\ s_outs s = [GAny; GErr] /\ s_variadic s = false.
   The code tests `Out(0).Kind() == reflect.Interface`, so ANY interface type is let through as
   the value result (func() (error, error), func() (fmt.Stringer, error)), not only `any`.
   Proved: the exact characterisation with "some interface type" in place of `any`
   (..._partial), the `if` direction for `any` itself, and the refutation witness. *)
Theorem C18_accept_dynamic_iff_partial : forall di s,
  accept_dynamic di s = true <->
  s_ins s = di /\ (exists t, is_interface t = true /\ s_outs s = [t; GErr]) /\ s_variadic s = false.
Proof. exact accept_dynamic_iff. Qed.
Print Assumptions C18_accept_dynamic_iff_partial.

Theorem C18_accept_dynamic_if : forall di s,
  s_ins s = di -> s_outs s = [GAny; GErr] -> s_variadic s = false -> accept_dynamic di s = true.
Proof. exact accept_dynamic_any. Qed.
Print Assumptions C18_accept_dynamic_if.

Theorem C18_accept_dynamic_iff_refuted :
  exists di s, accept_dynamic di s = true /\ s_outs s <> [GAny; GErr].
Proof. exact accept_dynamic_not_only_any. Qed.
Print Assumptions C18_accept_dynamic_iff_refuted.

(* (2) Faithfulness: the declared number of arguments, each fitting its parameter (its dynamic
   type assignable to the parameter type; nil only where the parameter has a nil) — then Call
   returns exactly the handler's value when the handler's error is nil (or it has no error
   result), and exactly the handler's error, function-reported, otherwise. *)
Theorem C18_call_faithful : forall (V E : Type) (handler : list (arg V) -> hres V E) d s f args,
  new_callable d s = Some f ->
  Forall2 (fun a p => arg_fits a p = true) args (d_ins d) ->
  call handler f args = faithful_result (has_out_of d) (d_err d) (handler args).
Proof. exact static_call_faithful. Qed.
Print Assumptions C18_call_faithful.

Theorem C18_call_faithful_dynamic : forall (V E : Type) (handler : list (arg V) -> hres V E) di s f args,
  new_dynamic di s = Some f ->
  Forall2 (fun a p => arg_fits a p = true) args di ->
  call handler f args = faithful_result true true (handler args).
Proof. exact dynamic_call_faithful. Qed.
Print Assumptions C18_call_faithful_dynamic.

(* (3) A wrong argument count is an error that is not function-reported — never a panic. *)
Theorem C18_wrong_count_is_error : forall (V E : Type) (handler : list (arg V) -> hres V E) d s f args,
  new_callable d s = Some f -> List.length args <> List.length (d_ins d) ->
  call handler f args = CErr Shape.
Proof. exact static_wrong_count. Qed.
Print Assumptions C18_wrong_count_is_error.

Theorem C18_wrong_count_is_error_dynamic : forall (V E : Type) (handler : list (arg V) -> hres V E) di s f args,
  new_dynamic di s = Some f -> List.length args <> List.length di ->
  call handler f args = CErr Shape.
Proof. exact dynamic_wrong_count. Qed.
Print Assumptions C18_wrong_count_is_error_dynamic.

(* (4) Every other call-shape problem (an argument that does not fit its parameter, including
   nil for a parameter without a nil) is likewise not function-reported. *)
Theorem C18_bad_argument_is_shape_error : forall (V E : Type) (handler : list (arg V) -> hres V E) d s f args,
  new_callable d s = Some f -> args_fit args (d_ins d) = false ->
  call handler f args = CErr Shape.
Proof. exact static_bad_argument. Qed.
Print Assumptions C18_bad_argument_is_shape_error.

Theorem C18_bad_argument_is_shape_error_dynamic : forall (V E : Type) (handler : list (arg V) -> hres V E) di s f args,
  new_dynamic di s = Some f -> args_fit args di = false ->
  call handler f args = CErr Shape.
Proof. exact dynamic_bad_argument. Qed.
Print Assumptions C18_bad_argument_is_shape_error_dynamic.

(* (5) No argument list whatsoever (any length, nil arguments, wrongly typed arguments) makes a
   function built by either constructor panic, and a function-reported error is always the
   handler's own. *)
Theorem C18_never_panics : forall (V E : Type) (handler : list (arg V) -> hres V E) f args,
  (exists d s, new_callable d s = Some f) \/ (exists di s, new_dynamic di s = Some f) ->
  is_cpanic (call handler f args) = false.
Proof. exact constructed_never_panics. Qed.
Print Assumptions C18_never_panics.

Theorem C18_reported_is_handlers_error : forall (V E : Type) (handler : list (arg V) -> hres V E) f args e,
  (exists d s, new_callable d s = Some f) \/ (exists di s, new_dynamic di s = Some f) ->
  call handler f args = CErr (Reported e) -> h_err (handler args) = Some e.
Proof. exact constructed_reported_is_handlers. Qed.
Print Assumptions C18_reported_is_handlers_error.

(* (6) "reports an error returned by the handler as function-reported", stated on its own: on a
   well-shaped call a non-nil error of the handler comes back as Reported — for EVERY error value
   (E is arbitrary), in particular for a value that itself is a call error flagged not
   function-reported (an inner call's error passed on by the handler): the flag of the value
   never replaces the attribution of the outer call. *)
Theorem C18_handler_error_is_reported : forall (V E : Type) (handler : list (arg V) -> hres V E) d s f args e,
  new_callable d s = Some f -> d_err d = true ->
  Forall2 (fun a p => arg_fits a p = true) args (d_ins d) ->
  h_err (handler args) = Some e ->
  call handler f args = CErr (Reported e).
Proof. exact static_handler_error_reported. Qed.
Print Assumptions C18_handler_error_is_reported.

Theorem C18_handler_error_is_reported_dynamic : forall (V E : Type) (handler : list (arg V) -> hres V E) di s f args e,
  new_dynamic di s = Some f ->
  Forall2 (fun a p => arg_fits a p = true) args di ->
  h_err (handler args) = Some e ->
  call handler f args = CErr (Reported e).
Proof. exact dynamic_handler_error_reported. Qed.
Print Assumptions C18_handler_error_is_reported_dynamic.

Theorem C18_nested_call_error_flag_does_not_leak :
  forall d s f args (handler : list (arg Z) -> hres Z nested_err) b k,
  new_callable d s = Some f -> d_err d = true ->
  Forall2 (fun a p => arg_fits a p = true) args (d_ins d) ->
  h_err (handler args) = Some (CallErr b k) ->
  is_function_reported (call handler f args) = Some true.
Proof. exact nested_error_flag_does_not_leak. Qed.
Print Assumptions C18_nested_call_error_flag_does_not_leak.

(* ---- non-vacuity: the hypotheses are met by real signatures and calls ---- *)
Section Examples.
  Open Scope Z_scope.
  (* func(a int64, b any, c []string) (map[string]int64, error) *)
  Let s1 := mkSig [GInt64; GAny; GSlice GString] [GMap GString GInt64; GErr] false.
  Let d1 := mkDecl [GInt64; GAny; GSlice GString] (Some (GMap GString GInt64)) true.
  Let f1 := mkFn s1 true.
  Let h_ok  : list (arg Z) -> hres Z Z := fun _ => mkHres 7 None.
  Let h_err' : list (arg Z) -> hres Z Z := fun _ => mkHres 7 (Some 13).
  (* nil for `any`, nil for a slice *)
  Let args1 : list (arg Z) := [AVal GInt64 1; ANil; ANil].

  Example C18_ex_accepted : new_callable d1 s1 = Some f1 /\ accept_static d1 s1 = true.
  Proof. split; reflexivity. Qed.
  Example C18_ex_args_fit : Forall2 (fun a p => arg_fits a p = true) args1 (d_ins d1).
  Proof. repeat constructor. Qed.
  Example C18_ex_value : call h_ok f1 args1 = COk (Some 7).
  Proof. reflexivity. Qed.
  Example C18_ex_reported : call h_err' f1 args1 = CErr (Reported 13).
  Proof. reflexivity. Qed.
  Example C18_ex_wrong_count : call h_ok f1 [AVal GInt64 1] = CErr Shape.
  Proof. reflexivity. Qed.
  Example C18_ex_wrong_type : call h_ok f1 [AVal GString 1; ANil; ANil] = CErr Shape
                           /\ call h_ok f1 [ANil; ANil; ANil] = CErr Shape.
  Proof. split; reflexivity. Qed.
  Example C18_ex_dynamic : new_dynamic [GAny] (mkSig [GAny] [GAny; GErr] false) <> None.
  Proof. discriminate. Qed.
  (* results after (any, error) are not accepted by the dynamic constructor *)
  Example C18_ex_dynamic_extra_results :
    new_dynamic [] (mkSig [] [GAny; GErr; GErr] false) = None
    /\ new_dynamic [GAny] (mkSig [GAny] [GAny; GErr; GString; GInt64] false) = None.
  Proof. split; reflexivity. Qed.
  (* a handler passing on an inner call's not-function-reported error: reported all the same *)
  Let h_nested : list (arg Z) -> hres Z nested_err := fun _ => mkHres 7 (Some (CallErr false 13)).
  Example C18_ex_nested_reported :
    call h_nested f1 args1 = CErr (Reported (CallErr false 13))
    /\ is_function_reported (call h_nested f1 args1) = Some true.
  Proof. split; reflexivity. Qed.

  (* the three repaired defects, on the model: each handler is rejected ... *)
  Example C18_ex_D35_rejected :
    accept_static (mkDecl [] (Some GInt64) true) (mkSig [] [GInt64; GStruct "error" false] false) = false
    /\ accept_static (mkDecl [] (Some GInt64) true) (mkSig [] [GInt64; GStruct "MyErr" true] false) = false.
  Proof. split; reflexivity. Qed.
  Example C18_ex_D38_rejected :
    accept_static (mkDecl [GSlice GInt64] None false) (mkSig [GSlice GInt64] [] true) = false.
  Proof. reflexivity. Qed.
  (* ... and this is why: Call on such a function would panic *)
  Example C18_ex_D35_would_panic :
    is_cpanic (call h_ok (mkFn (mkSig [] [GInt64; GStruct "error" false] false) true) []) = true.
  Proof. reflexivity. Qed.
End Examples.
