(* Properties/C12.v — C12: schema operations are pure (deterministic under map order, argument-
   preserving, history-free).  ONLY statements; proofs in Proofs/C12{Order,Lookup,Schema,Schema2,Value,Value2,History,Main}.v
   and Proofs/C12Result{Base,Unser,Ser,Wf,Main}.v.

   FULL STATEMENTS (kept visible; what is proved below is marked):

   C12_order_independent (as first written) :
     forall f e e' s s' v v', perm_env e e' -> perm_schema s s' -> perm_val v v' ->
       wf_schema e s = true -> no_key_collision v = true ->
       agree (unser f e s v) (unser f e' s' v')  /\  ... validate ... serialize ... compat ...
     where agree o o' := (is_ok o = is_ok o') /\ (forall r r', o = Ok r -> o' = Ok r' -> perm_val r r').
     The FIRST component of agree (the accept / reject decision) is PROVED under exactly these hypotheses, all four
     operations, both sides at once: C12_order_independent_verdict_partial.  It composes
     C12_schema_order_all_operations (order of every association list of the schema and of the environment's
     tables; C12_unserialize_schema_order needs well-formedness on one side only) with
     C12_value_order_all_operations (order of the entries of every map of the argument, at any depth, under
     no_key_collision).  C12_order_independent_partial and C12_schema_lookups_order_free are the loop- and
     lookup-level facts underneath (for enum value lists the whole OUTCOME is identical).
     The SECOND component (the two RESULTS are equal up to the order of map entries) is FALSE under
     `no_key_collision v` alone: C12_result_refuted (two string keys "1" and "01" under an int-keyed map: both
     read as 1, the boolean class predicate of D19 compares key TEXTS and does not see it; the Go code behaves the
     same: 400 runs of Unserialize(map[string]any{"1":"a","01":"b"}) give map[1:a] 48 times and map[1:b] 352
     times).  C12_collision_refuted (known finding D19) is the instance the predicate does see.
     PROVED with the exact hypothesis in its place: C12_order_independent - verdict AND results, Unserialize and
     Serialize (Validate and ValidateCompatibility return no value), under `keys_distinct Ub v`: at every map of
     the argument, at any depth, no two keys can be read as the same key by a conversion the operations apply to
     map keys (the int mapper under a units definition accepted by Ub, the string mapper, reflect's conversions to
     int64 / string, the `any` conversion); `map_key_units Ub e s`: the int-keyed maps of the schema read their keys
     under units accepted by Ub (Ub := any_units quantifies over every units definition, Ub := no_units is the
     schema without units on map keys); `defaults_distinct Ub`: the same for the decoded property defaults.
     The results are related by perm_val (equal up to the order of map entries at any depth).  Well-formedness is
     needed on the first description only: perm_env / perm_schema preserve wf_schema (C12_wf_order_free), so
     C12_order_independent and C12_order_independent_verdict assume `wf_schema e s` alone.

   C12_history_free :
     for the state-passing variant with ALL lazily filled caches explicit (decoded defaults per object,
     units regexp / multiplier caches), for every history h: each call's result equals its result on
     the initial cache, and the final cache is a function of the schema alone.
     PROVED (C12_history_free_partial) for the decoded-default cache, the only cache that holds data a
     caller can observe (GetDefaults) and that D43 corrupted; the units caches are pure memoisation
     inside the units parser and are not modelled as state.

   Argument preservation cannot be stated about immutable Gallina values: it is a frame condition
   observed on the implementation (canonical print of every argument before/after every call). *)
From Coq Require Import Permutation Lia.
From Verif Require Import Base.Prelude Base.Str Base.Float Base.GoVal
  Schema.Regex Schema.Units Schema.Syntax Schema.Ops Schema.Wf Schema.Perm
  Proofs.C12Order Proofs.C12Lookup Proofs.C12Schema Proofs.C12Schema2 Proofs.C12Value Proofs.C12Value2
  Proofs.C12History Proofs.C12Main
  Proofs.C12ResultBase Proofs.C12ResultUnser Proofs.C12ResultSer Proofs.C12ResultWf Proofs.C12ResultMain.
Open Scope string_scope.

Section C12.
Variable words : list (string * bool).
Variable pu : units -> string -> option fl.

Theorem C12_order_independent_partial :
  (* enum.go ranges over the value map: identical outcomes for every order, all four operations *)
  (forall vals vals' u, Permutation vals vals' -> forall f e v,
     unser words pu f e (SEnumInt vals u) v = unser words pu f e (SEnumInt vals' u) v /\
     validate words pu f e (SEnumInt vals u) v = validate words pu f e (SEnumInt vals' u) v /\
     serialize words pu f e (SEnumInt vals u) v = serialize words pu f e (SEnumInt vals' u) v /\
     compat words pu f e (SEnumInt vals u) v = compat words pu f e (SEnumInt vals' u) v) /\
  (forall n vals vals', Permutation vals vals' -> forall f e v,
     unser words pu f e (SEnumStr n vals) v = unser words pu f e (SEnumStr n vals') v /\
     validate words pu f e (SEnumStr n vals) v = validate words pu f e (SEnumStr n vals') v /\
     serialize words pu f e (SEnumStr n vals) v = serialize words pu f e (SEnumStr n vals') v /\
     compat words pu f e (SEnumStr n vals) v = compat words pu f e (SEnumStr n vals') v) /\
  (* object.go ranges over the property map for required / required_if / required_if_not / conflicts *)
  (forall props props' set set', Permutation props props' -> (forall k, set k = set' k) ->
     is_ok (check_rules props set) = is_ok (check_rules props' set')) /\
  (* every loop that stops at the first failing entry reaches the same verdict for every order *)
  (forall (A : Type) (g : A -> outcome unit) l l', Permutation l l' -> is_ok (forM_ g l) = is_ok (forM_ g l')).
Proof. exact (c12_order_partial words pu). Qed.

(* keyed lookups in the maps of the schema (PropertiesValue[k], ObjectsValue[id], TypesValue[discriminator]):
   with unique keys the entry found does not depend on the order of the association list *)
Theorem C12_schema_lookups_order_free :
  (forall (A : Type) k (l l' : list (string * A)), nodup_str (map fst l) = true -> Permutation l l' ->
     alookup k l = alookup k l') /\
  (forall (types types' : list (okey * schema)) key, nodup_by okey_eqb (map fst types) = true -> Permutation types types' ->
     find (fun ks => okey_eqb (fst ks) key) types = find (fun ks => okey_eqb (fst ks) key) types').
Proof. exact c12_lookups. Qed.

(* Unserialize: the accept / reject decision does not depend on the order of ANY association list of the
   schema (properties, enum values, one-of members, scope objects) nor of the object tables of the
   environment — the schema half of C12_order_independent, for the main entry point, by induction on the
   fuel through lists, maps, objects (defaults, presence rules, shorthand), one-ofs, references, scopes *)
Theorem C12_unserialize_schema_order : forall f e e' s s' v,
  perm_env e e' -> nodup_env e = true -> perm_schema s s' -> wf_schema e s = true ->
  is_ok (unser words pu f e s v) = is_ok (unser words pu f e' s' v).
Proof. exact (unser_schema_order words pu). Qed.

(* ... and so do Validate, Serialize and data-mode ValidateCompatibility: on two well-formed descriptions of one
   schema that differ only in the order of their association lists (properties, one-of members, scope and
   namespace tables, enum values, rule lists' carriers) all four operations take the same accept / reject
   decision on every value, at every fuel *)
Theorem C12_schema_order_all_operations : forall f e e' s s' v,
  perm_env e e' -> nodup_env e = true -> perm_schema s s' -> wf_schema e s = true -> wf_schema e' s' = true ->
  is_ok (unser words pu f e s v) = is_ok (unser words pu f e' s' v) /\
  is_ok (validate words pu f e s v) = is_ok (validate words pu f e' s' v) /\
  is_ok (serialize words pu f e s v) = is_ok (serialize words pu f e' s' v) /\
  is_ok (compat words pu f e s v) = is_ok (compat words pu f e' s' v).
Proof. exact (c12_schema_order_all words pu). Qed.

(* the value side: two arguments that differ only in the order of the entries of their maps (at any depth; Go's
   map iteration order), no two keys of one map reading the same: all four operations take the same decision *)
Theorem C12_value_order_all_operations : forall f e s v v',
  perm_val v v' -> wf_schema e s = true -> no_key_collision v = true ->
  is_ok (unser words pu f e s v) = is_ok (unser words pu f e s v') /\
  is_ok (validate words pu f e s v) = is_ok (validate words pu f e s v') /\
  is_ok (serialize words pu f e s v) = is_ok (serialize words pu f e s v') /\
  is_ok (compat words pu f e s v) = is_ok (compat words pu f e s v').
Proof. exact (c12_value_order_all words pu). Qed.

(* both sides at once: the accept / reject decision of every operation is independent of the order of every
   association list of the environment, of the schema and of the argument *)
Theorem C12_order_independent_verdict_partial : forall f e e' s s' v v',
  perm_env e e' -> nodup_env e = true -> perm_schema s s' -> perm_val v v' ->
  wf_schema e s = true -> wf_schema e' s' = true -> no_key_collision v = true ->
  is_ok (unser words pu f e s v) = is_ok (unser words pu f e' s' v') /\
  is_ok (validate words pu f e s v) = is_ok (validate words pu f e' s' v') /\
  is_ok (serialize words pu f e s v) = is_ok (serialize words pu f e' s' v') /\
  is_ok (compat words pu f e s v) = is_ok (compat words pu f e' s' v').
Proof. exact (c12_order_verdict words pu). Qed.

(* THE RESULT HALF.  Unserialize: two descriptions of one schema (any order of properties, enum values, one-of
   members, scope and namespace tables) and two arguments that differ in the order of the entries of their maps
   (any depth), keys pairwise distinct: the two results are equal up to the order of map entries.  By induction on
   the fuel; map_set folds over converted entries (key conversion is injective on distinct keys), raw_set folds over
   properties (lookups determine an association list with unique keys up to order), the discriminator put back by a
   one-of, defaults, the single-property shorthand, references and scopes. *)
Theorem C12_unserialize_results_order_free : forall (Ub : option units -> bool) f e e' s s' v v' r r',
  perm_env e e' -> nodup_env e = true -> perm_schema s s' -> perm_val v v' ->
  wf_schema e s = true -> map_key_units Ub e s = true ->
  defaults_distinct Ub (e_or e) -> keys_distinct Ub v ->
  unser words pu f e s v = Ok r -> unser words pu f e' s' v' = Ok r' -> perm_val r r'.
Proof. exact (c12_unser_result words pu). Qed.

(* ... and Serialize (no units and no defaults enter) *)
Theorem C12_serialize_results_order_free : forall (Ub : option units -> bool) f e e' s s' v v' r r',
  perm_env e e' -> nodup_env e = true -> perm_schema s s' -> perm_val v v' ->
  wf_schema e s = true -> keys_distinct Ub v ->
  serialize words pu f e s v = Ok r -> serialize words pu f e' s' v' = Ok r' -> perm_val r r'.
Proof. exact (c12_ser_result words pu). Qed.

(* well-formedness is a property of the schema up to the order of its association lists *)
Theorem C12_wf_order_free : forall e e' s s',
  perm_env e e' -> nodup_env e = true -> perm_schema s s' -> wf_schema e s = true -> wf_schema e' s' = true.
Proof. exact perm_wf_schema. Qed.

(* ... so the verdict half needs the hypothesis on one description only *)
Theorem C12_order_independent_verdict : forall f e e' s s' v v',
  perm_env e e' -> nodup_env e = true -> perm_schema s s' -> perm_val v v' ->
  wf_schema e s = true -> no_key_collision v = true ->
  is_ok (unser words pu f e s v) = is_ok (unser words pu f e' s' v') /\
  is_ok (validate words pu f e s v) = is_ok (validate words pu f e' s' v') /\
  is_ok (serialize words pu f e s v) = is_ok (serialize words pu f e' s' v') /\
  is_ok (compat words pu f e s v) = is_ok (compat words pu f e' s' v').
Proof. exact (c12_order_verdict_one_side words pu). Qed.

(* verdict AND results, every operation, both sides at once *)
Theorem C12_order_independent : forall (Ub : option units -> bool) f e e' s s' v v',
  perm_env e e' -> nodup_env e = true -> perm_schema s s' -> perm_val v v' ->
  wf_schema e s = true -> no_key_collision v = true ->
  map_key_units Ub e s = true -> defaults_distinct Ub (e_or e) -> keys_distinct Ub v ->
  (is_ok (unser words pu f e s v) = is_ok (unser words pu f e' s' v') /\
   is_ok (validate words pu f e s v) = is_ok (validate words pu f e' s' v') /\
   is_ok (serialize words pu f e s v) = is_ok (serialize words pu f e' s' v') /\
   is_ok (compat words pu f e s v) = is_ok (compat words pu f e' s' v')) /\
  (forall r r', unser words pu f e s v = Ok r -> unser words pu f e' s' v' = Ok r' -> perm_val r r') /\
  (forall r r', serialize words pu f e s v = Ok r -> serialize words pu f e' s' v' = Ok r' -> perm_val r r').
Proof. exact (c12_order_independent words pu). Qed.

(* the result half is FALSE under the boolean class predicate alone: map[string]any{"1": "a", "01": "b"} under an
   int-keyed map schema — no_key_collision holds (the key texts differ), both keys read as 1, two orders give two
   results that are not equal up to permutation (the same defect class as D19, outside its class predicate) *)
Theorem C12_result_refuted :
  exists e s v1 v2 r1 r2,
    perm_val v1 v2 /\ no_key_collision v1 = true /\ wf_schema e s = true /\ nodup_env e = true /\
    unser words pu 10 e s v1 = Ok r1 /\ unser words pu 10 e s v2 = Ok r2 /\ ~ perm_val r1 r2.
Proof. exact (c12_result_refuted words pu). Qed.

(* D19 (known finding): map[any]any{int64 1: "a", "1": "b"} under an int-keyed map schema — two orders of
   the same argument, two different results *)
Theorem C12_collision_refuted :
  exists e s v1 v2 r1 r2,
    perm_val v1 v2 /\ has_key_collision v1 = true /\
    unser words pu 10 e s v1 = Ok r1 /\ unser words pu 10 e s v2 = Ok r2 /\ ~ perm_val r1 r2.
Proof. exact (c12_collision words pu). Qed.

(* the operations use the recorded library behaviour (JSON decoding of defaults, regexp.Compile) only
   pointwise: two environments that agree on every text give identical outcomes *)
Theorem C12_oracles_pointwise : forall f e e', env_sim e e' ->
  (forall s v, unser words pu f e s v = unser words pu f e' s v) /\
  (forall s v, validate words pu f e s v = validate words pu f e' s v) /\
  (forall ts ik fld inld v, oneof_find words pu f e ts ik fld inld v = oneof_find words pu f e' ts ik fld inld v) /\
  (forall s v, serialize words pu f e s v = serialize words pu f e' s v) /\
  (forall s v, compat words pu f e s v = compat words pu f e' s v).
Proof. exact (ops_cong words pu). Qed.

(* every call of every history (fold_left over the list of calls, failing calls included) returns what it
   returns on the initial cache; the cache stays coherent; after the first call it is the table of the
   schema's decoded defaults, whatever the calls were *)
Theorem C12_history_free_partial : forall f e s texts (h : list call) (c0 : dcache),
  coherent (e_or e) c0 ->
  fst (run_history words pu f e s texts c0 h) = map (run words pu f e s) h /\
  coherent (e_or e) (snd (run_history words pu f e s texts c0 h)) /\
  (h <> [] -> snd (run_history words pu f e s texts c0 h) = fill (e_or e) c0 texts).
Proof. exact (history_free words pu). Qed.

(* ... so, started on the empty cache, the state after ANY non-empty history is one function of (environment,
   schema): the decoded table of the default texts they declare *)
Theorem C12_state_is_function_of_schema : forall f e s (h : list call), h <> [] ->
  snd (run_history words pu f e s (schema_texts e s) [] h) = fill (e_or e) [] (schema_texts e s).
Proof. exact (history_cache_is_schema_table words pu). Qed.

End C12.

Print Assumptions C12_order_independent_partial.
Print Assumptions C12_schema_lookups_order_free.
Print Assumptions C12_unserialize_schema_order.
Print Assumptions C12_schema_order_all_operations.
Print Assumptions C12_value_order_all_operations.
Print Assumptions C12_order_independent_verdict_partial.
Print Assumptions C12_unserialize_results_order_free.
Print Assumptions C12_serialize_results_order_free.
Print Assumptions C12_wf_order_free.
Print Assumptions C12_order_independent_verdict.
Print Assumptions C12_order_independent.
Print Assumptions C12_result_refuted.
Print Assumptions C12_collision_refuted.
Print Assumptions C12_oracles_pointwise.
Print Assumptions C12_history_free_partial.
Print Assumptions C12_state_is_function_of_schema.

(* ---------- non-vacuity ---------- *)
Definition ex12_prop (t : schema) (dflt : option string) : property :=
  mkProp t None false [] [] [] dflt [] false false None.
Definition ex12_obj : schema :=
  SObject "O" false [("n", ex12_prop (SInt (Some 0%Z) None None) (Some "5")); ("s", ex12_prop (SString None None None) None)].
Definition ex12_or : oracles :=
  mkOracles (fun txt => if String.eqb txt "5" then Some (VFloat TF64 (fl_of_Z b64 5)) else None) (fun _ => true).
Definition ex12_env : env := mkEnv [] [] ex12_or.
Definition ex12_pu : units -> string -> option fl := fun _ _ => None.
Definition ex12_history : list call :=
  [CUnser (VMap t_any_map false []);                       (* fills the default n = 5 *)
   CUnser (VStr TStr "oops");                              (* fails *)
   CValidate (VMap t_str_map false [(vstr "n", vi64 3)]);
   CUnser (VMap t_any_map false [])].

(* the empty cache is coherent, a history with a failing call and a default-filling call runs, and the
   final cache holds exactly the decoded default *)
Example C12_history_example :
  coherent (e_or ex12_env) [] /\
  snd (run_history [] ex12_pu 20 ex12_env ex12_obj ["5"] [] ex12_history) = [("5", Some (VFloat TF64 (fl_of_Z b64 5)))] /\
  map (fun r => match r with RUnser o => is_ok o | RValidate o => is_ok o | RSerialize o => is_ok o | RCompat o => is_ok o end)
      (fst (run_history [] ex12_pu 20 ex12_env ex12_obj ["5"] [] ex12_history)) = [true; false; true; true].
Proof.
  split; [intros txt r H; discriminate|]. split; vm_compute; reflexivity.
Qed.

Example C12_perm_example :
  Permutation [(1%Z, @None display); (2%Z, None); (3%Z, None)] [(3%Z, None); (1%Z, None); (2%Z, None)] /\
  no_key_collision (VMap t_any_map false [(vi64 1, vstr "a"); (vstr "2", vstr "b")]) = true /\
  has_key_collision (VMap t_any_map false [(vi64 1, vstr "a"); (vstr "1", vstr "b")]) = true.
Proof.
  split; [|split; vm_compute; reflexivity].
  apply Permutation_sym. apply (Permutation_cons_app [(1%Z, None); (2%Z, None)] []). reflexivity.
Qed.

Example C12_perm_schema_example :
  perm_schema (SObject "O" false [("a", ex12_prop SBool None); ("b", ex12_prop (SEnumStr None [("x", None); ("y", None)]) None)])
              (SObject "O" false [("b", ex12_prop (SEnumStr None [("y", None); ("x", None)]) None); ("a", ex12_prop SBool None)]).
Proof.
  apply (ps_object "O" false _ [("a", ex12_prop SBool None); ("b", ex12_prop (SEnumStr None [("y", None); ("x", None)]) None)]).
  - repeat constructor.
  - apply perm_swap.
Qed.

(* the value-side hypotheses are satisfiable together on a non-trivial argument: a map with two entries in two
   orders, nested under a list *)
Example C12_perm_val_example :
  perm_val (VSlice t_any_slice false [VMap t_any_map false [(vstr "a", vi64 1); (vstr "b", vi64 2)]])
           (VSlice t_any_slice false [VMap t_any_map false [(vstr "b", vi64 2); (vstr "a", vi64 1)]]) /\
  no_key_collision (VSlice t_any_slice false [VMap t_any_map false [(vstr "a", vi64 1); (vstr "b", vi64 2)]]) = true.
Proof.
  split; [|vm_compute; reflexivity].
  apply pv_slice. constructor; [|constructor].
  apply (pv_map _ _ _ [(vstr "a", vi64 1); (vstr "b", vi64 2)]).
  - repeat constructor.
  - apply perm_swap.
Qed.

(* all hypotheses of C12_order_independent_verdict_partial together, on a two-property object written in two orders (the
   enum values permuted as well) and an argument map in two orders; both are accepted *)
Definition ex12_s1 : schema :=
  SObject "O" false [("a", ex12_prop SBool None); ("b", ex12_prop (SEnumStr None [("x", None); ("y", None)]) None)].
Definition ex12_s2 : schema :=
  SObject "O" false [("b", ex12_prop (SEnumStr None [("y", None); ("x", None)]) None); ("a", ex12_prop SBool None)].
Definition ex12_v1 : gval := VMap t_any_map false [(vstr "a", vbool true); (vstr "b", vstr "x")].
Definition ex12_v2 : gval := VMap t_any_map false [(vstr "b", vstr "x"); (vstr "a", vbool true)].

Example C12_verdict_hypotheses_satisfiable :
  perm_env ex12_env ex12_env /\ nodup_env ex12_env = true /\ perm_schema ex12_s1 ex12_s2 /\ perm_val ex12_v1 ex12_v2 /\
  wf_schema ex12_env ex12_s1 = true /\ wf_schema ex12_env ex12_s2 = true /\ no_key_collision ex12_v1 = true /\
  is_ok (unser [] ex12_pu 10 ex12_env ex12_s1 ex12_v1) = true /\ is_ok (unser [] ex12_pu 10 ex12_env ex12_s2 ex12_v2) = true.
Proof.
  assert (Hs : perm_schema ex12_s1 ex12_s2).
  { apply (ps_object "O" false _ [("a", ex12_prop SBool None); ("b", ex12_prop (SEnumStr None [("y", None); ("x", None)]) None)]).
    - repeat constructor.
    - apply perm_swap. }
  assert (Hv : perm_val ex12_v1 ex12_v2).
  { apply (pv_map _ _ _ [(vstr "a", vbool true); (vstr "b", vstr "x")]); [repeat constructor | apply perm_swap]. }
  assert (He : perm_env ex12_env ex12_env).
  { split; [exists []; split; constructor|]. split; [constructor | reflexivity]. }
  split; [exact He|]. split; [vm_compute; reflexivity|]. split; [exact Hs|]. split; [exact Hv|].
  repeat split; vm_compute; reflexivity.
Qed.

(* the hypotheses of C12_order_independent's result half are satisfiable together: an int-keyed map schema, an
   argument with two entries in two orders, keys pairwise distinct; Unserialize accepts both orders and Serialize
   accepts the result *)
Example C12_result_hypotheses_satisfiable :
  perm_env c12r_env c12r_env /\ nodup_env c12r_env = true /\ perm_schema c12x_schema c12x_schema /\
  perm_val c12x_v1 c12x_v2 /\ wf_schema c12r_env c12x_schema = true /\ map_key_units no_units c12r_env c12x_schema = true /\
  defaults_distinct no_units (e_or c12r_env) /\ keys_distinct no_units c12x_v1 /\
  is_ok (unser [] (fun _ _ => None) 10 c12r_env c12x_schema c12x_v1) = true /\
  is_ok (unser [] (fun _ _ => None) 10 c12r_env c12x_schema c12x_v2) = true /\
  is_ok (serialize [] (fun _ _ => None) 10 c12r_env c12x_schema
           (VMap (TMap (TInt I64) TStr) false [(vi64 1, vstr "a"); (vi64 2, vstr "b")])) = true.
Proof. exact c12_result_hypotheses_satisfiable. Qed.

(* keys_distinct on a string-keyed argument (the input of an object) *)
Example C12_keys_distinct_example : keys_distinct no_units ex12_v1.
Proof. exact c12_keys_distinct_ex_obj. Qed.

(* ====================================================================================================
   C12_history_free with BOTH kinds of lazily filled cache as state (appended; supersedes the "partial"
   above for the history clause): the decoded property defaults (ObjectSchema.defaultValues) AND the
   unit caches (UnitsDefinition.reCache / sortedMultipliersCache).  Model: Proofs/C13Cache.v —
   `vcache` is the table of filled cells (key: KRe u | KSorted u | KJson text), `op_st` the
   state-passing form of one call: the result is evaluated THROUGH the cache (Schema/OpsC.v: the integer
   unit parser, the float unit parser `puw` and the JSON oracle all read the compiled expression / sorted
   multipliers / decoded default from the cache when present and compute them when absent), the new cache
   is the old one plus the cells `touched k` of the call, each filled with the computed value.
   `touched` is ANY function call -> cells: the theorem covers the lazy toucher of the code
   (C13Cache.touched_lazy: exactly the cells of the primitive uses the operation makes,
   Schema/FootprintOps.v), the eager one of C12History (every key of the schema), and everything between.
   `pu0 puw u` is UnitsDefinition.ParseFloat written as a function of the two cached parts
   (FloatUnits.parse_units_float = pu0 parse_units_float_with, by reflexivity). *)
From Verif Require Import Schema.FloatUnits Schema.OpsC ATP.Footprint Schema.FootprintOps Proofs.C13Cache.

(* for every history of calls (failing calls included), from every coherent cache: the results are the
   pure function's, the cache stays coherent (every cell holds the value computed from its key, i.e. from
   the schema), and nothing filled is ever overwritten *)
Theorem C12_history_free : forall words puw touched f e s (h : list call) (c0 : vcache),
  vcoherent (e_or e) c0 ->
  fst (run_history_v words puw touched f e s c0 h) = map (run words (pu0 puw) f e s) h /\
  vcoherent (e_or e) (snd (run_history_v words puw touched f e s c0 h)) /\
  (forall k v, vlookup k c0 = Some v -> vlookup k (snd (run_history_v words puw touched f e s c0 h)) = Some v).
Proof. exact history_free_v. Qed.
Print Assumptions C12_history_free.

(* the final cache is a function of the schema: what a cell holds after a history does not depend on the
   history, the toucher or the (coherent) cache it started from — two runs agree on every cell both filled,
   and the value is `vcompute` of the key (units_re / sorted_mults of the definition, o_json of the text) *)
Theorem C12_cache_cells_function_of_schema :
  forall words puw touched touched' f e s (h h' : list call) c0 c0' k v v',
  vcoherent (e_or e) c0 -> vcoherent (e_or e) c0' ->
  vlookup k (snd (run_history_v words puw touched f e s c0 h)) = Some v ->
  vlookup k (snd (run_history_v words puw touched' f e s c0' h')) = Some v' ->
  v = v' /\ v = vcompute (e_or e) k.
Proof. exact history_cells_function_of_key. Qed.
Print Assumptions C12_cache_cells_function_of_schema.

(* ... and with the eager toucher (every call decodes / compiles every key the schema and the tables it can
   reach declare — C12History's `step`, now with the unit caches) the cache after ANY non-empty history is
   literally one table, a function of (environment, schema) alone *)
Theorem C12_state_is_function_of_schema_all_caches : forall words puw f e s (h : list call) c0, h <> [] ->
  snd (run_history_v words puw (fun _ => schema_keys e s) f e s c0 h) = vfill (e_or e) c0 (schema_keys e s).
Proof. intros words puw f e s h c0. exact (history_eager_v words puw (schema_keys e s) f e s h c0). Qed.
Print Assumptions C12_state_is_function_of_schema_all_caches.

(* ---------- non-vacuity: units on the integer and on the float path, a default, a failing call ---------- *)
Definition ex12u_units : units :=
  mkUnits (mkUnit "B" "B" "byte" "bytes") [(1024%Z, mkUnit "kB" "kB" "kilobyte" "kilobytes")].
Definition ex12u_obj : schema :=
  SObject "O" false [("n", ex12_prop (SInt (Some 0%Z) None (Some ex12u_units)) (Some "5"));
                     ("x", ex12_prop (SFloat None None (Some ex12u_units)) None)].
Definition ex12u_history : list call :=
  [CUnser (VMap t_any_map false [(vstr "n", vstr "2kB")]);                    (* x absent: decodes the defaults; compiles the expression, sorts the multipliers *)
   CUnser (VMap t_any_map false [(vstr "x", vstr "1kB 1B")]);                 (* float path; n absent: its default 5 is used *)
   CUnser (VMap t_any_map false [(vstr "n", vstr "2 parsecs")]);              (* fails *)
   CUnser (VMap t_any_map false [(vstr "n", vstr "2kB")])].
Definition ex12u_touched : call -> list ckey :=
  touched_lazy [] parse_units_float_with 20 0%N (nenv0 ex12_env ex12u_obj) ex12_env ex12u_obj.

Example C12_history_all_caches_example :
  vcoherent (e_or ex12_env) [] /\
  (* the lazy toucher fills everything in the first call: x is absent, so GetDefaults decodes the object's
     default texts; then n's string compiles the expression and sorts the multipliers (newest entry first) *)
  map fst (snd (run_history_v [] parse_units_float_with ex12u_touched 20 ex12_env ex12u_obj [] ex12u_history))
    = [KSorted ex12u_units; KRe ex12u_units; KJson "5"] /\
  (* the results are those of the pure function, the third call fails, the first and last agree *)
  fst (run_history_v [] parse_units_float_with ex12u_touched 20 ex12_env ex12u_obj [] ex12u_history)
    = map (run [] parse_units_float 20 ex12_env ex12u_obj) ex12u_history /\
  map (fun r => match r with RUnser o => is_ok o | RValidate o => is_ok o | RSerialize o => is_ok o | RCompat o => is_ok o end)
      (fst (run_history_v [] parse_units_float_with ex12u_touched 20 ex12_env ex12u_obj [] ex12u_history)) = [true; true; false; true] /\
  (* the eager toucher's table is the same set of cells *)
  schema_keys ex12_env ex12u_obj = [KJson "5"; KRe ex12u_units; KSorted ex12u_units; KRe ex12u_units; KSorted ex12u_units].
Proof.
  split; [apply vcoherent_nil|]. repeat split; vm_compute; reflexivity.
Qed.
