(* Properties/C13.v — schemas are safe for concurrent use from their first use.  Model:
   ATP/Footprint.v (shared cells, guards, access traces; state-passing), at the tree repaired for
   D33.  Statements only; proofs are `exact <lemma>` (Proofs/Footprint.v).

   PARTIAL by nature (DESIGN §5 C13): Go's memory model is not formalised.  What is proved is the
   access discipline — every operation's trace touches shared cells only the way the theorem says —
   and that ANY interleaving of such traces that respects the semantics of the locks orders every
   two conflicting accesses by a release/acquire pair of their common lock (that is what Go's
   memory model calls synchronised-before).  The tie to the code is the -race engine and the
   sequential footprint correspondence (lib/props_c13.py). *)
From Coq Require Import List ZArith NArith Bool String.
From Verif Require Import Base.Prelude Base.Str ATP.Msg ATP.Footprint Proofs.Footprint.
Import ListNotations.
Open Scope list_scope.

(* (1) Footprint.  For every shape of schema (which unit definitions declare multipliers, which
   objects decode their defaults lazily), every cache state and every sequence of primitive uses of
   the shared cells an operation can make (unit parse / format, GetDefaults, setupStepData, use of
   a linked reference): the trace is lock-balanced, writes touch only cache cells (cells that have
   a guard), and every write and every read of a guarded cell happens while that guard is held. *)
Theorem C13_footprint : forall sh ps st, disciplined [] (fst (run_prims sh true st ps)) = true.
Proof. exact footprint_prims. Qed.
Print Assumptions C13_footprint.

(* what `disciplined` says, spelled out: a written cell is a cache cell with a guard ... *)
Theorem C13_footprint_writes_only_caches : forall t held c,
  disciplined held t = true -> In (Wr c) t -> exists g, guard_of c = Some g.
Proof. exact disciplined_write_guarded. Qed.
Print Assumptions C13_footprint_writes_only_caches.

(* ... and every access to a guarded cell comes after an acquisition of its guard in the same trace *)
Theorem C13_footprint_inside_guard : forall t held pre a post c g,
  disciplined held t = true -> t = pre ++ a :: post -> (a = Rd c \/ a = Wr c) -> guard_of c = Some g ->
  holds g held = true \/ exists p1 p2, pre = p1 ++ Acq g :: p2.
Proof. exact disciplined_access_inside. Qed.
Print Assumptions C13_footprint_inside_guard.

(* (2) Data-race freedom, the general lemma.  s is ANY interleaving (any number of threads, any
   length) of the threads' traces; the only assumption on the interleaving is what the runtime
   enforces: a held lock is not acquired, only the holder releases (sched_lock_ok).  If every
   thread's own trace is disciplined, then any two conflicting accesses of different threads are
   separated by a release of their cell's guard by the first thread and a later acquisition of it by
   the second: no interleaving contains two conflicting accesses unordered by the lock order. *)
Theorem C13_drf : forall s,
  sched_lock_ok [] s = true -> (forall i, disciplined [] (proj i s) = true) ->
  forall pre i a mid j b post c,
    s = pre ++ (i, a) :: mid ++ (j, b) :: post -> i <> j -> conflict a b c ->
    exists g m1 m2 m3, guard_of c = Some g /\ mid = m1 ++ (i, Rel g) :: m2 ++ (j, Acq g) :: m3.
Proof. exact drf_threads. Qed.
Print Assumptions C13_drf.

(* (3) Isolation.  A lazily filled cache returns what the code computes from the immutable part of
   the schema (`compute`), whatever the history of uses that came before: for every history the
   list of results is the list of isolated results, and the cache stays coherent. *)
Theorem C13_isolation : forall (V : Type) (compute : cell -> V) cs acc,
  coherent V compute (snd acc) ->
  fst (fold_left (vuse_acc V compute) cs acc) = fst acc ++ map compute cs /\
  coherent V compute (snd (fold_left (vuse_acc V compute) cs acc)).
Proof. exact history_isolated. Qed.
Print Assumptions C13_isolation.

(* (4) The UNREPAIRED discipline (D33) is refuted: two first-use parses on one fresh unit
   definition — each thread's trace is exactly what the unrepaired model produces — interleave, with
   no lock to stop them, so that both write reCache with nothing ordering the two writes. *)
Theorem C13_race_refuted :
  sched_lock_ok [] (race_witness 0) = true /\
  proj 1 (race_witness 0) = t_parse_prefix 0 /\ proj 2 (race_witness 0) = t_parse_prefix 0 /\
  unordered_conflict (race_witness 0).
Proof. exact race_refuted. Qed.
Print Assumptions C13_race_refuted.

(* ---- non-vacuity ---- *)
Section Examples.
  Let sh := mkShape (fun _ => true) (fun _ => true).
  (* a first-use parse, then a format, then a defaults lookup, then two arrivals of one run *)
  Let ops := units_prims 7 (UParse false) ++ units_prims 7 (UFormat false) ++ [PDefaults 3; PSetup 1 "r1"; PSetup 1 "r1"; PLink 4].
  Example C13_ex_trace :
    fst (run_prims sh true cs_empty (units_prims 7 (UParse false))) =
    [Acq (GUnits 7); Rd (CUnitsRe 7); Rd (CUnitsSorted 7); Wr (CUnitsSorted 7); Wr (CUnitsRe 7); Rel (GUnits 7);
     Acq (GUnits 7); Rd (CUnitsSorted 7); Rel (GUnits 7)].
  Proof. reflexivity. Qed.
  Example C13_ex_first_use_writes_later_use_does_not :
    let st1 := snd (run_prims sh true cs_empty ops) in
    newly_filled cs_empty st1 = [CDefaults 3; CUnitsRe 7; CUnitsSorted 7]
    /\ newly_filled st1 (snd (run_prims sh true st1 ops)) = []
    /\ existsb (fun a => match a with Wr (CUnitsRe _) | Wr (CUnitsSorted _) | Wr (CDefaults _) => true | _ => false end)
               (fst (run_prims sh true st1 ops)) = false.
  Proof. repeat split; reflexivity. Qed.
  (* two threads doing the repaired first-use parse, interleaved at the only place the lock allows *)
  Let t1 := fst (run_prims sh true cs_empty (units_prims 7 (UParse false))).
  Let s12 : list event := map (pair 1%N) t1 ++ [(2%N, Acq (GUnits 7)); (2%N, Rd (CUnitsRe 7)); (2%N, Rel (GUnits 7))].
  Example C13_ex_schedule : sched_lock_ok [] s12 = true /\ disciplined [] (proj 1 s12) = true
                            /\ disciplined [] (proj 2 s12) = true /\ sched_ok [] s12 = true.
  Proof. repeat split; reflexivity. Qed.
End Examples.
