(* Properties/C13.v — schemas are safe for concurrent use from their first use.  Model:
   ATP/Footprint.v (shared cells, guards, access traces; state-passing), at the tree repaired for
   D33.  Statements only; proofs are `exact <lemma>` (Proofs/Footprint.v).

   PARTIAL by nature (DESIGN §5 C13): Go's memory model is not formalised.  What is proved is the
   access discipline — every operation's trace touches shared cells only the way the theorem says —
   and that ANY interleaving of such traces that respects the semantics of the locks orders every
   two conflicting accesses by a release/acquire pair of their common lock (that is what Go's
   memory model calls synchronised-before).  The tie to the code is the -race engine and the
   sequential footprint correspondence (lib/props_c13.py). *)
From Coq Require Import List ZArith NArith Bool String.
From Verif Require Import Base.Prelude Base.Str ATP.Msg ATP.Footprint Proofs.Footprint.
Import ListNotations.
Open Scope list_scope.

(* (1) Footprint.  For every shape of schema (which unit definitions declare multipliers, which
   objects decode their defaults lazily), every cache state and every sequence of primitive uses of
   the shared cells an operation can make (unit parse / format, GetDefaults, setupStepData, use of
   a linked reference): the trace is lock-balanced, writes touch only cache cells (cells that have
   a guard), and every write and every read of a guarded cell happens while that guard is held. *)
Theorem C13_footprint : forall sh ps st, disciplined [] (fst (run_prims sh true st ps)) = true.
Proof. exact footprint_prims. Qed.
Print Assumptions C13_footprint.

(* what `disciplined` says, spelled out: a written cell is a cache cell with a guard ... *)
Theorem C13_footprint_writes_only_caches : forall t held c,
  disciplined held t = true -> In (Wr c) t -> exists g, guard_of c = Some g.
Proof. exact disciplined_write_guarded. Qed.
Print Assumptions C13_footprint_writes_only_caches.

(* ... and every access to a guarded cell comes after an acquisition of its guard in the same trace *)
Theorem C13_footprint_inside_guard : forall t held pre a post c g,
  disciplined held t = true -> t = pre ++ a :: post -> (a = Rd c \/ a = Wr c) -> guard_of c = Some g ->
  holds g held = true \/ exists p1 p2, pre = p1 ++ Acq g :: p2.
Proof. exact disciplined_access_inside. Qed.
Print Assumptions C13_footprint_inside_guard.

(* (2) Data-race freedom, the general lemma.  s is ANY interleaving (any number of threads, any
   length) of the threads' traces; the only assumption on the interleaving is what the runtime
   enforces: a held lock is not acquired, only the holder releases (sched_lock_ok).  If every
   thread's own trace is disciplined, then any two conflicting accesses of different threads are
   separated by a release of their cell's guard by the first thread and a later acquisition of it by
   the second: no interleaving contains two conflicting accesses unordered by the lock order. *)
Theorem C13_drf : forall s,
  sched_lock_ok [] s = true -> (forall i, disciplined [] (proj i s) = true) ->
  forall pre i a mid j b post c,
    s = pre ++ (i, a) :: mid ++ (j, b) :: post -> i <> j -> conflict a b c ->
    exists g m1 m2 m3, guard_of c = Some g /\ mid = m1 ++ (i, Rel g) :: m2 ++ (j, Acq g) :: m3.
Proof. exact drf_threads. Qed.
Print Assumptions C13_drf.

(* (3) Isolation.  A lazily filled cache returns what the code computes from the immutable part of
   the schema (`compute`), whatever the history of uses that came before: for every history the
   list of results is the list of isolated results, and the cache stays coherent. *)
Theorem C13_isolation : forall (V : Type) (compute : cell -> V) cs acc,
  coherent V compute (snd acc) ->
  fst (fold_left (vuse_acc V compute) cs acc) = fst acc ++ map compute cs /\
  coherent V compute (snd (fold_left (vuse_acc V compute) cs acc)).
Proof. exact history_isolated. Qed.
Print Assumptions C13_isolation.

(* (4) The UNREPAIRED discipline (D33) is refuted: two first-use parses on one fresh unit
   definition — each thread's trace is exactly what the unrepaired model produces — interleave, with
   no lock to stop them, so that both write reCache with nothing ordering the two writes. *)
Theorem C13_race_refuted :
  sched_lock_ok [] (race_witness 0) = true /\
  proj 1 (race_witness 0) = t_parse_prefix 0 /\ proj 2 (race_witness 0) = t_parse_prefix 0 /\
  unordered_conflict (race_witness 0).
Proof. exact race_refuted. Qed.
Print Assumptions C13_race_refuted.

(* ---- non-vacuity ---- *)
Section Examples.
  Let sh := mkShape (fun _ => true) (fun _ => true).
  (* a first-use parse, then a format, then a defaults lookup, then two arrivals of one run *)
  Let ops := units_prims 7 (UParse false) ++ units_prims 7 (UFormat false) ++ [PDefaults 3; PSetup 1 "r1"; PSetup 1 "r1"; PLink 4].
  Example C13_ex_trace :
    fst (run_prims sh true cs_empty (units_prims 7 (UParse false))) =
    [Acq (GUnits 7); Rd (CUnitsRe 7); Rd (CUnitsSorted 7); Wr (CUnitsSorted 7); Wr (CUnitsRe 7); Rel (GUnits 7);
     Acq (GUnits 7); Rd (CUnitsSorted 7); Rel (GUnits 7)].
  Proof. reflexivity. Qed.
  Example C13_ex_first_use_writes_later_use_does_not :
    let st1 := snd (run_prims sh true cs_empty ops) in
    newly_filled cs_empty st1 = [CDefaults 3; CUnitsRe 7; CUnitsSorted 7]
    /\ newly_filled st1 (snd (run_prims sh true st1 ops)) = []
    /\ existsb (fun a => match a with Wr (CUnitsRe _) | Wr (CUnitsSorted _) | Wr (CDefaults _) => true | _ => false end)
               (fst (run_prims sh true st1 ops)) = false.
  Proof. repeat split; reflexivity. Qed.
  (* two threads doing the repaired first-use parse, interleaved at the only place the lock allows *)
  Let t1 := fst (run_prims sh true cs_empty (units_prims 7 (UParse false))).
  Let s12 : list event := map (pair 1%N) t1 ++ [(2%N, Acq (GUnits 7)); (2%N, Rd (CUnitsRe 7)); (2%N, Rel (GUnits 7))].
  Example C13_ex_schedule : sched_lock_ok [] s12 = true /\ disciplined [] (proj 1 s12) = true
                            /\ disciplined [] (proj 2 s12) = true /\ sched_ok [] s12 = true.
  Proof. repeat split; reflexivity. Qed.
End Examples.

(* ====================================================================================================
   (5) WHOLE SCHEMA OPERATIONS (appended).  Schema/FootprintOps.v maps Unserialize / Validate / Serialize /
   ValidateCompatibility(data) on a schema — following Schema/Ops.v branch by branch, stopping at the first
   error exactly where Ops.v stops — to the sequence of primitive cache uses they make (`prims_*`; nodes of
   the schema term are numbered, a cell belongs to a node).  The sequential footprint family compares the
   cells the model says each operation fills with the cells the Go code filled (lib/props_c13.py). *)
From Verif Require Import Base.Float Base.GoVal Schema.Regex Schema.Units Schema.FloatUnits Schema.Syntax Schema.Ops
  Schema.FootprintOps Proofs.C13Cache Proofs.C13Ops.
From Verif Require Proofs.C12History.

(* for every schema (well-formed or not), environment, operation, argument, fuel, shape and cache state the
   access trace of the operation's primitive uses is disciplined: corollary of C13_footprint.  With C13_drf:
   any number of threads running any schema operations on one shared schema are data-race free. *)
Theorem C13_footprint_ops : forall words pu sh st f e s v,
  disciplined [] (fst (run_prims sh true st (prims_unser words pu f e s v))) = true /\
  disciplined [] (fst (run_prims sh true st (prims_validate words pu f e s v))) = true /\
  disciplined [] (fst (run_prims sh true st (prims_serialize words pu f e s v))) = true /\
  disciplined [] (fst (run_prims sh true st (prims_compat words pu f e s v))) = true.
Proof. exact footprint_ops. Qed.
Print Assumptions C13_footprint_ops.

(* first use fills, later use fills nothing: after ANY sequence of primitive uses started from a closed
   state (the empty one is closed: `closed` says a compiled expression implies sorted multipliers, which
   updateReCache guarantees) a second run of the same uses fills no cell *)
Theorem C13_later_use_fills_nothing : forall sh fx ps st, closed sh st ->
  let st1 := snd (run_prims sh fx st ps) in
  newly_filled st1 (snd (run_prims sh fx st1 ps)) = [].
Proof. exact second_run_fills_nothing. Qed.
Print Assumptions C13_later_use_fills_nothing.

(* ISOLATION of whole operations: the state-passing form of an operation (Proofs/C13Cache.v: `op_st` —
   the result evaluated THROUGH the caches of compiled unit expressions, sorted multipliers and decoded
   defaults, Schema/OpsC.v; the new cache = the old one plus the cells `touched k`), started from ANY
   coherent cache state, returns exactly what the pure function of Schema/Ops.v returns, leaves a
   coherent cache and overwrites nothing.  `touched` is arbitrary, in particular
   C13Cache.touched_lazy = the cells of the operation's own primitive uses. *)
Theorem C13_isolation_ops : forall words puw touched f e s c (k : C12History.call),
  vcoherent (e_or e) c ->
  fst (op_st words puw touched f e s c k) = C12History.run words (pu0 puw) f e s k /\
  vcoherent (e_or e) (snd (op_st words puw touched f e s c k)) /\
  (forall k' v, vlookup k' c = Some v -> vlookup k' (snd (op_st words puw touched f e s c k)) = Some v).
Proof. exact op_st_isolated. Qed.
Print Assumptions C13_isolation_ops.

(* ---- non-vacuity: a scope whose object has an int property with units and a default, and a list of
   ints with units; node numbers: scope 0, object 1, n 2, l 3, its item 4 ---- *)
Definition ex13_u : units :=
  mkUnits (mkUnit "B" "B" "byte" "bytes") [(1024%Z, mkUnit "kB" "kB" "kilobyte" "kilobytes")].
Definition ex13_prop (t : schema) (dflt : option string) : property :=
  mkProp t None false [] [] [] dflt [] false false None.
Definition ex13_scope : schema :=
  SScope [("O", SObject "O" false [("n", ex13_prop (SInt None None (Some ex13_u)) (Some "5"));
                                   ("l", ex13_prop (SList (SInt None None (Some ex13_u)) None None) None)])] "O".
Definition ex13_or : oracles :=
  mkOracles (fun txt => if String.eqb txt "5" then Some (VFloat TF64 (fl_of_Z b64 5)) else None) (fun _ => true).
Definition ex13_env : env := mkEnv [] [] ex13_or.
Definition ex13_v : gval := VMap t_any_map false [(vstr "l", VSlice t_any_slice false [vstr "2kB"; vstr "3 B"])].
Definition ex13_bad : gval := VMap t_any_map false [(vstr "l", VSlice t_any_slice false [vstr "2kB"; vstr "x"; vstr "3 B"])].

Example C13_ex_ops_prims :
  (* n is absent: one GetDefaults on object 1; then the two strings of the list, both on definition 4 *)
  prims_unser [] parse_units_float 20 ex13_env ex13_scope ex13_v = [PDefaults 1; PRe 4; PSorted 4; PRe 4; PSorted 4]
  (* the second item is rejected (after it went through the caches): the third is never looked at *)
  /\ prims_unser [] parse_units_float 20 ex13_env ex13_scope ex13_bad = [PDefaults 1; PRe 4; PSorted 4; PRe 4; PSorted 4]
  /\ is_ok (unser [] parse_units_float 20 ex13_env ex13_scope ex13_bad) = false
  (* Validate never parses a string with units and never asks for defaults *)
  /\ prims_validate [] parse_units_float 20 ex13_env ex13_scope ex13_v = [].
Proof. repeat split; vm_compute; reflexivity. Qed.

Example C13_ex_ops_fill :
  let xs := xprims_unser [] parse_units_float false 20 0 (nenv0 ex13_env ex13_scope) ex13_env ex13_scope ex13_v in
  let sh := shape_of xs true in
  let st1 := snd (run_prims sh true cs_empty (map prim_of xs)) in
  newly_filled cs_empty st1 = [CUnitsRe 4; CUnitsSorted 4; CDefaults 1]
  /\ newly_filled st1 (snd (run_prims sh true st1 (map prim_of xs))) = [].
Proof. repeat split; vm_compute; reflexivity. Qed.

Example C13_ex_isolation :
  let c := vfill ex13_or [] [KRe ex13_u; KJson "5"] in
  let touched := touched_lazy [] parse_units_float_with 20 0 (nenv0 ex13_env ex13_scope) ex13_env ex13_scope in
  vcoherent ex13_or c
  /\ fst (op_st [] parse_units_float_with touched 20 ex13_env ex13_scope c (C12History.CUnser ex13_v))
     = C12History.run [] parse_units_float 20 ex13_env ex13_scope (C12History.CUnser ex13_v)
  /\ map fst (snd (op_st [] parse_units_float_with touched 20 ex13_env ex13_scope c (C12History.CUnser ex13_v)))
     = [KSorted ex13_u; KJson "5"; KRe ex13_u]
  /\ is_ok (unser [] parse_units_float 20 ex13_env ex13_scope ex13_v) = true.
Proof.
  split; [apply vfill_coherent, vcoherent_nil|]. repeat split; vm_compute; reflexivity.
Qed.

(* `op_st` reads the cache as it was when the call started.  In the code a cell may be filled — by this
   call or by another thread — between two reads of one call.  Let EVERY READ find its own cache state
   (any function of what is read: the state found by the integer / float unit parser on (definition, text),
   the state found when a default text is looked up), all coherent: the call still returns exactly what
   the pure function returns. *)
Theorem C13_isolation_ops_any_read_state :
  forall words puw st_int st_float st_json f e s (k : C12History.call),
  (forall u x, vcoherent (e_or e) (st_int u x)) -> (forall u x, vcoherent (e_or e) (st_float u x)) ->
  (forall t, vcoherent (e_or e) (st_json t)) ->
  run_r words puw st_int st_float st_json f e s k = C12History.run words (pu0 puw) f e s k.
Proof. exact run_r_coherent. Qed.
Print Assumptions C13_isolation_ops_any_read_state.

Example C13_ex_any_read_state :
  (* reads of the integer parser find the expression already compiled, reads of defaults find an empty cache *)
  let st_int := fun (_ : units) (_ : string) => vfill ex13_or [] [KRe ex13_u; KSorted ex13_u] in
  (forall u x, vcoherent ex13_or (st_int u x)) /\
  run_r [] parse_units_float_with st_int (fun _ _ => []) (fun _ => []) 20 ex13_env ex13_scope (C12History.CUnser ex13_v)
  = C12History.run [] parse_units_float 20 ex13_env ex13_scope (C12History.CUnser ex13_v).
Proof.
  split; [intros; apply vfill_coherent, vcoherent_nil | vm_compute; reflexivity].
Qed.

(* ====================================================================================================
   (6) A FAILED CALL LEAVES NO LOCK HELD (appended; Proofs/C13Locks.v).  `held_after held t` = the locks one
   thread holds after its trace t.  `disciplined [] t` already says that t is lock-balanced; spelled out: *)
From Verif Require Import Proofs.C13Locks.

Theorem C13_disciplined_releases_all : forall t held, disciplined held t = true -> held_after held t = [].
Proof. exact disciplined_releases_all. Qed.
Print Assumptions C13_disciplined_releases_all.

(* every call - ANY sequence of primitive uses of the shared cells (the prims_* of Schema/FootprintOps.v stop at
   the first error exactly where the failing operation stops) - holds no lock when it returns ... *)
Theorem C13_call_holds_no_lock : forall sh st ps, held_after [] (fst (run_prims sh true st ps)) = [].
Proof. exact call_holds_no_lock. Qed.
Print Assumptions C13_call_holds_no_lock.

(* ... also when it ends INSIDE a critical section: a section of ANY guard whose body (reads / writes of cells
   of that guard) is abandoned after ANY number k of accesses by a panic - json decoding of an unparsable
   default inside GetDefaults, recovered by the loader and turned into the `invalid schema` error - releases
   its lock, because the code unlocks with `defer` (guarded_defer): the failed call's trace is disciplined
   and holds no lock at its end. *)
Theorem C13_failed_call_holds_no_lock : forall sh st ps g body k, body_ok g body ->
  disciplined [] (fst (run_prims sh true st ps) ++ guarded_defer g body k) = true /\
  held_after [] (fst (run_prims sh true st ps) ++ guarded_defer g body k) = [].
Proof. intros; split; [apply failed_call_disciplined | apply failed_call_holds_no_lock]; assumption. Qed.
Print Assumptions C13_failed_call_holds_no_lock.

(* per schedule: after ANY interleaving (any number of threads, any length) of complete disciplined traces -
   failed calls included, by the theorem above - that respects the semantics of the locks, NO lock is held:
   whatever another goroutine wants to acquire next on whatever instance, it can. *)
Theorem C13_no_lock_left : forall s,
  sched_lock_ok [] s = true -> (forall i, disciplined [] (proj i s) = true) ->
  run_locks [] s = [] /\ forall g, holder g (run_locks [] s) = None.
Proof. intros s H1 H2; split; [apply no_lock_left | intro g; apply later_acquire_possible]; assumption. Qed.
Print Assumptions C13_no_lock_left.

(* the discipline with an explicit Unlock after the body instead of `defer` is refuted: the GetDefaults of
   object 0 whose decode panics keeps the package-level defaults lock, its trace is not disciplined, and the
   GetDefaults of ANOTHER object by another thread can never start (with defer it can). *)
Theorem C13_explicit_unlock_refuted :
  held_after [] (defaults_fail_trace_explicit 0) = [GDefaults] /\
  disciplined [] (defaults_fail_trace_explicit 0) = false /\
  sched_lock_ok [] (map (pair 1%N) (defaults_fail_trace_explicit 0) ++ [(2%N, Acq GDefaults)]) = false /\
  sched_lock_ok [] (map (pair 1%N) (defaults_fail_trace 0) ++
                    map (pair 2%N) (fst (run_prim (mkShape (fun _ => true) (fun _ => true)) true cs_empty (PDefaults 1)))) = true.
Proof. exact explicit_unlock_refuted. Qed.
Print Assumptions C13_explicit_unlock_refuted.

(* ---- non-vacuity: the failing GetDefaults of the model, after a first-use parse, followed by another thread's
   lookups on another object ---- *)
Example C13_ex_failed_call :
  let sh := mkShape (fun _ => true) (fun _ => true) in
  body_ok GDefaults [Rd (CDefaults 3); Wr (CDefaults 3)] /\
  fst (run_prims sh true cs_empty [PDefaults 2]) ++ guarded_defer GDefaults [Rd (CDefaults 3); Wr (CDefaults 3)] 1
  = [Acq GDefaults; Rd (CDefaults 2); Rel GDefaults; Acq GDefaults; Rd (CDefaults 2); Wr (CDefaults 2); Rel GDefaults;
     Acq GDefaults; Rd (CDefaults 3); Rel GDefaults] /\
  defaults_fail_trace 3 = [Acq GDefaults; Rd (CDefaults 3); Rel GDefaults; Acq GDefaults; Rd (CDefaults 3); Rel GDefaults] /\
  let s := map (pair 1%N) (defaults_fail_trace 3) ++ map (pair 2%N) (fst (run_prims sh true cs_empty [PDefaults 4; PRe 7])) in
  sched_lock_ok [] s = true /\ disciplined [] (proj 1 s) = true /\ disciplined [] (proj 2 s) = true /\ run_locks [] s = [].
Proof.
  split.
  - intros a [<- | [<- | []]]; eexists; split; eauto.
  - repeat split; reflexivity.
Qed.
