(* Properties/C17.v — a rejection names the offending element: the error is a constraint error
   whose path leads to the bad field.  Statements only.

   Model: Schema/Ops.v (unser / validate with the path segments of schema/{list,map,object,oneof}.go).
   fault_u / fault_v (Proofs/C17.v) place ONE offending element at a position inside an otherwise
   acceptable value; the position is spelled by the segments the SDK uses ("[i]", "{k}", "[k]").

   FULL STATEMENT (DESIGN §5):  forall s v p c, accepted s v -> fault_at v p c v' ->
     unser ... s v' = Err e /\ e_constraint e = true /\ strip_markers (e_path e) = path_segments p
   for every schema.  PROVED below for every nesting depth of the leaf / list / map kinds and every
   corruption (wrong type, below min, above max, not in enum, pattern miss, wrong size: whatever
   makes the leaf's or the container's own check fail), for Unserialize and Validate, including
   independence of the map iteration order; the container lemmas are universally quantified over
   the child schema, so they also cover children that are objects or one-ofs.
   C17_single_fault_path_unserialize extends this for Unserialize to objects given as maps, one-ofs,
   references and scopes; C17_single_fault_path_validate_objects_partial for Validate to objects,
   references and scopes; C17_single_fault_path_validate (modulo the {oneof[k]} markers) adds one-ofs:
   selection failures, faults the member's compatibility pre-check reports (C17_compat_single_fault_path,
   the pre-check's own position relation fault_c) and faults the member's Validate reports.
   C17_single_fault_path_serialize is the same for Serialize (no marker there); C17_any_single_fault_path
   reaches inside the value of an `any` schema (a position of all three relations; model of fix D53).
   What stays outside the theorems: struct-mapped objects, `any` values below a one-of on the Validate /
   Serialize side (the pre-check reads them by rules of its own), and - for Validate - values that are
   not in native form at all; those are the direct check's and the correspondence's business (family
   c17, paths compared; struct-mapped objects: family c17struct, paths compared with Schema/XOps.v
   through Interp/RunC17.run_c17x_case). *)
From Coq Require Import Permutation.
From Verif Require Import Base.Prelude Base.Str Base.Float Base.GoVal
  Schema.Regex Schema.Units Schema.FloatUnits Schema.Syntax Schema.Ops Generated.Tables
  Proofs.C02Containers Proofs.C17 Proofs.C17Object Proofs.C17ObjectU Proofs.C17Compat Proofs.C17OneOfV Proofs.C17Serialize Proofs.C17Any Proofs.C17Order.
Open Scope Z_scope.
Open Scope string_scope.

(* a child's constraint error comes back with exactly one more segment in front *)
Theorem C17_seg_prepends : forall A s (o : outcome A) p c,
  o = Err (mkErr true p c) -> seg s o = Err (mkErr true (s :: p) c).
Proof. intros A s o p c ->. reflexivity. Qed.
Print Assumptions C17_seg_prepends.

(* every leaf failure is a constraint error with the empty path (Unserialize / Validate) *)
Theorem C17_leaf_errors_unser : forall words pu s, is_leaf s -> forall f e v,
  (exists n, unser words pu (S f) e s v = Ok n) \/ (exists c, unser words pu (S f) e s v = Err (cerr c)).
Proof. exact leaf_unser_outcome. Qed.
Print Assumptions C17_leaf_errors_unser.

Theorem C17_leaf_errors_validate : forall words pu s, is_leaf s -> forall f e v,
  validate words pu (S f) e s v = Ok tt \/ (exists c, validate words pu (S f) e s v = Err (cerr c)).
Proof. exact leaf_validate_outcome. Qed.
Print Assumptions C17_leaf_errors_validate.

(* containers, for ANY child schema (objects and one-ofs included) *)
Theorem C17_list_item_error : forall words pu f e it mn mx t nl l1 x l2 er,
  size_ok mn mx (zlen (l1 ++ x :: l2)) = true ->
  Forall (fun y => exists n, unser words pu f e it y = Ok n) l1 ->
  unser words pu f e it x = Err er ->
  unser words pu (S f) e (SList it mn mx) (VSlice t nl (l1 ++ x :: l2)) = Err (add_seg (idx_seg (zlen l1)) er).
Proof. exact unser_list_item_error. Qed.
Print Assumptions C17_list_item_error.

Theorem C17_map_key_error : forall words pu f e ks vs mn mx t nl kvs1 k x kvs2 er,
  size_ok mn mx (zlen (kvs1 ++ (k, x) :: kvs2)) = true ->
  Forall (entry_ok (unser words pu f e ks) (unser words pu f e vs)) kvs1 ->
  unser words pu f e ks k = Err er ->
  unser words pu (S f) e (SMap ks vs mn mx) (VMap t nl (kvs1 ++ (k, x) :: kvs2)) = Err (add_seg (mkey_seg k) er).
Proof. exact unser_map_key_error. Qed.
Print Assumptions C17_map_key_error.

Theorem C17_map_value_error : forall words pu f e ks vs mn mx t nl kvs1 k x kvs2 er,
  size_ok mn mx (zlen (kvs1 ++ (k, x) :: kvs2)) = true ->
  Forall (entry_ok (unser words pu f e ks) (unser words pu f e vs)) kvs1 ->
  (exists k', unser words pu f e ks k = Ok k') -> unser words pu f e vs x = Err er ->
  unser words pu (S f) e (SMap ks vs mn mx) (VMap t nl (kvs1 ++ (k, x) :: kvs2)) = Err (add_seg (mval_seg k) er).
Proof. exact unser_map_value_error. Qed.
Print Assumptions C17_map_value_error.

(* with a single fault the first error IS the fault, whatever order Go iterates the map in *)
Theorem C17_map_order_irrelevant : forall words pu e f ks vs mn mx t nl kvs1 k x kvs2 kvs' er,
  size_ok mn mx (zlen (kvs1 ++ (k, x) :: kvs2)) = true ->
  Forall (entry_ok (unser words pu f e ks) (unser words pu f e vs)) kvs1 ->
  Forall (entry_ok (unser words pu f e ks) (unser words pu f e vs)) kvs2 ->
  (unser words pu f e ks k = Err er \/ (exists k', unser words pu f e ks k = Ok k') /\ unser words pu f e vs x = Err er) ->
  Permutation (kvs1 ++ (k, x) :: kvs2) kvs' ->
  unser words pu (S f) e (SMap ks vs mn mx) (VMap t nl kvs') =
  unser words pu (S f) e (SMap ks vs mn mx) (VMap t nl (kvs1 ++ (k, x) :: kvs2)).
Proof. exact map_order_irrelevant_unser. Qed.
Print Assumptions C17_map_order_irrelevant.

(* the same for the other places where Go iterates a map: Validate of a map value, the properties present in an
   object given as a map (Validate), a map inside an `any` value (all three entry points) *)
Theorem C17_map_order_irrelevant_validate : forall words pu e f ks vs mn mx t nl kvs1 k x kvs2 kvs' er,
  size_ok mn mx (zlen (kvs1 ++ (k, x) :: kvs2)) = true ->
  Forall (ventry_ok words pu f e ks vs) kvs1 -> Forall (ventry_ok words pu f e ks vs) kvs2 ->
  (validate words pu f e ks k = Err er \/ validate words pu f e ks k = Ok tt /\ validate words pu f e vs x = Err er) ->
  Permutation (kvs1 ++ (k, x) :: kvs2) kvs' ->
  validate words pu (S f) e (SMap ks vs mn mx) (VMap t nl kvs') =
  validate words pu (S f) e (SMap ks vs mn mx) (VMap t nl (kvs1 ++ (k, x) :: kvs2)).
Proof. exact map_order_irrelevant_validate. Qed.
Print Assumptions C17_map_order_irrelevant_validate.

Theorem C17_object_order_irrelevant_validate : forall words pu e f id un props r1 name x r2 r' p er,
  check_rules props (fun k => amem k (r1 ++ (name, x) :: r2)%list) = Ok tt ->
  Forall (prop_ok words pu f e props) r1 -> Forall (prop_ok words pu f e props) r2 ->
  alookup name props = Some p -> validate words pu f e (p_type p) x = Err er ->
  Permutation (r1 ++ (name, x) :: r2)%list r' ->
  validate words pu (S f) e (SObject id un props) (raw_to_val r') =
  validate words pu (S f) e (SObject id un props) (raw_to_val (r1 ++ (name, x) :: r2)%list).
Proof. exact object_order_irrelevant_validate. Qed.
Print Assumptions C17_object_order_irrelevant_validate.

Theorem C17_any_map_order_irrelevant : forall f t nl kvs1 k x kvs2 kvs' er,
  kind_of_type t = KMap ->
  Forall (any_entry_ok (any_conv f)) kvs1 -> Forall (any_entry_ok (any_conv f)) kvs2 ->
  (any_conv f k = Err er \/ (exists k', any_conv f k = Ok k') /\ any_conv f x = Err er) ->
  Permutation (kvs1 ++ (k, x) :: kvs2) kvs' ->
  any_conv (S f) (VMap t nl kvs') = any_conv (S f) (VMap t nl (kvs1 ++ (k, x) :: kvs2)).
Proof. exact any_map_order_irrelevant. Qed.
Print Assumptions C17_any_map_order_irrelevant.

(* the path of the error is the path to the fault: by induction on the position *)
Theorem C17_single_fault_path_partial : forall words pu e f s v p, fault_u words pu e f s v p ->
  exists c, unser words pu f e s v = Err (mkErr true p c).
Proof. exact single_fault_path_unser. Qed.
Print Assumptions C17_single_fault_path_partial.

Theorem C17_single_fault_path_validate_partial : forall words pu e f s v p, fault_v words pu e f s v p ->
  exists c, validate words pu f e s v = Err (mkErr true p c).
Proof. exact single_fault_path_validate. Qed.
Print Assumptions C17_single_fault_path_validate_partial.

(* Validate through map-based objects (property name in front, undeclared key at the object, violated
   presence rule at the property that declares it), references and scopes (no segment) as well *)
Theorem C17_single_fault_path_validate_objects_partial : forall words pu e f s v p, fault_vo words pu e f s v p ->
  exists c, validate words pu f e s v = Err (mkErr true p c).
Proof. exact single_fault_path_validate_objects. Qed.
Print Assumptions C17_single_fault_path_validate_objects_partial.

Theorem C17_object_prop_error : forall words pu f e id un props r1 name x r2 p er,
  check_rules props (fun k => amem k (r1 ++ (name, x) :: r2)%list) = Ok tt ->
  Forall (prop_ok words pu f e props) r1 ->
  alookup name props = Some p -> validate words pu f e (p_type p) x = Err er ->
  validate words pu (S f) e (SObject id un props) (raw_to_val (r1 ++ (name, x) :: r2)%list) = Err (add_seg name er).
Proof. exact validate_object_prop_error. Qed.
Print Assumptions C17_object_prop_error.

(* Unserialize through EVERY map-based kind: leaves, lists, maps, objects given as maps (property name in
   front; undeclared / non-string key at the object; violated presence rule at the declaring property),
   one-ofs (the member's error unchanged, discriminator problems at the one-of), references and scopes.
   Defaults are allowed (the premises speak about the data after the defaults were filled in:
   with_defaults); property names are distinct (they are the keys of a Go map). *)
Theorem C17_single_fault_path_unserialize : forall words pu e f s v p, fault_uo words pu e f s v p ->
  exists c, unser words pu f e s v = Err (mkErr true p c).
Proof. exact single_fault_path_unser_all. Qed.
Print Assumptions C17_single_fault_path_unserialize.

Theorem C17_object_prop_error_unser : forall words pu f e id un ps1 name p ps2 t nl r x er,
  Forall (fun kv => amem (fst kv) (ps1 ++ (name, p) :: ps2)%list = true) r ->
  NoDup (map fst (ps1 ++ (name, p) :: ps2)%list) ->
  Forall (prop_fine words pu f e (with_defaults e (ps1 ++ (name, p) :: ps2)%list r)) ps1 ->
  alookup name (with_defaults e (ps1 ++ (name, p) :: ps2)%list r) = Some x -> p_disabled p = false ->
  unser words pu f e (p_type p) x = Err er ->
  unser words pu (S f) e (SObject id un (ps1 ++ (name, p) :: ps2)%list) (obj_val t nl r) = Err (add_seg name er).
Proof. exact unser_object_prop_error. Qed.
Print Assumptions C17_object_prop_error_unser.

(* the compatibility pre-check of a one-of reports the path of the offending element as well (D67) *)
Theorem C17_compat_single_fault_path : forall words pu e f s v p, fault_c words pu e f s v p ->
  exists c, compat words pu f e s v = Err (mkErr true p c).
Proof. exact single_fault_path_compat. Qed.
Print Assumptions C17_compat_single_fault_path.

(* Validate through every map-based kind, one-ofs included, modulo the {oneof[k]} marker segments *)
Theorem C17_single_fault_path_validate : forall words pu e f s v p, fault_vm words pu e f s v p ->
  exists c q, validate words pu f e s v = Err (mkErr true q c) /\ strip_markers q = strip_markers p.
Proof. exact single_fault_path_validate_markers. Qed.
Print Assumptions C17_single_fault_path_validate.

(* Serialize, the third entry point: lists and maps run Validate first (same path), objects put the property name
   in front, one-ofs add NO marker on this path, references and scopes add nothing *)
Theorem C17_single_fault_path_serialize : forall words pu e f s v p, fault_s words pu e f s v p ->
  exists c q, serialize words pu f e s v = Err (mkErr true q c) /\ strip_markers q = strip_markers p.
Proof. exact single_fault_path_serialize. Qed.
Print Assumptions C17_single_fault_path_serialize.

(* inside an `any` value (the same function on all three entry points; positions UO_any / VM_any / SF_any of the
   relations above): "[i]" per list level, "{k}" for a key, "[k']" - the CONVERTED key - for a value; after the
   fix of D53 no failure inside `any` is a plain error *)
Theorem C17_any_single_fault_path : forall words pu f e v p, fault_any f v p -> exists c,
  unser words pu (S f) e SAny v = Err (mkErr true p c) /\
  validate words pu (S f) e SAny v = Err (mkErr true p c) /\
  serialize words pu (S f) e SAny v = Err (mkErr true p c).
Proof. exact single_fault_path_any_paths. Qed.
Print Assumptions C17_any_single_fault_path.

(* non-vacuity: xs: {"a": [1, "x"]} - the string "x" where an integer is expected, two levels down *)
Definition c17_env : env := mkEnv [] [] (mkOracles (fun _ => None) (fun _ => false)).
Definition c17_schema : schema := SMap (SString None None None) (SList (SInt (Some 0) None None) None None) None None.
Definition c17_value : gval :=
  VMap t_any_map false [(VStr TStr "b", VSlice t_any_slice false [VInt (TInt I64) 3]);
                        (VStr TStr "a", VSlice t_any_slice false [VInt (TInt I64) 1; VStr TStr "x"])].
Example C17_instance :
  fault_u bool_words parse_units_float c17_env 3 c17_schema c17_value ["[a]"; "[1]"] /\
  unser bool_words parse_units_float 3 c17_env c17_schema c17_value = Err (mkErr true ["[a]"; "[1]"] ERepr).
Proof.
  split; [|vm_compute; reflexivity].
  apply (FU_value bool_words parse_units_float c17_env 2 (SString None None None) (SList (SInt (Some 0) None None) None None) None None
           t_any_map false [(VStr TStr "b", VSlice t_any_slice false [VInt (TInt I64) 3])] (VStr TStr "a")
           (VSlice t_any_slice false [VInt (TInt I64) 1; VStr TStr "x"]) [] ["[1]"]).
  - reflexivity.
  - apply Forall_cons; [|apply Forall_nil]. split; eexists; lazy; reflexivity.
  - apply Forall_nil.
  - eexists; lazy; reflexivity.
  - apply (FU_item bool_words parse_units_float c17_env 1 (SInt (Some 0) None None) None None t_any_slice false
             [VInt (TInt I64) 1] (VStr TStr "x") [] []).
    + reflexivity.
    + apply Forall_cons; [eexists; lazy; reflexivity | apply Forall_nil].
    + apply FU_leaf; [exact I|]. intros n H. vm_compute in H. discriminate H.
Qed.

(* non-vacuity through an object: {"xs": [1, -5]} with xs: list of int >= 0 *)
Definition c17_prop (t : schema) : property_ schema := mkProp t None true [] [] [] None [] false false None.
Definition c17_items : schema := SList (SInt (Some 0) None None) None None.
Definition c17_obj : schema := SObject "o" false [("xs", c17_prop c17_items)].
Definition c17_obj_items : gval := VSlice t_any_slice false [VInt (TInt I64) 1; VInt (TInt I64) (-5)].
Definition c17_obj_value : gval := obj_val t_any_map false [("xs", c17_obj_items)].
Example C17_instance_object :
  fault_uo bool_words parse_units_float c17_env 3 c17_obj c17_obj_value ["xs"; "[1]"] /\
  unser bool_words parse_units_float 3 c17_env c17_obj c17_obj_value = Err (mkErr true ["xs"; "[1]"] EBound).
Proof.
  split; [|vm_compute; reflexivity].
  apply (UO_prop bool_words parse_units_float c17_env 2 "o" false [] "xs" (c17_prop c17_items) [] t_any_map false
           [("xs", c17_obj_items)] c17_obj_items ["[1]"]).
  - apply Forall_cons; [reflexivity | apply Forall_nil].
  - cbn. constructor; [intros [] | constructor].
  - apply Forall_nil.
  - apply Forall_nil.
  - reflexivity.
  - reflexivity.
  - apply (UO_item bool_words parse_units_float c17_env 1 (SInt (Some 0) None None) None None t_any_slice false
             [VInt (TInt I64) 1] (VInt (TInt I64) (-5)) [] []).
    + reflexivity.
    + apply Forall_cons; [eexists; lazy; reflexivity | apply Forall_nil].
    + apply UO_leaf; [exact I|]. intros n H. vm_compute in H. discriminate H.
Qed.

(* non-vacuity through a one-of: {"kind": "a", "x": "5"} - the member's compatibility pre-check reads "5" as
   Unserialize would and lets it through; the member's own Validate rejects the string: Validate reports it
   below the marker, Serialize without one; both name x *)
Definition c17_member : schema := SObject "A" false [("x", c17_prop (SInt None None None))].
Definition c17_oneof : schema := SOneOf [(KS "a", c17_member)] false "kind" false.
Definition c17_oneof_value : gval := raw_to_val [("kind", VStr TStr "a"); ("x", VStr TStr "5")].
Example C17_instance_oneof :
  fault_vm bool_words parse_units_float c17_env 5 c17_oneof c17_oneof_value ["x"] /\
  validate bool_words parse_units_float 5 c17_env c17_oneof c17_oneof_value = Err (mkErr true ["{oneof[a]}"; "x"] ERepr) /\
  serialize bool_words parse_units_float 5 c17_env c17_oneof c17_oneof_value = Err (mkErr true ["x"] ERepr).
Proof.
  split; [|split; vm_compute; reflexivity].
  apply (VM_oneof_member bool_words parse_units_float c17_env 3 [(KS "a", c17_member)] false "kind" false c17_oneof_value
           (KS "a") c17_member (raw_to_val [("x", VStr TStr "5")]) ["x"]).
  - vm_compute. reflexivity.
  - vm_compute. reflexivity.
  - apply (VM_prop bool_words parse_units_float c17_env 3 "A" false [("x", c17_prop (SInt None None None))] [] "x"
             (VStr TStr "5") [] (c17_prop (SInt None None None)) []).
    + vm_compute. reflexivity.
    + apply Forall_nil.
    + apply Forall_nil.
    + reflexivity.
    + apply VM_leaf; [exact I|]. intro H. vm_compute in H. discriminate H.
Qed.

(* non-vacuity inside `any`: [1, uint64 2^63] - the unsigned integer above MaxInt64 is named as "[1]" (D53) *)
Definition c17_any_value : gval := VSlice t_any_slice false [VInt (TInt I64) 1; VInt (TInt U64) 9223372036854775808].
Example C17_instance_any :
  fault_any 2 c17_any_value ["[1]"] /\
  unser bool_words parse_units_float 3 c17_env SAny c17_any_value = Err (mkErr true ["[1]"] ERepr).
Proof.
  split; [|vm_compute; reflexivity].
  apply (FA_item 1 t_any_slice false [VInt (TInt I64) 1] (VInt (TInt U64) 9223372036854775808) [] []).
  - reflexivity.
  - apply Forall_cons; [eexists; vm_compute; reflexivity | apply Forall_nil].
  - apply FA_here; [intros; discriminate | intros; discriminate |]. intros n H. vm_compute in H. discriminate H.
Qed.

(* the key is named AS WRITTEN (C17_map_value_error: mval_seg of the raw key k, whatever k' the key schema reads it as).
   Non-vacuity with a key whose text is not the text of its value: limits: {"1kB": -1} under integer keys in bytes - the
   key is 1024 after conversion, the error below it names "1kB", the key a workflow author wrote (seeded change C17-r2m3:
   the segment built from the unserialized key says [1024]).  The same with "01" under plain integer keys. *)
Definition c17_unit_key_schema : schema := SMap (SInt None None (Some unit_bytes)) (SInt (Some 0) None None) None None.
Definition c17_unit_key_value : gval :=
  VMap t_any_map false [(VStr TStr "2kB", VInt (TInt I64) 7); (VStr TStr "1kB", VInt (TInt I64) (-1))].
Example C17_instance_key_as_written :
  unser bool_words parse_units_float 2 c17_env (SInt None None (Some unit_bytes)) (VStr TStr "1kB") = Ok (vi64 1024) /\
  fault_u bool_words parse_units_float c17_env 3 c17_unit_key_schema c17_unit_key_value ["[1kB]"] /\
  unser bool_words parse_units_float 3 c17_env c17_unit_key_schema c17_unit_key_value = Err (mkErr true ["[1kB]"] EBound) /\
  unser bool_words parse_units_float 3 c17_env (SMap (SInt None None None) (SInt (Some 0) None None) None None)
    (VMap t_any_map false [(VStr TStr "01", VInt (TInt I64) (-1))]) = Err (mkErr true ["[01]"] EBound).
Proof.
  split; [vm_compute; reflexivity|]. split; [|split; vm_compute; reflexivity].
  apply (FU_value bool_words parse_units_float c17_env 2 (SInt None None (Some unit_bytes)) (SInt (Some 0) None None) None None
           t_any_map false [(VStr TStr "2kB", VInt (TInt I64) 7)] (VStr TStr "1kB") (VInt (TInt I64) (-1)) [] []).
  - reflexivity.
  - apply Forall_cons; [|apply Forall_nil]. split; eexists; vm_compute; reflexivity.
  - apply Forall_nil.
  - eexists; vm_compute; reflexivity.
  - apply FU_leaf; [exact I|]. intros n H. vm_compute in H. discriminate H.
Qed.

(* history-independence of the predicted errors.  The model's operations are functions of (environment, schema, value):
   nothing is remembered between calls, so in the list of predictions of a case the answer to a call depends on that call
   alone - not on the calls (and rejections) before it, not on how often it is repeated.  The c17 runner evaluates every
   call of a case twice on ONE schema instance in ONE process and each observation must equal this prediction (seeded
   change C17-r2m4: a shared error value extended in place - the second rejection carries the first one's path too). *)
From Verif Require Import Interp.Sexp Interp.RunSchema.

Theorem C17_prediction_history_independent : forall e s before op after,
  nth (List.length before) (map (run_op e s) (before ++ op :: after)) (Ls []) = run_op e s op.
Proof.
  intros e s before op after. rewrite map_app. rewrite app_nth2; rewrite map_length; [|apply le_n].
  rewrite PeanoNat.Nat.sub_diag. reflexivity.
Qed.
Print Assumptions C17_prediction_history_independent.

(* the same call three times in a row: the second answer is the answer *)
Example C17_history_instance : forall op,
  nth 1 (map (run_op c17_env c17_unit_key_schema) [op; op; op]) (Ls []) = run_op c17_env c17_unit_key_schema op.
Proof. intro op. exact (C17_prediction_history_independent c17_env c17_unit_key_schema [op] op [op]). Qed.

(* ======================================================================================================
   The STRUCT layer (Schema/XOps.v: NewStructMappedObjectSchema[T] / [*T]): single-fault path theorems for
   struct-mapped objects (Proofs/C17Struct.v; non-vacuity on the harness struct family: Proofs/C17StructEx.v).
   The segment is always the PROPERTY ID (the json tag), never the Go field name (seeded change C17-m4); the
   statements are over the field the descriptor resolves (fr_idx / fr_nidx), so promoted fields of embedded
   structs are covered (C17_struct_promoted_instance).  Properties are evaluated in property order in the model
   and in Go map order in the SDK: the premises below ask only the properties BEFORE the faulty one to be fine,
   which a single fault (all others accepted) satisfies in every order.
   ====================================================================================================== *)
From Verif Require Import Base.XReflect Schema.XSyntax Schema.XOps Proofs.XStruct Proofs.XPaths Proofs.XExamples
  Proofs.C17Struct Proofs.C17StructEx.
Open Scope list_scope.

(* convertData (declared defaults, sub-object default propagation) keeps every entry the caller supplied *)
Theorem C17_struct_supplied_value_kept : forall f e props mapped r0 rd k x,
  xobj_data f e props mapped r0 = Ok rd -> alookup k r0 = Some x -> alookup k rd = Some x.
Proof. exact xobj_data_supplied. Qed.
Print Assumptions C17_struct_supplied_value_kept.

(* (a) Unserialize: the raw map supplies for `name` a value x on which the property type fails with er; the
   properties before it are fine on the data after convertData (rd); the object (T, *T or map-based: `mapped`)
   fails with the property id in front of er's path *)
Theorem C17_struct_unserialize_path : forall words pu f e id un ps1 name p ps2 mapped t nl r rd x er,
  Forall (fun kv => amem (fst kv) (ps1 ++ (name, p) :: ps2) = true) r ->
  NoDup (map fst (ps1 ++ (name, p) :: ps2)) ->
  xobj_data f e (ps1 ++ (name, p) :: ps2) mapped r = Ok rd ->
  Forall (xprop_fine words pu f e rd) ps1 ->
  alookup name r = Some x -> p_disabled p = false ->
  xunser words pu f e (p_type p) x = Err er ->
  xunser words pu (S f) e (XObject id un (ps1 ++ (name, p) :: ps2) mapped) (obj_val t nl r) = Err (add_seg name er).
Proof. exact struct_unser_prop_error_supplied. Qed.
Print Assumptions C17_struct_unserialize_path.

(* the same when the offending value is a DEFAULT (declared or propagated from a sub-object): x is what
   convertData put under `name` *)
Theorem C17_struct_unserialize_path_data : forall words pu f e id un ps1 name p ps2 mapped t nl r rd x er,
  Forall (fun kv => amem (fst kv) (ps1 ++ (name, p) :: ps2) = true) r ->
  NoDup (map fst (ps1 ++ (name, p) :: ps2)) ->
  xobj_data f e (ps1 ++ (name, p) :: ps2) mapped r = Ok rd ->
  Forall (xprop_fine words pu f e rd) ps1 ->
  alookup name rd = Some x -> p_disabled p = false ->
  xunser words pu f e (p_type p) x = Err er ->
  xunser words pu (S f) e (XObject id un (ps1 ++ (name, p) :: ps2) mapped) (obj_val t nl r) = Err (add_seg name er).
Proof. exact struct_unser_prop_error. Qed.
Print Assumptions C17_struct_unserialize_path_data.

Example C17_struct_unserialize_instance :
  xunser w_words w_pu 12 c17s_env c17s_nested (obj_val t_any_map false c17s_raw) = Err (mkErr true ["p"; "b"] EBound) /\
  xunser w_words w_pu 12 c17s_env c17s_inner (obj_val t_any_map false [("b", vstr "q")]) = Err (mkErr true ["b"] EBound).
Proof. exact (conj c17s_unser_ex c17s_unser_inner_ex). Qed.

(* a member that is NOT struct-mapped (embed s0): the map-based position relation carries over (x_embed_unser) *)
Theorem C17_struct_unserialize_path_embedded_member :
  forall words pu st e0 f id un ps1 name p ps2 mapped t nl r rd x s0 q,
  Forall (fun kv => amem (fst kv) (ps1 ++ (name, p) :: ps2) = true) r ->
  NoDup (map fst (ps1 ++ (name, p) :: ps2)) ->
  xobj_data f (embed_env st e0) (ps1 ++ (name, p) :: ps2) mapped r = Ok rd ->
  Forall (xprop_fine words pu f (embed_env st e0) rd) ps1 ->
  alookup name rd = Some x -> p_disabled p = false ->
  p_type p = embed s0 -> fault_uo words pu e0 f s0 x q ->
  exists c, xunser words pu (S f) (embed_env st e0) (XObject id un (ps1 ++ (name, p) :: ps2) mapped) (obj_val t nl r)
            = Err (mkErr true (name :: q) c).
Proof. exact struct_unser_prop_fault_embedded. Qed.
Print Assumptions C17_struct_unserialize_path_embedded_member.

(* (b) Validate / Serialize on a native struct value v (xstruct_arg: exactly a T, non-nil when T = *S): the field
   value x of property `name` (xfield_value: FieldByName, dereferenced, not absent / not treated as empty) is
   rejected with er; the present fields of the properties before it are accepted.  The presence rules are checked
   after the fields and play no part. *)
Theorem C17_struct_validate_path : forall words pu f e id un ps1 name p ps2 si v sv x er,
  xstruct_arg si v = Some sv ->
  has_fields si ps1 ->
  (forall np y, In np ps1 -> xfield_value e si sv np = Some y -> xvalidate words pu f e (p_type (snd np)) y = Ok tt) ->
  xfield_value e si sv (name, p) = Some x ->
  xvalidate words pu f e (p_type p) x = Err er ->
  xvalidate words pu (S f) e (XObject id un (ps1 ++ (name, p) :: ps2) (Some si)) v = Err (add_seg name er).
Proof. exact struct_validate_prop_error. Qed.
Print Assumptions C17_struct_validate_path.

Theorem C17_struct_serialize_path : forall words pu f e id un ps1 name p ps2 si v sv x er,
  xstruct_arg si v = Some sv ->
  has_fields si ps1 ->
  (forall np y, In np ps1 -> xfield_value e si sv np = Some y -> exists w, xserialize words pu f e (p_type (snd np)) y = Ok w) ->
  xfield_value e si sv (name, p) = Some x ->
  xserialize words pu f e (p_type p) x = Err er ->
  xserialize words pu (S f) e (XObject id un (ps1 ++ (name, p) :: ps2) (Some si)) v = Err (add_seg name er).
Proof. exact struct_serialize_prop_error. Qed.
Print Assumptions C17_struct_serialize_path.

Example C17_struct_native_instance :
  xvalidate w_words w_pu 12 c17s_env c17s_nested c17s_native = Err (mkErr true ["p"; "b"] EBound) /\
  xserialize w_words w_pu 12 c17s_env c17s_nested c17s_native = Err (mkErr true ["p"; "b"] EBound).
Proof. exact (conj c17s_validate_ex c17s_serialize_ex). Qed.

(* a promoted field: XEmbPtr{*XInner{A: -5}; C: 2}, "a" >= 0 mapped to the field A of the embedded *XInner *)
Example C17_struct_promoted_instance :
  xvalidate w_words w_pu 12 c17s_env c17s_emb c17s_emb_native = Err (mkErr true ["a"] EBound).
Proof. exact c17s_validate_promoted_ex. Qed.

(* (c) the faults of the struct layer itself.  Unserialize: an undeclared key and a non-map are reported at the
   object (empty path, as for map-based objects: the family's expectation is computed on the map-based twin); a
   violated presence rule at the declaring property; unserializeToStruct can only fail with "Field cannot be set"
   at one of the properties it assigns. *)
Theorem C17_struct_unserialize_unknown_key : forall words pu f e id un props mapped t nl r1 k x r2,
  Forall (fun kv => amem (fst kv) props = true) r1 -> amem k props = false ->
  xunser words pu (S f) e (XObject id un props mapped) (obj_val t nl (r1 ++ (k, x) :: r2)) = Err (cerr EKey).
Proof. exact struct_unser_unknown_key. Qed.
Print Assumptions C17_struct_unserialize_unknown_key.

Theorem C17_struct_unserialize_not_a_map : forall words pu f e id un props mapped v,
  (forall t nl l, v <> VMap t nl l) -> (forall name p, props <> [(name, p)]) ->
  xunser words pu (S f) e (XObject id un props mapped) v = Err (cerr ERepr).
Proof. exact struct_unser_not_a_map. Qed.
Print Assumptions C17_struct_unserialize_not_a_map.

Theorem C17_struct_unserialize_rule : forall words pu f e id un ps1 name p ps2 mapped t nl r0 rd,
  Forall (fun kv => amem (fst kv) (ps1 ++ (name, p) :: ps2) = true) r0 ->
  NoDup (map fst (ps1 ++ (name, p) :: ps2)) ->
  xobj_data f e (ps1 ++ (name, p) :: ps2) mapped r0 = Ok rd ->
  Forall (xprop_fine words pu f e rd) (ps1 ++ (name, p) :: ps2) ->
  Forall (fun np => xcheck_prop_rules (fun k => amem k rd) (fst np) (snd np) = Ok tt) ps1 ->
  xcheck_prop_rules (fun k => amem k rd) name p <> Ok tt ->
  xunser words pu (S f) e (XObject id un (ps1 ++ (name, p) :: ps2) mapped) (obj_val t nl r0) = Err (cerr_at [name] EPresence).
Proof. exact struct_unser_rule. Qed.
Print Assumptions C17_struct_unserialize_rule.

Theorem C17_struct_unserialize_missing_required : forall words pu f e id un ps1 name p ps2 mapped t nl r0 rd,
  Forall (fun kv => amem (fst kv) (ps1 ++ (name, p) :: ps2) = true) r0 ->
  NoDup (map fst (ps1 ++ (name, p) :: ps2)) ->
  xobj_data f e (ps1 ++ (name, p) :: ps2) mapped r0 = Ok rd ->
  Forall (xprop_fine words pu f e rd) (ps1 ++ (name, p) :: ps2) ->
  Forall (fun np => xcheck_prop_rules (fun k => amem k rd) (fst np) (snd np) = Ok tt) ps1 ->
  p_required p = true -> amem name rd = false ->
  xunser words pu (S f) e (XObject id un (ps1 ++ (name, p) :: ps2) mapped) (obj_val t nl r0) = Err (cerr_at [name] EPresence).
Proof. exact struct_unser_missing_required. Qed.
Print Assumptions C17_struct_unserialize_missing_required.

Theorem C17_struct_field_cannot_be_set_path : forall e si r er,
  xto_struct e si r = Err er -> exists k, In k (map fst r) /\ er = cerr_at [k] EOther.
Proof. exact struct_to_struct_error_path. Qed.
Print Assumptions C17_struct_field_cannot_be_set_path.

(* Validate / Serialize: a value that is not exactly a T (another Go type, a map, a nil *T) is reported at the
   object; a violated presence rule - every present field accepted - at the declaring property *)
Theorem C17_struct_validate_wrong_type : forall words pu f e id un props si v,
  xstruct_arg si v = None -> xvalidate words pu (S f) e (XObject id un props (Some si)) v = Err (cerr ERepr).
Proof. exact struct_validate_wrong_type. Qed.
Print Assumptions C17_struct_validate_wrong_type.

Theorem C17_struct_serialize_wrong_type : forall words pu f e id un props si v,
  xstruct_arg si v = None -> xserialize words pu (S f) e (XObject id un props (Some si)) v = Err (cerr ERepr).
Proof. exact struct_serialize_wrong_type. Qed.
Print Assumptions C17_struct_serialize_wrong_type.

Theorem C17_struct_validate_rule : forall words pu f e id un ps1 name p ps2 si v sv,
  xstruct_arg si v = Some sv ->
  has_fields si (ps1 ++ (name, p) :: ps2) ->
  (forall np y, In np (ps1 ++ (name, p) :: ps2) -> xfield_value e si sv np = Some y ->
                xvalidate words pu f e (p_type (snd np)) y = Ok tt) ->
  Forall (fun np => xcheck_prop_rules (fun k => amem k (xpresent e si sv (ps1 ++ (name, p) :: ps2))) (fst np) (snd np) = Ok tt) ps1 ->
  xcheck_prop_rules (fun k => amem k (xpresent e si sv (ps1 ++ (name, p) :: ps2))) name p <> Ok tt ->
  xvalidate words pu (S f) e (XObject id un (ps1 ++ (name, p) :: ps2) (Some si)) v = Err (cerr_at [name] EPresence).
Proof. exact struct_validate_rule. Qed.
Print Assumptions C17_struct_validate_rule.

Theorem C17_struct_serialize_rule : forall words pu f e id un ps1 name p ps2 si v sv,
  xstruct_arg si v = Some sv ->
  has_fields si (ps1 ++ (name, p) :: ps2) ->
  (forall np y, In np (ps1 ++ (name, p) :: ps2) -> xfield_value e si sv np = Some y ->
                exists w, xserialize words pu f e (p_type (snd np)) y = Ok w) ->
  Forall (fun np => xcheck_prop_rules (fun k => amem k (xpresent e si sv (ps1 ++ (name, p) :: ps2))) (fst np) (snd np) = Ok tt) ps1 ->
  xcheck_prop_rules (fun k => amem k (xpresent e si sv (ps1 ++ (name, p) :: ps2))) name p <> Ok tt ->
  xserialize words pu (S f) e (XObject id un (ps1 ++ (name, p) :: ps2) (Some si)) v = Err (cerr_at [name] EPresence).
Proof. exact struct_serialize_rule. Qed.
Print Assumptions C17_struct_serialize_rule.

Example C17_struct_layer_faults_instance :
  xunser w_words w_pu 12 c17s_env c17s_nested
    (obj_val t_any_map false ([("in", xs_m [("b", vstr "qq")])] ++ ("zz", vi64 1) :: [("x", vi64 3)])) = Err (cerr EKey) /\
  xunser w_words w_pu 12 c17s_env c17s_nested (obj_val t_any_map false [("in", xs_m [("b", vstr "qq")])])
    = Err (cerr_at ["x"] EPresence) /\
  xvalidate w_words w_pu 12 c17s_env c17s_nested (xs_inner_v 1 "qq") = Err (cerr ERepr) /\
  xserialize w_words w_pu 12 c17s_env c17s_nested (VPtr (TPtr (TStruct "XNested")) None) = Err (cerr ERepr).
Proof.
  split; [exact c17s_unknown_key_ex|]. split; [exact c17s_missing_required_ex|].
  split; [exact (proj1 c17s_wrong_type_ex) | exact (proj1 (proj2 c17s_wrong_type_ex))].
Qed.

(* ------------------------------------------------------------------------------------------------------
   ORDER-FREE forms (Proofs/C17StructPos.v).  The SDK ranges over the Go map PropertiesValue (random order), the
   model walks the property list.  With a SINGLE fault - every OTHER property fine - the premises do not mention
   where the faulty property stands in `props`: they are invariant under permutation of `props`, so the reported
   path is the same for every order in which the properties can be visited.
   ------------------------------------------------------------------------------------------------------ *)
From Verif Require Import Proofs.C17StructPos.

Theorem C17_struct_unserialize_single_fault : forall words pu f e id un props name p mapped t nl r rd x er,
  Forall (fun kv => amem (fst kv) props = true) r ->
  NoDup (map fst props) -> In (name, p) props ->
  xobj_data f e props mapped r = Ok rd ->
  (forall np, In np props -> np <> (name, p) -> xprop_fine words pu f e rd np) ->
  alookup name rd = Some x -> p_disabled p = false ->
  xunser words pu f e (p_type p) x = Err er ->
  xunser words pu (S f) e (XObject id un props mapped) (obj_val t nl r) = Err (add_seg name er).
Proof. exact struct_unser_single_fault. Qed.
Print Assumptions C17_struct_unserialize_single_fault.

Theorem C17_struct_validate_single_fault : forall words pu f e id un props name p si v sv x er,
  xstruct_arg si v = Some sv -> has_fields si props ->
  NoDup (map fst props) -> In (name, p) props ->
  (forall np y, In np props -> np <> (name, p) -> xfield_value e si sv np = Some y ->
                xvalidate words pu f e (p_type (snd np)) y = Ok tt) ->
  xfield_value e si sv (name, p) = Some x ->
  xvalidate words pu f e (p_type p) x = Err er ->
  xvalidate words pu (S f) e (XObject id un props (Some si)) v = Err (add_seg name er).
Proof. exact struct_validate_single_fault. Qed.
Print Assumptions C17_struct_validate_single_fault.

Theorem C17_struct_serialize_single_fault : forall words pu f e id un props name p si v sv x er,
  xstruct_arg si v = Some sv -> has_fields si props ->
  NoDup (map fst props) -> In (name, p) props ->
  (forall np y, In np props -> np <> (name, p) -> xfield_value e si sv np = Some y ->
                exists w, xserialize words pu f e (p_type (snd np)) y = Ok w) ->
  xfield_value e si sv (name, p) = Some x ->
  xserialize words pu f e (p_type p) x = Err er ->
  xserialize words pu (S f) e (XObject id un props (Some si)) v = Err (add_seg name er).
Proof. exact struct_serialize_single_fault. Qed.
Print Assumptions C17_struct_serialize_single_fault.

(* a single violated presence rule (missing required, required_if, required_if_not, conflicts) *)
Theorem C17_struct_unserialize_single_rule : forall words pu f e id un props name p mapped t nl r0 rd,
  Forall (fun kv => amem (fst kv) props = true) r0 ->
  NoDup (map fst props) -> In (name, p) props ->
  xobj_data f e props mapped r0 = Ok rd ->
  (forall np, In np props -> xprop_fine words pu f e rd np) ->
  (forall np, In np props -> np <> (name, p) -> xcheck_prop_rules (fun k => amem k rd) (fst np) (snd np) = Ok tt) ->
  xcheck_prop_rules (fun k => amem k rd) name p <> Ok tt ->
  xunser words pu (S f) e (XObject id un props mapped) (obj_val t nl r0) = Err (cerr_at [name] EPresence).
Proof. exact struct_unser_single_rule. Qed.
Print Assumptions C17_struct_unserialize_single_rule.

Theorem C17_struct_validate_single_rule : forall words pu f e id un props name p si v sv,
  xstruct_arg si v = Some sv -> has_fields si props ->
  NoDup (map fst props) -> In (name, p) props ->
  (forall np y, In np props -> xfield_value e si sv np = Some y -> xvalidate words pu f e (p_type (snd np)) y = Ok tt) ->
  (forall np, In np props -> np <> (name, p) ->
              xcheck_prop_rules (fun k => amem k (xpresent e si sv props)) (fst np) (snd np) = Ok tt) ->
  xcheck_prop_rules (fun k => amem k (xpresent e si sv props)) name p <> Ok tt ->
  xvalidate words pu (S f) e (XObject id un props (Some si)) v = Err (cerr_at [name] EPresence).
Proof. exact struct_validate_single_rule. Qed.
Print Assumptions C17_struct_validate_single_rule.

Theorem C17_struct_serialize_single_rule : forall words pu f e id un props name p si v sv,
  xstruct_arg si v = Some sv -> has_fields si props ->
  NoDup (map fst props) -> In (name, p) props ->
  (forall np y, In np props -> xfield_value e si sv np = Some y -> exists w, xserialize words pu f e (p_type (snd np)) y = Ok w) ->
  (forall np, In np props -> np <> (name, p) ->
              xcheck_prop_rules (fun k => amem k (xpresent e si sv props)) (fst np) (snd np) = Ok tt) ->
  xcheck_prop_rules (fun k => amem k (xpresent e si sv props)) name p <> Ok tt ->
  xserialize words pu (S f) e (XObject id un props (Some si)) v = Err (cerr_at [name] EPresence).
Proof. exact struct_serialize_single_rule. Qed.
Print Assumptions C17_struct_serialize_single_rule.

(* the path of the error is the path to the fault, for every nesting of struct-mapped / map-based objects, lists,
   references and scopes over leaves (and whole map-based subtrees: XU_embedded / XV_embedded) in the struct layer:
   by induction on the position (fault_xu / fault_xv / fault_xs, Proofs/C17StructPos.v).  Not covered by the
   relations: maps and one-ofs over struct-mapped members, `any`, the single-property shorthand, Serialize of lists. *)
Theorem C17_struct_single_fault_path_unserialize : forall words pu e f s v q, fault_xu words pu e f s v q ->
  exists c, xunser words pu f e s v = Err (mkErr true q c).
Proof. exact struct_single_fault_path_unser. Qed.
Print Assumptions C17_struct_single_fault_path_unserialize.

Theorem C17_struct_single_fault_path_validate : forall words pu e f s v q, fault_xv words pu e f s v q ->
  exists c, xvalidate words pu f e s v = Err (mkErr true q c).
Proof. exact struct_single_fault_path_validate. Qed.
Print Assumptions C17_struct_single_fault_path_validate.

Theorem C17_struct_single_fault_path_serialize : forall words pu e f s v q, fault_xs words pu e f s v q ->
  exists c, xserialize words pu f e s v = Err (mkErr true q c).
Proof. exact struct_single_fault_path_serialize. Qed.
Print Assumptions C17_struct_single_fault_path_serialize.

(* non-vacuity: XNested{In: {1,"qq"}, P: &{1,"q"}, X: 3} / {"in": {"b": "qq"}, "p": {"b": "q"}, "x": 3} - the position
   ["p"; "b"] is reached through the struct-mapped XNested, the reference and the struct-mapped XInner *)
Example C17_struct_position_instance :
  fault_xu w_words w_pu c17s_env 12 c17s_nested (obj_val t_any_map false c17s_raw) ["p"; "b"] /\
  fault_xv w_words w_pu c17s_env 12 c17s_nested c17s_native ["p"; "b"] /\
  fault_xs w_words w_pu c17s_env 12 c17s_nested c17s_native ["p"; "b"].
Proof. exact (conj c17s_pos_unser_ex (conj c17s_pos_validate_ex c17s_pos_serialize_ex)). Qed.

(* a one-of over struct-mapped members, given a NATIVE struct value: the member is found by the reflected type of the
   value (findUnderlyingType); Validate puts the {oneof[k]} marker in front of the member's path, Serialize passes the
   member's error on unchanged; a value whose type no member has is reported at the one-of *)
Theorem C17_struct_oneof_native_validate_path : forall words pu f e types ik field inlined v tv key member er,
  xnative_struct v tv ->
  find (fun ks => match xstruct_rtype e (snd ks) with Some t => gtype_eqb t tv | None => false end) types = Some (key, member) ->
  xvalidate words pu (S f) e member v = Err er ->
  xvalidate words pu (S (S f)) e (XOneOf types ik field inlined) v = Err (add_seg (oneof_seg key) er).
Proof. exact struct_oneof_native_validate_path. Qed.
Print Assumptions C17_struct_oneof_native_validate_path.

Theorem C17_struct_oneof_native_serialize_path : forall words pu f e types ik field inlined v tv key member er,
  xnative_struct v tv ->
  find (fun ks => match xstruct_rtype e (snd ks) with Some t => gtype_eqb t tv | None => false end) types = Some (key, member) ->
  xserialize words pu (S f) e member v = Err er ->
  xserialize words pu (S (S f)) e (XOneOf types ik field inlined) v = Err er.
Proof. exact struct_oneof_native_serialize_path. Qed.
Print Assumptions C17_struct_oneof_native_serialize_path.

Theorem C17_struct_oneof_native_no_member : forall words pu f e types ik field inlined v tv,
  xnative_struct v tv ->
  find (fun ks => match xstruct_rtype e (snd ks) with Some t => gtype_eqb t tv | None => false end) types = None ->
  xvalidate words pu (S (S f)) e (XOneOf types ik field inlined) v = Err (cerr ERepr) /\
  xserialize words pu (S (S f)) e (XOneOf types ik field inlined) v = Err (cerr ERepr).
Proof. exact struct_oneof_native_no_member. Qed.
Print Assumptions C17_struct_oneof_native_no_member.

Example C17_struct_oneof_native_instance :
  xvalidate w_words w_pu 12 c17s_env c17s_oneof (xs_inner_v 1 "q") = Err (mkErr true ["{oneof[inner]}"; "b"] EBound) /\
  xserialize w_words w_pu 12 c17s_env c17s_oneof (xs_inner_v 1 "q") = Err (mkErr true ["b"] EBound).
Proof. exact c17s_oneof_native_ex. Qed.
