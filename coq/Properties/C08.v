(* Properties/C08.v — C08: a broken or garbled server stream fails client calls; it never hangs them.
   Statements only; proofs in Proofs/ATPClientFault.v, Proofs/ATPClient.v.  Model: ATP/Client.v with a fault script
   (`se_fault = Some (n, f)`: the peer's (n+1)-th emission is the sticky fault f; `se_wfail`: the write side fails),
   ATP/Handshake.v for ReadSchema and the v1 path.

   FULL STATEMENTS (DESIGN §5 C08), kept visible; what is proved is marked.
     C08_all_released              every Execute pending at, or started after, the fault returns Err - for every fault script
                                   and schedule.  PROVED: the safety core for every session and schedule - (i) a pending
                                   entry always has a live read loop (C08_pending_has_live_loop = the C06 invariant, which
                                   does not assume a healthy peer), (ii) a loop that meets the fault takes the fatal exit
                                   (C08_fault_is_fatal), (iii) the fatal exits resolve EVERY entry and clear readLoopRunning in
                                   one step (C08_fatal_exit_releases_all, C08_server_fatal_releases_all), (iv) no execution is
                                   infinite (C08_no_livelock).  NOT proved in Coq: the composition into "every maximal
                                   execution ends with all callers Done" (needs the conservation invariant, see C06); it is
                                   checked by forcing model schedules of fault sessions on the client and by the byte sweep.
     C08_no_fabricated_success     a caller returns Ok only if an intact WorkDone for its run id was decoded.
                                   PROVED as C08_success_only_from_workdone_partial (per step: an Ok result enters the entry map
                                   only in the handling of a WorkDone of that run id; the error fan-out never writes Ok) and,
                                   for v1, in full (C08_v1_success_iff_intact).  NOT proved: the lifting to an invariant over
                                   schedules (callers copy their result from the entry map).
     C08_readschema_errors         PROVED in full (sequential): ReadSchema succeeds iff the start message was written and an
                                   intact hello with a supported version and a usable schema is the first item.
     C08_close_returns             Close returns for every read-side fault script: NOT proved in Coq (same gap as above);
                                   checked by every replayed fault session with Close.  With a failing WRITE side it is false:
                                   C08_close_panics_refuted (D25, known finding). *)
From Coq Require Import Lia.
From Verif Require Import Base.Prelude Base.Str ATP.Msg ATP.Client ATP.Handshake Proofs.ATPClient Proofs.ATPClientFault.

Theorem C08_pending_has_live_loop : forall (payload : Type) (se : session payload) ls s,
  run (init se) ls = Some s -> has_pending (entries s) = true -> loop_live (cur s) = true /\ running s = true.
Proof.
  intros payload se ls s H Hp. assert (invA s) as I by (eapply invA_run; [apply invA_init|exact H]).
  destruct I as [A1 A2 A3 A4]. split; [auto|]. rewrite A1. auto.
Qed.
Print Assumptions C08_pending_has_live_loop.

Theorem C08_fault_is_fatal : forall (payload : Type) (s s' : state payload) lo ev q,
  cur s = Some lo -> l_pc lo = LDecode -> l_buf lo = [] -> from_server s = ev :: q -> is_fault ev = true ->
  step s (LLoop 0) = Some s' -> exists lo', cur s' = Some lo' /\ l_pc lo' = LFatal /\ from_server s' = ev :: q.
Proof. exact decode_fault_goes_fatal. Qed.
Print Assumptions C08_fault_is_fatal.

Theorem C08_fatal_exit_releases_all : forall (payload : Type) (s s' : state payload) lo,
  cur s = Some lo -> l_pc lo = LFatal -> step s (LLoop 0) = Some s' ->
  has_pending (entries s') = false /\ running s' = false /\ loop_live (cur s') = false /\
  Forall (fun e => exists v, snd e = Some v) (entries s').
Proof. exact fatal_step_releases_all. Qed.
Print Assumptions C08_fatal_exit_releases_all.

Theorem C08_server_fatal_releases_all : forall (payload : Type) (s s' : state payload) lo r sf,
  cur s = Some lo -> l_pc lo = LHandle (ErrMsg r sf true) -> step s (LLoop 0) = Some s' ->
  has_pending (entries s') = false /\ running s' = false /\ loop_live (cur s') = false.
Proof. exact server_fatal_step_releases_all. Qed.
Print Assumptions C08_server_fatal_releases_all.

Theorem C08_no_livelock : forall (payload : Type) ls (s s' : state payload),
  run s ls = Some s' -> (List.length ls <= mu s)%nat.
Proof. intros payload ls s s' H. pose proof (run_length_bounded _ _ _ _ H). lia. Qed.
Print Assumptions C08_no_livelock.

Theorem C08_success_only_from_workdone_partial : forall (payload : Type) (s : state payload) lo m r o d,
  alookup r (entries (handle s lo m)) = Some (Some (ROk o d)) ->
  alookup r (entries s) = Some (Some (ROk o d)) \/ exists st lg, m = WorkDone r st o d lg.
Proof. exact handle_ok_only_from_workdone. Qed.
Print Assumptions C08_success_only_from_workdone_partial.

Theorem C08_error_fanout_never_writes_success : forall (payload : Type) (s : state payload) (e : rerr) r o d,
  alookup r (entries (fan_out s (RErr e))) = Some (Some (ROk o d)) -> False.
Proof. exact fatal_never_ok. Qed.
Print Assumptions C08_error_fanout_never_writes_success.

Theorem C08_readschema_errors : forall (payload : Type) (w : bool) (ev : event payload) v,
  read_schema w ev = RSOk v <-> (w = true /\ ev = EvHello (Hello v true) /\ supported v = true).
Proof. exact read_schema_ok_iff. Qed.
Print Assumptions C08_readschema_errors.

Theorem C08_v1_success_iff_intact : forall (payload : Type) (w : bool) (ev : event payload) o d,
  execute_v1 w ev = V1Ok o d <-> (w = true /\ exists r st lg, ev = EvMsg (WorkDone r st o d lg)).
Proof. exact execute_v1_ok_iff. Qed.
Print Assumptions C08_v1_success_iff_intact.

(* D25 (known finding): write side fails after the handshake => Execute returns the write error, the read loop is
   still blocked in Decode (wait group 1), Close cannot send client-done and panics when its 5 s timer fires *)
Theorem C08_close_panics_refuted :
  exists s, run (init d25_session) d25_schedule = Some s /\ closer s = KDone ClosePanic /\
            (exists c, nth_error (callers s) 0 = Some c /\ c_pc c = CDone (RErr ErrWrite)) /\
            loop_live (cur s) = true /\ wg s = 1%nat.
Proof. exact d25_close_panics. Qed.
Print Assumptions C08_close_panics_refuted.

(* non-vacuity *)
Example C08_readschema_example : read_schema true (EvHello (payload := unit) (Hello 3 true)) = RSOk 3
  /\ read_schema true (EvHello (payload := unit) (Hello 2 true)) = RSErr
  /\ read_schema true (EvHello (payload := unit) (Hello 3 false)) = RSErr
  /\ read_schema true (@EvPartialThenEOF unit) = RSErr /\ read_schema false (EvHello (payload := unit) (Hello 3 true)) = RSErr.
Proof. repeat split; reflexivity. Qed.
