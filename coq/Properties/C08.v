(* Properties/C08.v — C08: a broken or garbled server stream fails client calls; it never hangs them.
   Statements only; proofs in Proofs/ATPClientFault.v, Proofs/ATPClient.v, Proofs/ATPClientInv.v (the conservation
   invariant), Proofs/ATPClientFinal.v (maximal executions, the ghost `decoded`, `noticed`).  Model: ATP/Client.v with a
   fault script (`se_fault = Some (n, f)`: the peer's (n+1)-th emission is the sticky fault f, nothing follows;
   `se_wfail`: the write side fails), ATP/Handshake.v for ReadSchema and the v1 path.

   `good_session` (see Properties/C06.v): distinct run ids, every call's script holds an event that ends the call, and
   the scripted fault IS a fault of the stream (EOF, read error, garbage, partial message, a hello out of place) - a peer
   that just stops answering on an intact stream is not a broken stream and is outside C08.

     C08_all_released            PROVED: (a) every maximal execution of every good session - any fault position, any
                                 schedule, write failures included - ends with EVERY Execute returned; (b) once the read
                                 loop has taken its fatal exit on the broken stream (`noticed`, established by
                                 C08_fatal_exit_notices), every Execute that has not returned yet - pending or started
                                 later - returns an ERROR, in every continuation (C08_released_with_error).
     C08_no_fabricated_success   PROVED at invariant level, for EVERY session and schedule: a caller's Ok implies that an
                                 intact work-done message for its run id with that output was decoded by a read loop
                                 (ghost field `decoded`).
     C08_readschema_errors       PROVED (sequential): ReadSchema succeeds iff the start message was written and an intact
                                 hello with a supported version and a usable schema is the first item.
     C08_close_returns           PROVED: in every maximal execution of a good session without write failures Close has
                                 returned nil and nothing the client started is left blocked.  With a failing WRITE side it
                                 is false: C08_close_panics_refuted (D25, known finding). *)
From Coq Require Import Lia.
From Verif Require Import Base.Prelude Base.Str ATP.Msg ATP.Client ATP.Handshake Proofs.ATPClient Proofs.ATPClientFault
  Proofs.ATPClientWitness Proofs.ATPClientInv Proofs.ATPClientFinal Proofs.ATPClientExamples.

Theorem C08_all_released : forall (payload : Type) (se : session payload) ls s,
  good_session se -> run (init se) ls = Some s -> final s ->
  forall i c, nth_error (callers s) i = Some c -> caller_done c = true.
Proof. intros payload se ls s G H F. apply final_all_done; auto. eapply inv_reachable; eauto. Qed.
Print Assumptions C08_all_released.

(* no reachable state of a good session with an unreturned Execute is stuck (the fault position, the schedule and the
   write failures are arbitrary) *)
Theorem C08_no_stuck : forall (payload : Type) (se : session payload) ls s,
  good_session se -> run (init se) ls = Some s ->
  forall i c, nth_error (callers s) i = Some c -> caller_done c = false -> exists l, step s l <> None.
Proof. intros payload se ls s G H. apply inv_progress. eapply inv_reachable; eauto. Qed.
Print Assumptions C08_no_stuck.

(* in every reachable state of EVERY session the fatal exit of the read loop (taken when Decode met anything that is
   not an intact message; invF: the fault then sits at the head of from_server, sticky) puts the client in a `noticed`
   state: the stream is poisoned, no entry holds a success, any later loop starts with an empty buffer ... *)
Theorem C08_fatal_exit_notices : forall (payload : Type) (se : session payload) ls (s s' : state payload) lo,
  run (init se) ls = Some s -> cur s = Some lo -> l_pc lo = LFatal -> step s (LLoop 0) = Some s' -> noticed s'.
Proof. exact reachable_fatal_exit_noticed. Qed.
Print Assumptions C08_fatal_exit_notices.

(* ... and from a noticed state on, whatever happens (any label list), an Execute that had not returned can only return
   an error: the ones pending at the fault and the ones started later *)
Theorem C08_released_with_error : forall (payload : Type) ls (s s' : state payload),
  noticed s -> run s ls = Some s' ->
  forall i v, result_at s i = None -> result_at s' i = Some v -> exists e, v = RErr e.
Proof. exact noticed_run. Qed.
Print Assumptions C08_released_with_error.

Theorem C08_no_fabricated_success : forall (payload : Type) (se : session payload) ls s i c o d,
  run (init se) ls = Some s -> nth_error (callers s) i = Some c -> c_pc c = CDone (ROk o d) ->
  exists st lg, In (WorkDone (c_run c) st o d lg) (decoded s).
Proof.
  intros payload se ls s i c o d H Hc Hp.
  assert (invD s) as ID by (eapply invD_run; [apply invD_init|exact H]).
  exact (d_callers _ _ ID _ _ _ Hc Hp).
Qed.
Print Assumptions C08_no_fabricated_success.

Theorem C08_close_returns : forall (payload : Type) (se : session payload) ls s,
  good_session se -> se_wfail se = None -> se_close se = true -> run (init se) ls = Some s -> final s ->
  closer s = KDone CloseOk /\ wg s = 0%nat /\ loop_live (cur s) = false /\
  (forall i c, nth_error (callers s) i = Some c -> caller_done c = true /\ (c_spc c = SNone \/ c_spc c = SExit)).
Proof.
  intros payload se ls s G Hw Hc H F. apply final_closed; auto.
  - eapply inv_reachable; eauto.
  - eapply run_wr_none; eauto.
  - intros E. apply (run_closer_none _ _ _ _ H) in E. cbn in E. rewrite Hc in E. discriminate.
Qed.
Print Assumptions C08_close_returns.

(* the safety core, step by step, for every session *)
Theorem C08_pending_has_live_loop : forall (payload : Type) (se : session payload) ls s,
  run (init se) ls = Some s -> has_pending (entries s) = true -> loop_live (cur s) = true /\ running s = true.
Proof.
  intros payload se ls s H Hp. assert (invA s) as I by (eapply invA_run; [apply invA_init|exact H]).
  destruct I as [A1 A2 A3 A4]. split; [auto|]. rewrite A1. auto.
Qed.
Print Assumptions C08_pending_has_live_loop.

Theorem C08_fault_is_fatal : forall (payload : Type) (s s' : state payload) lo ev q,
  cur s = Some lo -> l_pc lo = LDecode -> l_buf lo = [] -> from_server s = ev :: q -> is_fault ev = true ->
  step s (LLoop 0) = Some s' -> exists lo', cur s' = Some lo' /\ l_pc lo' = LFatal /\ from_server s' = ev :: q.
Proof. exact decode_fault_goes_fatal. Qed.
Print Assumptions C08_fault_is_fatal.

Theorem C08_fatal_exit_releases_all : forall (payload : Type) (s s' : state payload) lo,
  cur s = Some lo -> l_pc lo = LFatal -> step s (LLoop 0) = Some s' ->
  has_pending (entries s') = false /\ running s' = false /\ loop_live (cur s') = false /\
  Forall (fun e => exists v, snd e = Some v) (entries s').
Proof. exact fatal_step_releases_all. Qed.
Print Assumptions C08_fatal_exit_releases_all.

Theorem C08_server_fatal_releases_all : forall (payload : Type) (s s' : state payload) lo r sf,
  cur s = Some lo -> l_pc lo = LHandle (ErrMsg r sf true) -> step s (LLoop 0) = Some s' ->
  has_pending (entries s') = false /\ running s' = false /\ loop_live (cur s') = false.
Proof. exact server_fatal_step_releases_all. Qed.
Print Assumptions C08_server_fatal_releases_all.

Theorem C08_no_livelock : forall (payload : Type) ls (s s' : state payload),
  run s ls = Some s' -> (List.length ls <= mu s)%nat.
Proof. intros payload ls s s' H. pose proof (run_length_bounded _ _ _ _ H). lia. Qed.
Print Assumptions C08_no_livelock.

Theorem C08_handle_ok_only_from_workdone : forall (payload : Type) (s : state payload) lo m r o d,
  alookup r (entries (handle s lo m)) = Some (Some (ROk o d)) ->
  alookup r (entries s) = Some (Some (ROk o d)) \/ exists st lg, m = WorkDone r st o d lg.
Proof. exact handle_ok_only_from_workdone. Qed.
Print Assumptions C08_handle_ok_only_from_workdone.

Theorem C08_error_fanout_never_writes_success : forall (payload : Type) (s : state payload) (e : rerr) r o d,
  alookup r (entries (fan_out s (RErr e))) = Some (Some (ROk o d)) -> False.
Proof. exact fatal_never_ok. Qed.
Print Assumptions C08_error_fanout_never_writes_success.

Theorem C08_readschema_errors : forall (payload : Type) (w : bool) (ev : event payload) v,
  read_schema w ev = RSOk v <-> (w = true /\ ev = EvHello (Hello v true) /\ supported v = true).
Proof. exact read_schema_ok_iff. Qed.
Print Assumptions C08_readschema_errors.

Theorem C08_v1_success_iff_intact : forall (payload : Type) (w : bool) (ev : event payload) o d,
  execute_v1 w ev = V1Ok o d <-> (w = true /\ exists r st lg, ev = EvMsg (WorkDone r st o d lg)).
Proof. exact execute_v1_ok_iff. Qed.
Print Assumptions C08_v1_success_iff_intact.

(* D25 (known finding): write side fails right after the handshake => Execute returns the write error, the read loop is
   still blocked in Decode (wait group 1), Close cannot send client-done and panics when its 5 s timer fires *)
Theorem C08_close_panics_refuted :
  exists s, run (init d25_session) d25_schedule = Some s /\ closer s = KDone ClosePanic /\
            (exists c, nth_error (callers s) 0 = Some c /\ c_pc c = CDone (RErr ErrWrite)) /\
            loop_live (cur s) = true /\ wg s = 1%nat.
Proof. exact d25_close_panics. Qed.
Print Assumptions C08_close_panics_refuted.

(* non-vacuity: a session whose peer's first emission is replaced by EOF is a good session with Close and without write
   failures; one of its maximal executions ends with the Execute failed (stream error), Close returned, wg = 0 *)
Example C08_eof_session_is_good : good_session eof1 /\ se_wfail eof1 = None /\ se_close eof1 = true.
Proof. exact eof1_good. Qed.

Example C08_eof_session_maximal_execution :
  exists s c, run (init eof1) eof1_schedule = Some s /\ final s /\
              nth_error (callers s) 0 = Some c /\ c_pc c = CDone (RErr ErrStream) /\ closer s = KDone CloseOk /\ wg s = 0%nat.
Proof. exact eof1_maximal. Qed.

Example C08_readschema_example : read_schema true (EvHello (payload := unit) (Hello 3 true)) = RSOk 3
  /\ read_schema true (EvHello (payload := unit) (Hello 2 true)) = RSErr
  /\ read_schema true (EvHello (payload := unit) (Hello 3 false)) = RSErr
  /\ read_schema true (@EvPartialThenEOF unit) = RSErr /\ read_schema false (EvHello (payload := unit) (Hello 3 true)) = RSErr.
Proof. repeat split; reflexivity. Qed.
