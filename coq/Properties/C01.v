(* Properties/C01.v — Serialize and Unserialize are mutual inverses, in memory and over the CBOR wire;
   the typed entry points agree with the untyped ones.  Statements only; proofs in Proofs/C01Round.v,
   vocabulary (wire, ints_in_range, rt_kind, roundtrips, unser_typed) in Schema/SpecRT.v.

   THE FULL STATEMENT (every schema kind; `≈` = equality up to the order of map entries, NaN ≈ NaN):

     C01_roundtrip (full statement) : forall words pu e s f v n,
       wf_schema e s = true -> no_key_collision s v = true -> ints_in_range n = true ->
       unser words pu f e s v = Ok n ->
       exists f0 w, wire w = true /\ forall f', f0 <= f' ->
         validate words pu f' e s n = Ok tt /\ serialize words pu f' e s n = Ok w /\
         unser words pu f' e s w ≈ Ok n /\ (forall D, unser words pu f' e s (cbor_norm D w) ≈ Ok n) /\
         (forall n2, unser words pu f' e s w = Ok n2 -> serialize words pu f' e s n2 ≈ Ok w).

   PROVED below as C01_roundtrip_partial: exactly this statement, with `=` in place of `≈` and f0 = 2*f, for the
   kinds `rt_kind`: int, float, string, bool, pattern, int enum, string enum (also over a named string type)
   and lists of these nested to any depth — by induction on the fuel.  NOT closed here: `any`, maps (map_set
   with converted keys: needs the no_key_collision hypothesis and `≈`), map-based objects (the three folds of
   Proofs/C03Obj.v composed with the per-property round trip), one-of (discriminator re-attachment), references
   and scopes (environment well-formedness).  For those kinds the same chain is evaluated on every generated case
   by the correspondence check (`rt` ops of families structured / c01rt against the SDK with a real CBOR
   encode/decode) and by the direct check of lib/props_c01.py. *)
From Verif Require Import Base.Prelude Base.Str Base.Float Base.GoVal
  Schema.Regex Schema.Units Schema.Syntax Schema.Ops Schema.Cbor Schema.SpecRT Proofs.OpsLemmas Proofs.C01Round.
Open Scope string_scope.
Open Scope Z_scope.

Theorem C01_roundtrip_partial : forall words pu f e s v n,
  rt_kind s = true -> unser words pu f e s v = Ok n -> ints_in_range n = true ->
  roundtrips words pu e s n (2 * f).
Proof. exact roundtrip_partial. Qed.
Print Assumptions C01_roundtrip_partial.

(* UnserializeType = Unserialize followed by the assertion `.(T)` with T the schema's reflected type: the
   assertion never fails on a value Unserialize returned, so the typed entry point never panics where the
   untyped one does not and returns the same result; ValidateType / SerializeType only delegate. *)
Theorem C01_typed_entry : forall words pu f e s v, typed_kind s = true ->
  unser_typed words pu f e s v = unser words pu f e s v.
Proof. exact typed_entry. Qed.
Print Assumptions C01_typed_entry.

Theorem C01_typed_entry_delegates : forall words pu f e s v,
  validate_typed words pu f e s v = validate words pu f e s v /\ serialize_typed words pu f e s v = serialize words pu f e s v.
Proof. exact typed_delegates. Qed.
Print Assumptions C01_typed_entry_delegates.

(* the wrapper as it was before the repair of D13 (assertion to `string` for every string enum) panics *)
Theorem C01_typed_entry_D13_refuted :
  exists e s v n why,
    typed_kind s = true /\ unser [] (fun _ _ => None) 1 e s v = Ok n
    /\ unser_typed_with [] (fun _ _ => None) asserted_D13 1 e s v = Panic why.
Proof. exact typed_entry_D13_refuted. Qed.
Print Assumptions C01_typed_entry_D13_refuted.

(* supporting lemma of independent interest: each input mapper gives the same reading for a decoder-produced
   scalar and for its CBOR normal form (uint64 for non-negative integers, float64 for float32) *)
Theorem C01_mapper_norm_invariant : forall u pu D v, plain_scalar v = true ->
  int_mapper u (cbor_norm D v) = int_mapper u v
  /\ float_mapper pu u (cbor_norm D v) = float_mapper pu u v
  /\ string_mapper (cbor_norm D v) = string_mapper v.
Proof. exact mapper_norm_invariant. Qed.
Print Assumptions C01_mapper_norm_invariant.

(* ---- non-vacuity: a list of integers given as uint64 and as a numeric string ---- *)
Definition ex_env : env := mkEnv [] [] (mkOracles (fun _ => None) (fun _ => true)).
Example C01_roundtrip_example :
  roundtrips [] (fun _ _ => None) ex_env (SList (SInt (Some 0) None None) None (Some 4))
             (VSlice (TSlice (TInt I64)) false [vi64 3; vi64 4]) 4.
Proof.
  apply (C01_roundtrip_partial [] (fun _ _ => None) 2 ex_env _ (VSlice t_any_slice false [VInt (TInt U64) 3; vstr "4"])); reflexivity.
Qed.
Example C01_typed_example :
  unser_typed [] (fun _ _ => None) 2 ex_env (SEnumStr (Some "MyStr") [("x", None)]) (vstr "x") = Ok (VStr (TNamed "MyStr" TStr) "x").
Proof. reflexivity. Qed.
