(* Properties/C01.v — Serialize and Unserialize are mutual inverses, in memory and over the CBOR wire;
   the typed entry points agree with the untyped ones.  Statements only; proofs in Proofs/C01*.v, vocabulary in
   Schema/SpecRT.v (wire, ints_in_range, roundtrips, unser_typed) and Schema/C01Spec.v (swire, distinct_in, any_clean,
   c01_scope, roundtrips_strong).

   C01_roundtrip (every schema kind): for every environment and schema that is well-formed (Wf.wf_schema) and in
   c01_scope, every raw value v in which no two entries of one map denote the same key under the schema
   (distinct_in: the schema-directed no_key_collision, D19), every fuel f:
       unser f e s v = Ok n  /\  ints_in_range n   ==>
       exists w in strong wire form, at EVERY fuel f' >= 2*f:
         validate f' e s n = Ok tt,  serialize f' e s n = Ok w,  unser f' e s w = Ok n,
         unser f' e s (cbor_norm D w) = Ok n for every depth D,  and re-serializing gives w again.
   The conclusion is plain equality `=` (of the model's ordered association lists, NaN = NaN structurally), which
   implies the `≈` of the property text (Perm.perm_val is reflexive); no ≈ is needed because the model is
   deterministic and Go's map order is quantification over permutations of the INPUT (C12).

   c01_scope oneofs e s: all of int, float, string, bool, pattern, any, both enums, list, map, map-based object,
   reference, scope, nested in any way through scopes / namespaces; with oneofs = true also one-of (int or string keys,
   members objects / references / scopes) whose discriminator is not inlined, or inlined with a plain type in every
   member (disc_plain: int / int enum without units, string, un-named string enum), under the extra hypothesis
   any_clean n (homogeneous []any, map[any]any keyed by int64 only or string only).  That hypothesis is NECESSARY: a
   finding of this proof, C01_roundtrip_oneof_any_refuted - OneOf.Validate / Serialize run the member's
   ValidateCompatibility on the data and AnySchema's is stricter than its Unserialize; reproduced on the Go code.

   STILL PARTIAL: a one-of whose INLINED discriminator property has units or a named string type is outside c01_scope:
   the property re-reads the raw discriminator in its own way, and C01_roundtrip_inlined_named_refuted shows the full
   statement is false there (a second finding, reproduced on the Go code); struct-mapped objects are Schema/XOps.v
   (C01 of that model is another work package).  The earlier C01_roundtrip_partial (scalars and lists, no hypothesis
   besides ints_in_range) stays. *)
From Verif Require Import Base.Prelude Base.Str Base.Float Base.GoVal
  Schema.Regex Schema.Units Schema.Syntax Schema.Ops Schema.Cbor Schema.Wf Schema.SpecRT Schema.C01Spec
  Proofs.OpsLemmas Proofs.C01Round Proofs.CborNorm Proofs.C01Base Proofs.C01Wire Proofs.C01Thm.
Open Scope string_scope.
Open Scope Z_scope.

Theorem C01_roundtrip : forall words pu oneofs e s f v n,
  wf_schema e s = true -> c01_scope oneofs e s = true ->
  distinct_in words pu f e s v = true ->
  unser words pu f e s v = Ok n -> ints_in_range n = true ->
  (oneofs = true -> any_clean n = true) ->
  roundtrips_strong words pu e s n (2 * f).
Proof. exact roundtrip_full. Qed.
Print Assumptions C01_roundtrip.

(* the same with the weaker wire predicate of Schema/SpecRT.v (the vocabulary of C01_roundtrip_partial) *)
Theorem C01_roundtrip_wire : forall words pu oneofs e s f v n,
  wf_schema e s = true -> c01_scope oneofs e s = true ->
  distinct_in words pu f e s v = true ->
  unser words pu f e s v = Ok n -> ints_in_range n = true ->
  (oneofs = true -> any_clean n = true) ->
  roundtrips words pu e s n (2 * f).
Proof. exact roundtrip_full_wire. Qed.
Print Assumptions C01_roundtrip_wire.

(* the hypotheses are necessary: colliding keys (D19) ... *)
Theorem C01_roundtrip_collision_refuted :
  exists n, wf_schema c01_env0 c01_coll_schema = true /\ c01_scope false c01_env0 c01_coll_schema = true
    /\ unser [] c01_nopu 3 c01_env0 c01_coll_schema c01_coll_raw = Ok n /\ ints_in_range n = true
    /\ distinct_in [] c01_nopu 3 c01_env0 c01_coll_schema c01_coll_raw = false
    /\ forall f', validate [] c01_nopu f' c01_env0 c01_coll_schema n <> Ok tt.
Proof. exact roundtrip_collision_refuted. Qed.
Print Assumptions C01_roundtrip_collision_refuted.

(* ... and `any` data under a one-of that ValidateCompatibility does not accept (FINDING: reproduced on the SDK) *)
Theorem C01_roundtrip_oneof_any_refuted :
  exists n, wf_schema c01_env0 c01_oa_schema = true /\ c01_scope true c01_env0 c01_oa_schema = true
    /\ distinct_in [] c01_nopu 6 c01_env0 c01_oa_schema c01_oa_raw = true
    /\ unser [] c01_nopu 6 c01_env0 c01_oa_schema c01_oa_raw = Ok n /\ ints_in_range n = true
    /\ any_clean n = false
    /\ forall f', validate [] c01_nopu f' c01_env0 c01_oa_schema n <> Ok tt.
Proof. exact roundtrip_oneof_any_refuted. Qed.
Print Assumptions C01_roundtrip_oneof_any_refuted.

(* outside c01_scope the full statement is false: an inlined discriminator of a named string type (FINDING) *)
Theorem C01_roundtrip_inlined_named_refuted :
  exists n, wf_schema c01_env0 c01_inl_schema = true /\ c01_scope true c01_env0 c01_inl_schema = false
    /\ distinct_in [] c01_nopu 6 c01_env0 c01_inl_schema c01_inl_raw = true
    /\ unser [] c01_nopu 6 c01_env0 c01_inl_schema c01_inl_raw = Ok n /\ ints_in_range n = true /\ any_clean n = true
    /\ forall f', validate [] c01_nopu f' c01_env0 c01_inl_schema n <> Ok tt.
Proof. exact roundtrip_inlined_named_refuted. Qed.
Print Assumptions C01_roundtrip_inlined_named_refuted.

(* Serialize's output - any schema, any input, any fuel - contains only int64 / float64 / string / bool / []any /
   map[any]any / map[string]any, and no nil *)
Theorem C01_serialize_emits_wire : forall words pu f e s v w,
  serialize words pu f e s v = Ok w -> wire w = true.
Proof. exact serialize_emits_wire. Qed.
Print Assumptions C01_serialize_emits_wire.

(* what CBOR does to a wire value: the result differs from it only in integer width and container type, is again
   decodable, and every schema reads both alike; one level spelled out: non-negative integers become uint64, both
   map types become map[any]any, floats stay float64 *)
Theorem C01_cbor_norm_wire : forall D w, swire w = true ->
  neq w (cbor_norm D w) /\ decodable (cbor_norm D w)
  /\ forall words pu f e s, unser words pu f e s (cbor_norm D w) = unser words pu f e s w.
Proof. exact cbor_norm_wire. Qed.
Print Assumptions C01_cbor_norm_wire.

Theorem C01_cbor_norm_wire_shape : forall D w, swire w = true ->
  match w with
  | VInt _ z => cbor_norm (S D) w = VInt (TInt (if 0 <=? z then U64 else I64)) z
  | VFloat _ x => cbor_norm (S D) w = vf64 x
  | VStr _ s => cbor_norm (S D) w = vstr s
  | VBool _ b => cbor_norm (S D) w = vbool b
  | VSlice _ _ l => cbor_norm (S D) w = VSlice t_any_slice false (map (cbor_norm D) l)
  | VMap _ _ kvs => cbor_norm (S D) w = VMap t_any_map false (map (fun kv => (cbor_norm D (fst kv), cbor_norm D (snd kv))) kvs)
  | _ => False
  end.
Proof. exact cbor_norm_wire_shape. Qed.
Print Assumptions C01_cbor_norm_wire_shape.

(* the strong wire form implies the weak one and decodability *)
Theorem C01_swire_wire_decodable : forall w, swire w = true -> wire w = true /\ decodable w.
Proof. exact swire_wire_decodable. Qed.
Print Assumptions C01_swire_wire_decodable.

(* the earlier, hypothesis-light statement for scalars, enums, pattern and lists of them (no wf / distinctness needed) *)
Theorem C01_roundtrip_partial : forall words pu f e s v n,
  rt_kind s = true -> unser words pu f e s v = Ok n -> ints_in_range n = true ->
  roundtrips words pu e s n (2 * f).
Proof. exact roundtrip_partial. Qed.
Print Assumptions C01_roundtrip_partial.

(* UnserializeType = Unserialize followed by the assertion `.(T)` with T the schema's reflected type: the
   assertion never fails on a value Unserialize returned, so the typed entry point never panics where the
   untyped one does not and returns the same result; ValidateType / SerializeType only delegate. *)
Theorem C01_typed_entry : forall words pu f e s v, typed_kind s = true ->
  unser_typed words pu f e s v = unser words pu f e s v.
Proof. exact typed_entry. Qed.
Print Assumptions C01_typed_entry.

Theorem C01_typed_entry_delegates : forall words pu f e s v,
  validate_typed words pu f e s v = validate words pu f e s v /\ serialize_typed words pu f e s v = serialize words pu f e s v.
Proof. exact typed_delegates. Qed.
Print Assumptions C01_typed_entry_delegates.

(* the wrapper as it was before the repair of D13 (assertion to `string` for every string enum) panics *)
Theorem C01_typed_entry_D13_refuted :
  exists e s v n why,
    typed_kind s = true /\ unser [] (fun _ _ => None) 1 e s v = Ok n
    /\ unser_typed_with [] (fun _ _ => None) asserted_D13 1 e s v = Panic why.
Proof. exact typed_entry_D13_refuted. Qed.
Print Assumptions C01_typed_entry_D13_refuted.

(* supporting lemma of independent interest: each input mapper gives the same reading for a decoder-produced
   scalar and for its CBOR normal form (uint64 for non-negative integers, float64 for float32) *)
Theorem C01_mapper_norm_invariant : forall u pu D v, plain_scalar v = true ->
  int_mapper u (cbor_norm D v) = int_mapper u v
  /\ float_mapper pu u (cbor_norm D v) = float_mapper pu u v
  /\ string_mapper (cbor_norm D v) = string_mapper v.
Proof. exact mapper_norm_invariant. Qed.
Print Assumptions C01_mapper_norm_invariant.

(* ---- non-vacuity ---- *)
(* a scope whose root object holds a map of lists (numeric string and uint64 items), a heterogeneous `any` list and
   a reference to a second object (boolean word) *)
Example C01_roundtrip_example :
  exists n, unser c01_ex_words c01_nopu 8 c01_env0 c01_ex_schema c01_ex_raw = Ok n
            /\ roundtrips_strong c01_ex_words c01_nopu c01_env0 c01_ex_schema n 16.
Proof. exact roundtrip_full_example. Qed.
(* a one-of with an INLINED string discriminator declared by its members (one reached through a reference), under a
   property of a scope's root object; the raw discriminator is the number 7 *)
Example C01_roundtrip_inlined_example :
  exists n, unser [] c01_nopu 9 c01_env0 c01_ex2_schema c01_ex2_raw = Ok n
            /\ roundtrips_strong [] c01_nopu c01_env0 c01_ex2_schema n 18.
Proof. exact roundtrip_inlined_example. Qed.
(* an integer-keyed one-of selected by the numeric string "1", member with an int and an `any` property *)
Example C01_roundtrip_oneof_example :
  exists n, unser [] c01_nopu 8 c01_env0 c01_ex1_schema c01_ex1_raw = Ok n
            /\ roundtrips_strong [] c01_nopu c01_env0 c01_ex1_schema n 16.
Proof. exact roundtrip_oneof_example. Qed.

Definition ex_env : env := mkEnv [] [] (mkOracles (fun _ => None) (fun _ => true)).
Example C01_roundtrip_partial_example :
  roundtrips [] (fun _ _ => None) ex_env (SList (SInt (Some 0) None None) None (Some 4))
             (VSlice (TSlice (TInt I64)) false [vi64 3; vi64 4]) 4.
Proof.
  apply (C01_roundtrip_partial [] (fun _ _ => None) 2 ex_env _ (VSlice t_any_slice false [VInt (TInt U64) 3; vstr "4"])); reflexivity.
Qed.
Example C01_typed_example :
  unser_typed [] (fun _ _ => None) 2 ex_env (SEnumStr (Some "MyStr") [("x", None)]) (vstr "x") = Ok (VStr (TNamed "MyStr" TStr) "x").
Proof. reflexivity. Qed.

(* ====================================================================================================
   Struct-mapped objects (Schema/XOps.v; Proofs/XRound.v, XRoundThm.v).

   FULL STATEMENT (NOT proved as a whole):
     C01_struct_roundtrip : xrt_desc e props si = true -> raw_keys_unique v = true -> (children round-trip) ->
       xunser (S f) e O v = Ok n ->
       xvalidate (S f') e O n = Ok tt /\ exists w, xserialize (S f') e O n = Ok w /\ xunser (S f') e O w ~ Ok n
     with O = XObject id u props (Some si) and ~ = equality up to treat-empty-as-default (empty value = absence).
   PROVED (C01_struct_roundtrip_partial): the first two conjuncts — the value Unserialize returns passes Validate
   and is accepted by Serialize — for every struct descriptor satisfying the BOOLEAN `xrt_desc` (unique property
   names; direct fields of the property's reflected type or a pointer to it, distinct per property;
   `optional_fields_representable`: a property that is neither required nor given a default sits on a field whose
   zero value reads as absent — pointer, nil interface, or treat-empty-as-default —, and a treat-empty-as-default property is not
   required, has no required_if / required_if_not and is named in no required_if_not), relative to the property types
   (xchildren_ok: what a property type's Unserialize returns is of its reflected type, passes its Validate and is
   accepted by its Serialize).  This is exactly the statement D44 violates (C01_struct_d44_refuted) — the D44
   descriptor has xrt_desc = false (C01_struct_desc_example).  The key lemma (C01_struct_extract_inverts_assign):
   field extraction inverts unserializeToStruct.  MISSING: the third conjunct (re-Unserialize), which is exercised
   by the direct check of family `structobj` (op rt); promoted fields of embedded structs (outside xrt_desc). *)
From Verif Require Import Base.XReflect Schema.SpecObj Schema.XSyntax Schema.XOps Schema.XWf
  Proofs.XStruct Proofs.XPaths Proofs.XRound Proofs.XRoundThm Proofs.XExamples.

Theorem C01_struct_roundtrip_partial : forall words pu f f' e id u props si v n,
  xrt_desc e props si = true -> raw_keys_unique v = true -> xchildren_ok words pu f f' e props ->
  xunser words pu (S f) e (XObject id u props (Some si)) v = Ok n ->
  xvalidate words pu (S f') e (XObject id u props (Some si)) n = Ok tt /\
  exists w, xserialize words pu (S f') e (XObject id u props (Some si)) n = Ok w.
Proof. exact x_struct_roundtrip_partial. Qed.
Print Assumptions C01_struct_roundtrip_partial.

(* field extraction (getFieldReflection + the treat-empty-as-default test) inverts unserializeToStruct *)
Theorem C01_struct_extract_inverts_assign : forall e props si, xrt_desc e props si = true -> forall (r : raw) (n : gval),
  NoDup (map fst r) ->
  (forall k, In k (map fst r) -> In k (map fst props)) ->
  (forall k x p, In (k, x) r -> In (k, p) props -> xres_ok (xprt e (k, p)) x = true) ->
  xto_struct e si r = Ok n ->
  exists sv, xstruct_arg si n = Some sv /\
    forall np, In np props ->
      match alookup (fst np) r with
      | Some x => xfield_value e si sv np = Some x \/
                  (xfield_value e si sv np = None /\ p_empty_is_default (snd np) = true)
      | None => xabsent_ok e si np = true -> xfield_value e si sv np = None
      end.
Proof. exact xto_struct_extract. Qed.
Print Assumptions C01_struct_extract_inverts_assign.

(* D44 (known finding): outside optional_fields_representable the value Unserialize returns fails Validate and Serialize *)
Theorem C01_struct_d44_refuted :
  exists (e : xenv) (s : xschema) (v n : gval),
    xunser w_words w_pu 50 e s v = Ok n /\
    is_err (xvalidate w_words w_pu 50 e s n) = true /\
    is_err (xserialize w_words w_pu 50 e s n) = true.
Proof. exact x_struct_d44_refuted. Qed.
Print Assumptions C01_struct_d44_refuted.

(* the boolean accepts the harness's *XPtrs (optional properties on pointer fields) and XNested (required members on
   value fields, an optional member behind a pointer) and rejects the D44 descriptor *)
Example C01_struct_desc_example :
  xrt_desc (xs_env xs_tab) xs_inner_props xs_inner_si = true /\
  xrt_desc (xs_env xs_tab) xs_ptrs_props xs_ptrs_si = true /\
  xrt_desc (xs_env xs_tab) xs_nested_props xs_nested_si = true /\
  xrt_desc (w_env [])
    [("a", w_prop (XInt None None None) false ["b"] None); ("b", w_prop (XInt None None None) false [] None)]
    (mkStructInfo "XTwo" false
       [("a", mkFieldRef "A" [0%nat] [0%nat] (TInt I64)); ("b", mkFieldRef "B" [1%nat] [1%nat] (TInt I64))]) = false.
Proof. exact xs_rt_desc. Qed.

(* the hypotheses are jointly satisfiable, children included: for XFlags{On bool; Opt *bool; Zero bool} (a required
   property on a value field, an optional one on a pointer field conflicting with a treat-empty-as-default one on a
   value field) the children condition is PROVED (boolean property types) and the theorem holds for every raw
   value and every fuel *)
From Verif Require Import Proofs.XRoundEx.
Theorem C01_struct_roundtrip_instance : forall words pu f f' v n,
  raw_keys_unique v = true ->
  xunser words pu (S (S f)) xf_env xf_obj v = Ok n ->
  xvalidate words pu (S (S f')) xf_env xf_obj n = Ok tt /\
  exists w, xserialize words pu (S (S f')) xf_env xf_obj n = Ok w.
Proof. exact x_struct_roundtrip_flags. Qed.
Print Assumptions C01_struct_roundtrip_instance.

Example C01_struct_roundtrip_run :
  let v := VMap t_any_map false [(vstr "on", vstr "yes"); (vstr "zero", vbool false)] in
  let n := VStruct (TStruct "XFlags") [("On", vbool true); ("Opt", VPtr (TPtr TBool) None); ("Zero", vbool false)] in
  raw_keys_unique v = true /\
  xunser [("yes", true)] (fun _ _ => None) 3 xf_env xf_obj v = Ok n /\
  xserialize [("yes", true)] (fun _ _ => None) 3 xf_env xf_obj n = Ok (VMap t_str_map false [(vstr "on", vbool true)]).
Proof. exact x_struct_roundtrip_flags_run. Qed.

(* ====================================================================================================
   Struct-mapped objects, the THIRD conjunct (Proofs/XRoundFull.v, XRoundFullEx.v): C01_struct_roundtrip, the FULL
   statement announced above.  Re-Unserialize of the serialized form succeeds (at the fuel of the first Unserialize
   and at every larger one) and gives the value back up to treat-empty-as-default:
     xstruct_sim e props si n n'  :=  both are values of the struct type T and every property has the same
                                      value (xfield_value: absent / present with value x) in n and in n'
   (plain `=` is not available: a pointer field holding an empty value of a treat-empty-as-default property comes
   back as a nil pointer; C01_struct_sim_serialize: n and n' have the same Validate verdict and the same serialized
   form, so n' is the normal form of n in the sense of C01_roundtrip's "re-serializing gives w again").
   Hypotheses: those of C01_struct_roundtrip_partial, with the children hypothesis in three parts (xchildren_rt:
   reflected type / Validate / Serialize as before, PLUS the serialized property value unserializes back to the same
   value, PLUS a treat-empty-as-default property contributes no sub-object defaults when absent), and the boolean
   `xempty_nodefault` (a treat-empty-as-default property has no decodable default).  The latter is NECESSARY
   (C01_struct_roundtrip_emptydefault_refuted): with a default, an explicitly supplied empty value is dropped by
   Serialize and comes back as the default. *)
From Verif Require Import Proofs.XRoundFull Proofs.XRoundFullEx.

Theorem C01_struct_roundtrip : forall words pu f f' f'' e id u props si v n,
  xrt_desc e props si = true -> xempty_nodefault e props = true -> raw_keys_unique v = true ->
  xchildren_rt words pu f f' e props -> (S f <= f'')%nat ->
  xunser words pu (S f) e (XObject id u props (Some si)) v = Ok n ->
  xvalidate words pu (S f') e (XObject id u props (Some si)) n = Ok tt /\
  exists w, xserialize words pu (S f') e (XObject id u props (Some si)) n = Ok w /\
    exists n', xunser words pu f'' e (XObject id u props (Some si)) w = Ok n' /\ xstruct_sim e props si n n'.
Proof. exact x_struct_roundtrip_fuel. Qed.
Print Assumptions C01_struct_roundtrip.

(* the three-part children hypothesis discharged (boolean property types): XFlags, every raw value, every fuel *)
Theorem C01_struct_roundtrip_full_instance : forall words pu f f' f'' v n,
  raw_keys_unique v = true -> (S (S f) <= f'')%nat ->
  xunser words pu (S (S f)) xf_env xf_obj v = Ok n ->
  xvalidate words pu (S (S f')) xf_env xf_obj n = Ok tt /\
  exists w, xserialize words pu (S (S f')) xf_env xf_obj n = Ok w /\
    exists n', xunser words pu f'' xf_env xf_obj w = Ok n' /\ xstruct_sim xf_env xf_props xf_si n n'.
Proof. exact x_struct_roundtrip_flags_full. Qed.
Print Assumptions C01_struct_roundtrip_full_instance.

Example C01_struct_roundtrip_full_run :
  let v := VMap t_any_map false [(vstr "on", vstr "yes"); (vstr "zero", vbool false)] in
  let n := VStruct (TStruct "XFlags") [("On", vbool true); ("Opt", VPtr (TPtr TBool) None); ("Zero", vbool false)] in
  let w := VMap t_str_map false [(vstr "on", vbool true)] in
  xunser [("yes", true)] (fun _ _ => None) 3 xf_env xf_obj v = Ok n /\
  xserialize [("yes", true)] (fun _ _ => None) 3 xf_env xf_obj n = Ok w /\
  xunser [("yes", true)] (fun _ _ => None) 3 xf_env xf_obj w = Ok n.
Proof. exact x_struct_roundtrip_flags_full_run. Qed.

(* XInner{A int64 `a` default 1; B string `b` treat-empty-as-default}: the boolean hypotheses hold; the default fills `a`,
   the supplied empty `b` is dropped by Serialize, re-Unserialize gives the struct back *)
Example C01_struct_roundtrip_inner_run :
  let e := xs_env xs_tab in
  let v := xs_m [("b", vstr "")] in
  let n := xs_inner_v 1 "" in
  let w := VMap t_str_map false [(vstr "a", vi64 1)] in
  xrt_desc e xs_inner_props xs_inner_si = true /\ xempty_nodefault e xs_inner_props = true /\
  raw_keys_unique v = true /\
  xunser w_words w_pu 5 e xs_inner v = Ok n /\
  xvalidate w_words w_pu 5 e xs_inner n = Ok tt /\
  xserialize w_words w_pu 5 e xs_inner n = Ok w /\
  xunser w_words w_pu 5 e xs_inner w = Ok n.
Proof. exact x_struct_roundtrip_inner_run. Qed.

(* xempty_nodefault is necessary (FINDING to replay on the SDK): `a` treat-empty-as-default AND default 1; {a: 0} -> A = 0
   -> {} -> A = 1 *)
Theorem C01_struct_roundtrip_emptydefault_refuted :
  exists (e : xenv) (v n w n' : gval),
    xrt_desc e xs_bad_props xs_inner_si = true /\ xempty_nodefault e xs_bad_props = false /\
    raw_keys_unique v = true /\
    xunser w_words w_pu 5 e xs_bad v = Ok n /\
    xvalidate w_words w_pu 5 e xs_bad n = Ok tt /\
    xserialize w_words w_pu 5 e xs_bad n = Ok w /\
    xunser w_words w_pu 5 e xs_bad w = Ok n' /\
    n' <> n /\ ~ xstruct_sim e xs_bad_props xs_inner_si n n'.
Proof. exact x_struct_roundtrip_emptydefault_refuted. Qed.
Print Assumptions C01_struct_roundtrip_emptydefault_refuted.

(* xstruct_sim is indistinguishable to Validate and Serialize: n' (the re-unserialized value) has the Validate verdict of n
   and the SAME serialized form w — with C01_struct_roundtrip: Unserialize (Serialize n') = n' exactly, n' is the normal form of n *)
Theorem C01_struct_sim_serialize : forall words pu f e id u props si n n',
  xrt_desc e props si = true -> xstruct_sim e props si n n' ->
  (xvalidate words pu (S f) e (XObject id u props (Some si)) n = Ok tt ->
   xvalidate words pu (S f) e (XObject id u props (Some si)) n' = Ok tt) /\
  (forall w, xserialize words pu (S f) e (XObject id u props (Some si)) n = Ok w ->
             xserialize words pu (S f) e (XObject id u props (Some si)) n' = Ok w).
Proof. exact x_struct_sim_paths. Qed.
Print Assumptions C01_struct_sim_serialize.
