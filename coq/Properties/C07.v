(* Properties/C07.v — The ATP server survives any client and answers each accepted run exactly once.

   Statements only.  The model is ATP/Server.v (atp/server.go after the repairs of D21/D24, D23
   and with D22's CallSignal error): a labelled transition system whose environment labels are
   the client (LArrive ev: ANY event at ANY moment — valid work-starts, unknown step / signal /
   message ids, missing and duplicate run ids, wrongly typed payloads, garbage, a message cut
   short, end of input), the step handlers' timing (LRelease), cancellation and the client closing
   the server's output.  `run c init ls` executes an arbitrary label list `ls` (labels that are not
   enabled are skipped), so quantifying over `ls` quantifies over every client script, every
   schedule of the goroutines and every ordering of end-of-input versus step completion;
   quantifying over `c` quantifies over every behaviour oracle (success / undeclared output /
   invalid data / rejected input / panic, slow or not, per execution) and every set of declared
   step and signal ids.  No bound on the number of runs, messages or steps anywhere. *)
From Coq Require Import Lia.
From Verif Require Import Base.Prelude Base.Str ATP.Msg ATP.Server ATP.ServerPreFix Proofs.Server Proofs.ServerRaised Proofs.ServerPreFix.
Open Scope string_scope.
Open Scope list_scope.
Open Scope nat_scope.

(* ---- C07_no_crash: RunATPServer never dies (no send on a closed channel, no nil dereference) ---- *)
Theorem C07_no_crash : forall (c : cfg) (ls : list label), crashed (run c init ls) = false.
Proof. exact c07_no_crash. Qed.
Print Assumptions C07_no_crash.

(* ---- C07_one_terminal: per run id r, the terminal messages (work-done or step-fatal error for r)
   on the output are accounted for exactly: what the consumed work-starts owe (accepted ones, and
   those whose payload does not decode, which are answered by a step-fatal error under their run
   id) = not yet emitted by its goroutine + in flight (read loop, channel, handler) + written +
   lost because the client had closed the output.  Hence at most one terminal message per
   work-start in EVERY reachable state, and exactly one once the server has returned with its
   output open. ---- *)
Theorem C07_terminal_accounting : forall (c : cfg) (ls : list label) (r : runid), r <> "" ->
  let s := run c init ls in
  sumf (ev_accepted r) (hist s) + sumf (ev_badws r) (hist s)
  = sumf (w_pending r) (workers s) + rl_pending (term r) (rl s) + sumf (term r) (wd s) + h_pending (term r) (hp s)
    + sumf (oterm r) (out s) + sumf (oterm r) (lost s).
Proof. exact c07_terminal_accounting. Qed.
Print Assumptions C07_terminal_accounting.

(* the step has computed its result and not yet written it: 1 owed = 1 pending *)
Example C07_terminal_accounting_nonvacuous :
  let s := run c07_example_cfg init (firstn 7 c07_example_schedule) in
  sumf (ev_accepted "a") (hist s) = 1 /\ sumf (w_pending "a") (workers s) = 1 /\ sumf (oterm "a") (out s) = 0.
Proof. vm_compute. repeat split; reflexivity. Qed.

Theorem C07_one_terminal_at_most : forall (c : cfg) (ls : list label) (r : runid), r <> "" ->
  let s := run c init ls in
  sumf (oterm r) (out s) <= sumf (ev_accepted r) (hist s) + sumf (ev_badws r) (hist s).
Proof. exact c07_at_most_one. Qed.
Print Assumptions C07_one_terminal_at_most.

Theorem C07_one_terminal : forall (c : cfg) (ls : list label) (r : runid), r <> "" ->
  let s := run c init ls in
  hp s = HReturned -> out_closed s = false ->
  sumf (oterm r) (out s) = sumf (ev_accepted r) (hist s) + sumf (ev_badws r) (hist s).
Proof. exact c07_exactly_one. Qed.
Print Assumptions C07_one_terminal.

Example C07_one_terminal_nonvacuous :
  let s := run c07_example_cfg init c07_example_schedule in
  hp s = HReturned /\ out_closed s = false /\ sumf (oterm "a") (out s) = 1 /\
  out s = [OHello; ODone "a" "success"; OErr (mkSE "" true true)] /\ ret s = [mkSE "" true true].
Proof. vm_compute. repeat split; reflexivity. Qed.

(* ---- C07_errors_reported: every ServerError value the server creates (`raised`, with the flags
   written in ATP/Server.v: decode failure / end of input "",step-fatal,server-fatal; undecodable
   work-start run,step-fatal; missing run or step id "",step-fatal; failed / panicking / unknown step
   run,step-fatal; signal problems run-or-"",neither; unknown message id "",neither) is returned by
   RunATPServer, and while the output is open it is also written as an error message with the same
   run id and flags.  `g` is an arbitrary weight, e.g. the indicator of one (run id, flags) class:
   the three lists are equal as multisets. ---- *)
Theorem C07_errors_reported : forall (c : cfg) (ls : list label) (g : srverr -> nat),
  let s := run c init ls in
  hp s = HReturned ->
  sumf g (ret s) = sumf g (raised s) /\
  (out_closed s = false -> sumf (og g) (out s) = sumf g (raised s)).
Proof. exact c07_errors_reported. Qed.
Print Assumptions C07_errors_reported.

Example C07_errors_reported_nonvacuous :
  let s := run c07_example_cfg init c07_example_schedule in
  hp s = HReturned /\ raised s = [mkSE "" true true].
Proof. vm_compute. split; reflexivity. Qed.

(* ---- C07_errors_are_the_problems: WHICH errors are created.  `hist_fold (hist s)` replays the runtime
   messages the read loop has consumed through the documented classification (Proofs/ServerRaised.v
   msg_problem / ev_problem: missing run or step id -> ("",step-fatal); undecodable work-start ->
   (run,step-fatal); signal without run id -> ("",-); signal for a run never started -> (run,-);
   undecodable signal -> (run,-); unknown message id -> ("",-); garbage / cut message / end of input
   -> ("",step-fatal,server-fatal); client-done, valid work-starts and signals -> nothing), `w_problem`
   gives one (run,step-fatal) per execution that does not succeed (unknown step, rejected input,
   undeclared output, invalid data, panic) and one (run,-) per failed signal call (unknown step or
   signal id, rejected data); x <= 1 accounts for the single server-fatal report of a failed
   handshake or of a read on the stdin the server closed itself.  With C07_errors_reported: the
   returned ServerErrors and the error messages on the open output are exactly these, as multisets. ---- *)
Theorem C07_errors_are_the_problems : forall (c : cfg) (ls : list label) (g : srverr -> nat),
  let s := run c init ls in
  exists x, x <= 1 /\
    sumf g (raised s)
    = sumf g (snd (hist_fold (hist s))) + sumf (fun w => sumf g (w_problem c w)) (workers s) + x * g fatal_err.
Proof. exact c07_errors_are_the_problems. Qed.
Print Assumptions C07_errors_are_the_problems.

Example C07_errors_are_the_problems_nonvacuous :
  snd (hist_fold [EvMsg (WorkStart "" "s" 1%Z); EvMsg (Signal "zz" "sig" 1%Z); EvMsg (WorkStart "a" "s" 2%Z);
                  EvMsg (Signal "a" "sig" 1%Z); EvMsg (Unknown 9%Z "a"); EvMsg (BadPayload 1%Z "b"); EvEOF])
  = [mkSE "" true false; mkSE "zz" false false; mkSE "" false false; mkSE "b" true false; mkSE "" true true].
Proof. vm_compute. reflexivity. Qed.

(* ---- C07_returns: no deadlock.  A state in which no goroutine can move (quiescent) and which is
   neither waiting for more input (read loop on an empty, open input) nor for a step handler the
   environment has not released is one in which RunATPServer HAS returned; and every step of a
   goroutine decreases the measure `mu`, so from every state quiescence is reached after at most
   `mu s` internal steps — no fairness assumption. ---- *)
Theorem C07_returns : forall (c : cfg) (ls : list label),
  let s := run c init ls in
  quiescent c s -> ~ waiting_for_input s -> ~ waiting_for_release c s -> hp s = HReturned.
Proof. exact c07_returns. Qed.
Print Assumptions C07_returns.

Theorem C07_returns_measure : forall (c : cfg) (s s' : state) (l : label),
  step c s l = Some s' -> is_internal l = true -> mu s' < mu s.
Proof. exact c07_measure. Qed.
Print Assumptions C07_returns_measure.

Example C07_returns_measure_nonvacuous :
  exists s', step c07_example_cfg (run c07_example_cfg init (firstn 3 c07_example_schedule)) LRead = Some s' /\
             mu s' < mu (run c07_example_cfg init (firstn 3 c07_example_schedule)).
Proof. eexists. split; [vm_compute; reflexivity | vm_compute; lia]. Qed.

Example C07_returns_nonvacuous :
  let s := run c07_example_cfg init c07_example_schedule in
  quiescent c07_example_cfg s /\ ~ waiting_for_input s /\ ~ waiting_for_release c07_example_cfg s.
Proof. exact c07_example_quiescent. Qed.

(* ---- C07_prediction_covered: the deterministic scheduler the correspondence check evaluates
   (`run_script`: one environment label, then internal steps, lowest thread first, until none is
   enabled — what the scripted peer does by waiting for quiescence) only ever produces states that
   are reachable by a schedule and quiescent: every prediction compared with the implementation is a
   state the theorems above speak about. ---- *)
Theorem C07_prediction_covered : forall (c : cfg) (ls : list label),
  reachable c (run_script c ls) /\ quiescent c (run_script c ls).
Proof. exact c07_prediction_covered. Qed.
Print Assumptions C07_prediction_covered.

(* ---- the unrepaired server (ATP/ServerPreFix.v) violates both: permanent witnesses ---- *)
Theorem C07_send_on_closed_refuted : exists (c : cfg) (ls : list label), crashed (prefix_run c init ls) = true.
Proof. exact prefix_send_on_closed. Qed.
Print Assumptions C07_send_on_closed_refuted.

Theorem C07_blocked_forever_refuted : exists (c : cfg) (ls : list label),
  let s := prefix_run c init ls in
  (forall l, is_internal l = true -> prefix_step c s l = None) /\
  ~ waiting_for_input s /\ ~ waiting_for_release c s /\ In EvEOF (inq s) /\ hp s <> HReturned.
Proof. exact prefix_blocked_forever. Qed.
Print Assumptions C07_blocked_forever_refuted.

Theorem C07_nil_deref_refuted : crashed (prefix_run prefix_cfg init d22_schedule) = true.
Proof. exact prefix_nil_deref. Qed.
Print Assumptions C07_nil_deref_refuted.

(* ---- C07_signal_goroutine_never_panics: the goroutine that runs CallSignal has NO recover (atp/server.go
   handleSignalMessage), so a panic below it would kill the plugin.  For EVERY plugin, run, step, signal id and
   EVERY payload (any Go value: nil, a string, a number, a list, a map of any shape) CallSignal - step lookup,
   signal lookup, Unserialize of the signal's data schema, step-data set-up, Validate (Call/Step.v) - yields a
   result or an error, never a panic, as soon as the data schema is well formed (Schema/Wf.v = the constructors'
   contracts; C04_never_panics).  This is what makes `dataok : bool` in ATP/Server.v's KSignal a complete
   description of the call; it covers data schemas WITHOUT properties and with exactly ONE (the lone-value
   shorthand), whose payload matrix the atpsrv family runs against the real server. ---- *)
From Verif Require Import Base.Float Base.GoVal Schema.Units Schema.Syntax Schema.Ops Schema.Wf Call.Step Interp.RunAtpsrv Proofs.C07Payload.
Theorem C07_signal_goroutine_never_panics :
  forall (words : list (string * bool)) (pu : units -> string -> option fl) (e : env) (fuel : nat)
         (ps : pstate) (p : plugin) (run : string) (sid : string) (sig : string) (raw : gval),
  (forall st ss, alookup sid p = Some st -> alookup sig (sd_signals st) = Some ss -> wf_schema e ss = true) ->
  is_spanic (fst (fst (call_signal words pu e fuel ps p run sid sig raw))) = false.
Proof. exact c07_call_signal_never_panics. Qed.
Print Assumptions C07_signal_goroutine_never_panics.

(* the schemas the interpreter (Interp/RunAtpsrv.v) judges the payloads of the sigv / wsv actions with - signals
   "sig" {n: int, required}, "stop" {} and "two" {a: int, b: string}, step inputs "z" {} and "o" {tok: int} - are
   well formed; Unserialize and Validate never panic on them, whatever the payload and the fuel *)
Theorem C07_payload_schemas_never_panic :
  forall (words : list (string * bool)) (pu : units -> string -> option fl) (s : schema), In s c07_payload_schemas ->
  forall f v w, unser words pu f c07_env s v <> Panic w /\ validate words pu f c07_env s v <> Panic w.
Proof. exact c07_payload_schemas_never_panic. Qed.
Print Assumptions C07_payload_schemas_never_panic.

Example C07_payload_schemas_nonvacuous :
  forallb (wf_schema c07_env) c07_payload_schemas = true /\ List.length c07_payload_schemas = 5%nat.
Proof. exact c07_payload_schemas_wf. Qed.

(* zero properties: a string, nil and a list are REJECTED (an error, not a panic), the empty map is accepted; one
   property: a lone integer is the property's shorthand; two properties: a lone value is rejected *)
Example C07_payload_examples :
  c07_sig_ok "stop" (VStr TStr "now") = false /\ c07_sig_ok "stop" VNil = false /\
  c07_sig_ok "stop" (VSlice t_any_slice false []) = false /\ c07_sig_ok "stop" (VMap t_any_map false []) = true /\
  c07_sig_ok "sig" (vi64 1) = true /\ c07_sig_ok "sig" (VStr TStr "now") = false /\
  c07_sig_ok "two" (vi64 1) = false /\ c07_step_ok "z" (vi64 1) = false /\ c07_step_ok "o" (vi64 1) = true.
Proof. exact c07_payload_examples. Qed.
