(* Properties/C09.v — self-description is a fixed point.
   Statements only; proofs in Proofs/C09Describe.v, C09Fixpoint.v, C09Plugin.v, C09Behaviour.v, C09Behaviour2.v, C09Transport.v, C09Link.v,
   C09AccBase.v, C09AccRe.v, C09AccTable.v, C09AccReader.v, C09AccReader2.v, C09AccReader3.v, C09AccPlugin.v (the generated meta-schema table, Schema/MetaTable.v).  Model: Schema/Describe.v (`describe` = SelfSerialize,
   `rebuild` = UnserializeScope, `rebuild_plugin` = UnserializeSchema, `describable` = the meta-schema's own
   constraints, `erase` = what a description cannot carry), tied to the SDK by the family c09describe. *)
From Verif Require Import Base.Prelude Base.Str Base.Float Base.GoVal
  Schema.Regex Schema.Units Schema.Syntax Schema.Ops Schema.Cbor Schema.Describe
  Proofs.DescribeBase Proofs.C09Describe Proofs.C09Fixpoint Proofs.C09Plugin Proofs.C09Behaviour Proofs.C09Transport Proofs.C09Link Proofs.C09Behaviour2
  Schema.MetaTable Generated.Tables Proofs.C09AccBase Proofs.C09AccTable Proofs.C09AccReader Proofs.C09AccReader2 Proofs.C09AccReader3 Proofs.C09AccPlugin
  Schema.DescribeNest Proofs.C09Nest.
Open Scope string_scope.

(* C09_fixpoint.  For EVERY scope s that is describable, whose pattern sources regexp.Compile maps to their
   parsed form, and that links (link_ok: roots, self-namespace references, one-of members, defaults — what ApplySelf checks):
   UnserializeScope accepts SelfSerialize(s), the schema it returns is s without what a description cannot
   carry (`erase`: TreatEmptyAsDefaultValue), and describing that schema again gives the identical
   description.  All recorded library behaviour (boolean words, unit parser, character units, json) is
   universally quantified. *)
Theorem C09_fixpoint :
  forall (words : list (string * bool)) (pu : units -> string -> option fl) (cu : units)
         (rp : string -> option re) (jor : oracles) os root,
  let s := SScope os root in
  describable s = true ->
  (forall p, In p (pats_of s) -> rp (fst p) = Some (snd p)) ->
  link_ok jor [] s = true ->
  exists s', rebuild words pu cu rp jor (describe s) = Ok s' /\ s' = erase s /\ describe s' = describe s.
Proof.
  intros words pu cu rp jor os root s Hd Hp Hl. rewrite <- link_ok_erase_top in Hl. exists (erase s). split; [|split].
  - apply rebuild_describe; [split; assumption | assumption].
  - reflexivity.
  - apply describe_erase.
Qed.
Print Assumptions C09_fixpoint.

(* describing again after the loss of what a description cannot carry gives the identical description *)
Theorem C09_describe_erase : forall s, describe (erase s) = describe s.
Proof. exact describe_erase. Qed.
Print Assumptions C09_describe_erase.

(* ---- a scope that uses every feature, for the non-vacuity examples ---- *)
Definition y_words : list (string * bool) := [("true", true); ("false", false)].
Definition y_pu : units -> string -> option fl := fun _ _ => None.
Definition y_cu : units := mkUnits (mkUnit "char" "chars" "character" "characters") [].
Definition y_pat : string * re := ("^[a-z]+$", Cat Bol (Cat (plus (Cls false [("a"%char, "z"%char)])) Eol)).
Definition y_rp : string -> option re := fun src => if String.eqb src (fst y_pat) then Some (snd y_pat) else None.
Definition y_jor : oracles :=
  mkOracles (fun txt => if String.eqb txt "5" then Some (vi64 5) else None) (fun _ => true).
Definition y_disp : display := mkDisplay (Some "Name") (Some "two
lines") None.
Definition y_units : units :=
  mkUnits (mkUnit "s" "s" "second" "seconds") [(60, mkUnit "m" "m" "minute" "minutes"); (3600, mkUnit "H" "H" "hour" "hours")].
Definition y_prop (t : schema) : property := mkProp t None false [] [] [] None [] false false None.

Definition y_scope : schema :=
  SScope
    [("A", SObject "A" false
       [("n", mkProp (SInt (Some (-5)) (Some 10) (Some y_units)) (Some y_disp) true [] [] [] (Some "5") ["1"] true false None);
        ("f", y_prop (SFloat None None None));
        ("s", mkProp (SString (Some 1) None (Some y_pat)) None false ["n"] ["f"] ["b"] None [] false true (Some "off"));
        ("b", y_prop SBool); ("p", y_prop SPattern); ("x", y_prop SAny);
        ("e", y_prop (SEnumInt [(1, Some y_disp); (-2, Some (mkDisplay None None None))] None));
        ("g", y_prop (SEnumStr None [("x", Some y_disp); ("true", Some (mkDisplay None None None))]));
        ("l", y_prop (SList (SRef "B" "" (Some y_disp)) (Some 0) (Some 3)));
        ("m", y_prop (SMap (SString (Some 1) None None) (SRef "A" "" None) None (Some 4)));
        ("o", y_prop (SOneOf [(KS "a", SRef "B" "" None); (KS "b", SObject "inl" true [("q", y_prop SBool)])] false "kind" false));
        ("i", y_prop (SOneOf [(KI 1, SObject "mem" false [("t", y_prop (SInt None None None))])] true "t" true));
        ("ext", y_prop (SRef "E" "other" None));
        ("nested", y_prop (SScope [("N", SObject "N" false [("r", y_prop (SRef "N" "" None))])] "N"))]);
     ("B", SObject "B" true [])]
    "A".

Example C09_example_describable : describable y_scope = true.
Proof. vm_compute. reflexivity. Qed.
(* the hypotheses of C09_fixpoint hold for it *)
Example C09_fixpoint_hypotheses :
  match y_scope with
  | SScope _ _ => describable y_scope = true /\ link_ok y_jor [] y_scope = true
                  /\ forallb (fun p => match y_rp (fst p) with Some _ => true | None => false end) (pats_of y_scope) = true
  | _ => False
  end.
Proof. repeat split; vm_compute; reflexivity. Qed.

(* SelfSerialize -> UnserializeScope -> SelfSerialize on the example: accepted, the rebuilt schema is the
   original without TreatEmptyAsDefaultValue, and the second description is identical *)
Example C09_example_fixpoint :
  rebuild y_words y_pu y_cu y_rp y_jor (describe y_scope) = Ok (erase y_scope)
  /\ describe (erase y_scope) = describe y_scope.
Proof. split; vm_compute; reflexivity. Qed.

(* the same after the CBOR normal form of the description *)
Example C09_example_transport_cbor :
  rebuild y_words y_pu y_cu y_rp y_jor (cbor_norm 100 (describe y_scope))
  = rebuild y_words y_pu y_cu y_rp y_jor (describe y_scope).
Proof. vm_compute. reflexivity. Qed.

Definition sexp_differs (a b : gval) : bool :=
  match a, b with VMap ta _ _, VMap tb _ _ => negb (gtype_eqb ta tb) | _, _ => false end.

(* C09_transport (CBOR).  For EVERY scope (describable or not) and every depth n: UnserializeScope gives the
   same result on the CBOR normal form of the description (Schema/Cbor.v: what fxamacker/cbor encode + decode
   into `any` does — every map becomes map[any]any, every list []any, non-negative integers uint64) as on
   the description itself.  Hence, for a describable scope that links, rebuilding from the transported
   description gives the same schema and the same second description (C09_fixpoint).
   The proof goes through every reader of the meta-schema: none of them looks at a map / slice type, and the
   scalar readers accept every integer kind (Proofs/C09Transport.v, `wire`).
   YAML (yaml.v3 marshal + unmarshal: whole floats come back as ints, maps with string keys as
   map[string]any) has no Coq model of the codec; it is TESTED: the family c09describe sends every generated
   description through the real cbor and yaml.v3 codecs and compares all three rebuilds and second
   descriptions (Interp/RunDescribe.v yaml_norm, cbor_norm). *)
Theorem C09_transport_any :
  forall (words : list (string * bool)) (pu : units -> string -> option fl) (cu : units)
         (rp : string -> option re) (jor : oracles) (n : nat) (s : schema),
  rebuild words pu cu rp jor (cbor_norm n (describe s)) = rebuild words pu cu rp jor (describe s).
Proof. intros. apply rebuild_describe_cbor. Qed.
Print Assumptions C09_transport_any.

Theorem C09_transport :
  forall (words : list (string * bool)) (pu : units -> string -> option fl) (cu : units)
         (rp : string -> option re) (jor : oracles) (n : nat) os root,
  let s := SScope os root in
  describable s = true ->
  (forall p, In p (pats_of s) -> rp (fst p) = Some (snd p)) ->
  link_ok jor [] s = true ->
  exists s', rebuild words pu cu rp jor (cbor_norm n (describe s)) = Ok s'
             /\ s' = erase s /\ describe s' = describe s.
Proof.
  intros words pu cu rp jor n os root s Hd Hp Hl. rewrite <- link_ok_erase_top in Hl. exists (erase s). split; [|split].
  - rewrite rebuild_describe_cbor. apply rebuild_describe; [split; assumption | assumption].
  - reflexivity.
  - apply describe_erase.
Qed.
Print Assumptions C09_transport.

(* the same for whole plugin schemas: the hello message travels as CBOR *)
Theorem C09_transport_plugin :
  forall (words : list (string * bool)) (pu : units -> string -> option fl) (cu : units)
         (rp : string -> option re) (jor : oracles) (n : nat) (p : dplugin),
  rebuild_plugin words pu cu rp jor (cbor_norm n (describe_plugin p)) = rebuild_plugin words pu cu rp jor (describe_plugin p).
Proof. intros. apply rebuild_plugin_describe_cbor. Qed.
Print Assumptions C09_transport_plugin.

(* non-vacuity: the CBOR form really differs from the description, and the rebuild really succeeds *)
Example C09_example_transport :
  (if sexp_differs (cbor_norm 100 (describe y_scope)) (describe y_scope) then True else False)
  /\ rebuild y_words y_pu y_cu y_rp y_jor (cbor_norm 100 (describe y_scope)) = Ok (erase y_scope).
Proof. split; vm_compute; [exact I | reflexivity]. Qed.

(* C09_behaviour.  The rebuilt schema behaves like the original: for EVERY describable scope that links, the
   schema UnserializeScope returns for its description unserializes EVERY input, in EVERY environment of
   applied namespaces and at every fuel, to exactly the outcome (value, or error with its kind and path)
   of the original.  (The other three operations of Schema/Ops.v: C09_behaviour_all_paths below.) *)
Theorem C09_behaviour :
  forall (words : list (string * bool)) (pu : units -> string -> option fl) (cu : units)
         (rp : string -> option re) (jor : oracles) os root,
  let s := SScope os root in
  describable s = true ->
  (forall p, In p (pats_of s) -> rp (fst p) = Some (snd p)) ->
  link_ok jor [] s = true ->
  exists s', rebuild words pu cu rp jor (describe s) = Ok s'
             /\ forall fuel e v, unser words pu fuel e s' v = unser words pu fuel e s v.
Proof.
  intros words pu cu rp jor os root s Hd Hp Hl. rewrite <- link_ok_erase_top in Hl. exists (erase s). split.
  - apply rebuild_describe; [split; assumption | assumption].
  - intros. apply unser_erase_schema.
Qed.
Print Assumptions C09_behaviour.

(* C09_behaviour_all_paths.  The same on EVERY operation Schema/Ops.v models: for EVERY describable scope that
   links, the schema UnserializeScope returns for its description gives, on EVERY value, at EVERY fuel and in
   EVERY environment of applied namespaces, exactly the outcome of the original (the value, or the error with its
   class and path; Panic and OutOfFuel included) for Unserialize, Validate, Serialize and data-mode
   ValidateCompatibility (`same_behaviour`, Proofs/C09Behaviour2.v).
   The relation is plain equality, not "equal up to a renaming of result types": what a description cannot
   carry is TreatEmptyAsDefaultValue only (`erase`), and that flag is read only by the struct-mapped object code
   (Schema/XOps.v; schema/object.go extractPropertyValue, validateStruct) - never by a map-based schema, which
   is what a rebuilt schema always is.  The one construct whose unserialized Go TYPE a description could not
   carry, a typed string enum, cannot be described at all (D69, C09_not_describable_refuted: w_typed_enum), so
   no rebuilt schema has an original with one, and `erase` leaves `SEnumStr (Some _) _` untouched: there is no
   "equal up to the enum's Go type" case left to state.  (A rebuilt schema whose ORIGINAL was struct-mapped is
   outside Schema/Ops.v altogether - the original works on struct values, the rebuilt one on maps.) *)
Theorem C09_behaviour_all_paths :
  forall (words : list (string * bool)) (pu : units -> string -> option fl) (cu : units)
         (rp : string -> option re) (jor : oracles) os root,
  let s := SScope os root in
  describable s = true ->
  (forall p, In p (pats_of s) -> rp (fst p) = Some (snd p)) ->
  link_ok jor [] s = true ->
  exists s', rebuild words pu cu rp jor (describe s) = Ok s'
             /\ forall fuel e v,
                  unser words pu fuel e s' v = unser words pu fuel e s v
                  /\ validate words pu fuel e s' v = validate words pu fuel e s v
                  /\ serialize words pu fuel e s' v = serialize words pu fuel e s v
                  /\ compat words pu fuel e s' v = compat words pu fuel e s v.
Proof. exact rebuilt_all_paths. Qed.
Print Assumptions C09_behaviour_all_paths.

(* without any hypothesis on s: `erase` is invisible to all four operations (and to the one-of member search
   they share), in the erased environment and in any environment *)
Theorem C09_erase_invisible_all_paths : forall words pu fuel e s v,
  (validate words pu fuel (erase_env e) (erase s) v = validate words pu fuel e s v
   /\ serialize words pu fuel (erase_env e) (erase s) v = serialize words pu fuel e s v
   /\ compat words pu fuel (erase_env e) (erase s) v = compat words pu fuel e s v
   /\ unser words pu fuel (erase_env e) (erase s) v = unser words pu fuel e s v)
  /\ (validate words pu fuel e (erase s) v = validate words pu fuel e s v
      /\ serialize words pu fuel e (erase s) v = serialize words pu fuel e s v
      /\ compat words pu fuel e (erase s) v = compat words pu fuel e s v
      /\ unser words pu fuel e (erase s) v = unser words pu fuel e s v).
Proof. exact erase_invisible_all_paths. Qed.
Print Assumptions C09_erase_invisible_all_paths.

(* the same for every data schema (step input, outputs, signal handler and emitter data) of a rebuilt plugin schema *)
Theorem C09_behaviour_plugin_all_paths :
  forall (words : list (string * bool)) (pu : units -> string -> option fl) (cu : units)
         (rp : string -> option re) (jor : oracles) (p : dplugin),
  good_plugin rp p ->
  forallb (link_ok jor []) (plugin_scopes p) = true ->
  existsb foreign_refs (plugin_scopes p) = false ->
  exists p', rebuild_plugin words pu cu rp jor (describe_plugin p) = Ok p'
             /\ Forall2 (same_behaviour words pu) (plugin_scopes p') (plugin_scopes p).
Proof. exact rebuilt_plugin_all_paths. Qed.
Print Assumptions C09_behaviour_plugin_all_paths.

(* ---- whole plugin schemas (the hello message of the ATP protocol) ---- *)
(* C09_plugin.  For EVERY plugin schema whose step / output / signal ids and displays satisfy the meta-schema,
   whose data schemas (step inputs, outputs, signal handler and emitter data) are describable scopes that link,
   and that has no reference into a foreign namespace: UnserializeSchema accepts SelfSerialize(p), returns p
   without what a description cannot carry, and describing again gives the identical description. *)
Theorem C09_plugin :
  forall (words : list (string * bool)) (pu : units -> string -> option fl) (cu : units)
         (rp : string -> option re) (jor : oracles) (p : dplugin),
  good_plugin rp p ->
  forallb (link_ok jor []) (plugin_scopes p) = true ->
  existsb foreign_refs (plugin_scopes p) = false ->
  exists p', rebuild_plugin words pu cu rp jor (describe_plugin p) = Ok p'
             /\ p' = erase_plugin p /\ describe_plugin p' = describe_plugin p.
Proof.
  intros words pu cu rp jor p Hg Hl Hf. rewrite <- plugin_links_erase in Hl. rewrite <- plugin_foreign_erase in Hf.
  exists (erase_plugin p). split; [|split].
  - apply rebuild_plugin_describe; assumption.
  - reflexivity.
  - apply describe_plugin_erase.
Qed.
Print Assumptions C09_plugin.

Definition y_data : schema :=
  SScope [("D", SObject "D" false
            [("n", mkProp (SInt (Some (-1)) None None) None false [] [] [] (Some "5") [] true false None);
             ("s", y_prop (SString None None (Some y_pat)));
             ("again", y_prop (SRef "D" "" None))])] "D".
Definition y_plugin : dplugin :=
  [("step", mkStep "step" y_data
      [("success", mkOutput y_data (Some y_disp) false); ("error", mkOutput y_data None true)]
      [("stop", mkSignal "stop-id" y_data (Some y_disp))]
      [("progress", mkSignal "progress" y_data None)]
      (Some y_disp))].

(* the rebuilt schema is not the original: TreatEmptyAsDefaultValue of the first property is gone *)
Definition first_flag_differs (a b : schema) : bool :=
  let flag s := match s with
                | SScope ((_, SObject _ _ ((_, p) :: _)) :: _) _ => p_empty_is_default p
                | _ => false
                end in
  negb (Bool.eqb (flag a) (flag b)).

(* C09_behaviour on examples: an accepted input (a default filled in, a reference followed) and a refused one *)
Example C09_example_behaviour :
  let e := mkEnv [] [("other", [("E", SObject "E" false [])])] y_jor in
  let v := VMap t_any_map false [(vstr "s", vstr "abc"); (vstr "again", VMap t_any_map false [(vstr "n", vi64 2)])] in
  let bad := VMap t_any_map false [(vstr "n", vi64 3)] in
  match rebuild y_words y_pu y_cu y_rp y_jor (describe y_data), rebuild y_words y_pu y_cu y_rp y_jor (describe y_scope) with
  | Ok d', Ok s' =>
      unser y_words y_pu 20 e d' v = unser y_words y_pu 20 e y_data v
      /\ match unser y_words y_pu 20 e y_data v with Ok _ => True | _ => False end
      /\ unser y_words y_pu 20 e s' bad = unser y_words y_pu 20 e y_scope bad
      /\ match unser y_words y_pu 20 e y_scope bad with Err _ => True | _ => False end
  | _, _ => False
  end.
Proof. vm_compute. repeat split; reflexivity. Qed.

(* C09_behaviour_all_paths on examples: native values through Validate / Serialize / ValidateCompatibility of the
   rebuilt and of the original schema - an accepted value (a reference followed), and a refused one (bound) *)
Example C09_example_all_paths :
  let e := mkEnv [] [] y_jor in
  let v := VMap t_str_map false [(vstr "n", vi64 2); (vstr "s", vstr "abc");
                                 (vstr "again", VMap t_str_map false [(vstr "n", vi64 7)])] in
  let bad := VMap t_str_map false [(vstr "again", VMap t_str_map false [(vstr "n", vi64 (-7))])] in
  match rebuild y_words y_pu y_cu y_rp y_jor (describe y_data) with
  | Ok d' =>
      (if first_flag_differs d' y_data then True else False)
      /\ validate y_words y_pu 20 e d' v = Ok tt /\ validate y_words y_pu 20 e y_data v = Ok tt
      /\ serialize y_words y_pu 20 e d' v = serialize y_words y_pu 20 e y_data v
      /\ is_ok (serialize y_words y_pu 20 e y_data v) = true
      /\ compat y_words y_pu 20 e d' v = Ok tt /\ compat y_words y_pu 20 e y_data v = Ok tt
      /\ validate y_words y_pu 20 e d' bad = validate y_words y_pu 20 e y_data bad
      /\ validate y_words y_pu 20 e y_data bad = Err (mkErr true ["again"; "n"] EBound)
      /\ serialize y_words y_pu 20 e d' bad = serialize y_words y_pu 20 e y_data bad
      /\ is_err (serialize y_words y_pu 20 e y_data bad) = true
      /\ compat y_words y_pu 20 e d' bad = compat y_words y_pu 20 e y_data bad
      /\ is_err (compat y_words y_pu 20 e y_data bad) = true
  | _ => False
  end.
Proof. vm_compute. repeat split; reflexivity. Qed.

Example C09_plugin_hypotheses :
  good_plugin y_rp y_plugin
  /\ forallb (link_ok y_jor []) (plugin_scopes y_plugin) = true
  /\ existsb foreign_refs (plugin_scopes y_plugin) = false.
Proof.
  assert (G : good_scope y_rp y_data).
  { split; [reflexivity|]. split; [vm_compute; reflexivity|].
    intros p Hp. vm_compute in Hp. destruct Hp as [<-|[]]. vm_compute. reflexivity. }
  split; [|split; vm_compute; reflexivity].
  split; [vm_compute; reflexivity|].
  constructor; [|constructor].
  cbv [y_plugin good_step good_output good_signal fst snd st_id st_input st_outputs st_handlers st_emitters st_display
       so_schema so_display so_error sg_id sg_data sg_display].
  repeat match goal with
         | |- _ /\ _ => split
         | |- Forall _ _ => constructor
         | |- good_scope _ _ => exact G
         | |- _ = true => vm_compute; reflexivity
         end.
Qed.
Example C09_example_plugin :
  rebuild_plugin y_words y_pu y_cu y_rp y_jor (describe_plugin y_plugin) = Ok (erase_plugin y_plugin)
  /\ rebuild_plugin y_words y_pu y_cu y_rp y_jor (cbor_norm 100 (describe_plugin y_plugin)) = Ok (erase_plugin y_plugin)
  /\ describe_plugin (erase_plugin y_plugin) = describe_plugin y_plugin.
Proof. repeat split; vm_compute; reflexivity. Qed.
(* a plugin whose data schema references a foreign namespace is rejected (it could never be linked) *)
Example C09_plugin_foreign_rejected :
  match rebuild_plugin y_words y_pu y_cu y_rp y_jor
          (describe_plugin [("step", mkStep "step" y_scope [] [] [] None)]) with
  | Err _ => true | _ => false end = true.
Proof. vm_compute. reflexivity. Qed.

(* ---- C09_accepted: over the GENERATED meta-schema table (DESIGN 2.4, section 5 C09) ----
   `meta_scope` (Schema/MetaTable.v) is the table schema/schema_schema.go has NOW: `DescribeScope().SelfSerialize()`
   of the SDK built from the tree under test, re-dumped into Generated/MetaDesc.v on every run and turned into a
   `schema` by the model's reader (vm_compute; Example meta_scope_rebuilt: the reader accepts the table's own
   description, link step included).

   C09_accepted.  For EVERY describable scope s (all fourteen kinds, at any nesting) whose pattern sources
   regexp.Compile accepts (the oracle of the environment), the GENERIC Unserialize of Schema/Ops.v run on that
   table accepts `describe s`, at every fuel from the explicit bound `c09_fuel s` on; boolean words, unit parser
   and json oracle universally quantified.  Proved one meta object at a time (Proofs/C09AccTable.v): a field
   `describe` writes that the table does not declare, a declared type that refuses what `describe` writes (a
   bound, a kind, a member kind missing from a one-of), a required field `describe` may omit, an inter-field rule
   or a disabled meta property breaks the lemma of that object - on the run that re-dumps the table. *)
Theorem C09_accepted :
  forall (words : list (string * bool)) (pu : units -> string -> option fl) (jor : oracles) os root,
  let s := SScope os root in
  describable s = true ->
  (forall p, In p (pats_of s) -> o_re_ok jor (fst p) = true) ->
  forall fuel, (c09_fuel s <= fuel)%nat ->
  exists x, unser words pu fuel (mkEnv [] [] jor) meta_scope (describe s) = Ok x.
Proof.
  intros words pu jor os root s Hd Hp. exact (scope_description_accepted words pu jor os root (conj Hd Hp)).
Qed.
Print Assumptions C09_accepted.

(* the same, kind by kind: the description of EVERY describable type (not only scopes) is accepted by the one-of
   over type_id that the table uses for list items, map values and property types, in the table's own scope *)
Theorem C09_accepted_type :
  forall (words : list (string * bool)) (pu : units -> string -> option fl) (jor : oracles) (s : schema),
  describable s = true ->
  (forall p, In p (pats_of s) -> o_re_ok jor (fst p) = true) ->
  forall fuel, (2 + tfuel s <= fuel)%nat ->
  exists x, unser words pu fuel (mkEnv meta_objs [] jor) vtype (d_type s) = Ok x.
Proof.
  intros words pu jor s Hd Hp.
  exact (A_vtype words pu meta_objs (fun _ _ H => H) jor (tfuel s) s
           (table_accepts words pu meta_objs (fun _ _ H => H) jor s (conj Hd Hp))).
Qed.
Print Assumptions C09_accepted_type.

(* non-vacuity: the table (19 meta objects) really is what is run; the example scope of every feature is accepted
   at the stated fuel, and a description without its required `objects` is refused by the same table *)
Example C09_example_accepted :
  List.length meta_objs = 19%nat
  /\ is_ok (unser y_words y_pu (c09_fuel y_scope) (mkEnv [] [] y_jor) meta_scope (describe y_scope)) = true
  /\ is_err (unser y_words y_pu 50 (mkEnv [] [] y_jor) meta_scope (dobj [("root", vstr "A")])) = true.
Proof. repeat split; vm_compute; reflexivity. Qed.

(* C09_accepted_plugin.  The same for whole plugin schemas (the hello message): the GENERATED Schema meta-scope
   (DescribeSchema().SelfSerialize(): what UnserializeSchema / Client.ReadSchema run) accepts `describe_plugin p` for
   EVERY plugin schema whose step / output / signal ids and displays satisfy the meta-schema and whose data schemas
   (inputs, outputs, signal handler and emitter data) are describable scopes with compiling patterns.  The Schema
   table contains the Scope table's objects unchanged (Proofs/C09AccPlugin.v meta_objs_in_schema_objs, by
   computation), plus Schema, Step, StepOutput, Signal - each with its own lemma. *)
Theorem C09_accepted_plugin :
  forall (words : list (string * bool)) (pu : units -> string -> option fl) (jor : oracles) (p : dplugin),
  cgood_plugin jor p ->
  forall fuel, (S (plugin_fuel p) <= fuel)%nat ->
  exists x, unser words pu fuel (mkEnv [] [] jor) meta_schema_scope (describe_plugin p) = Ok x.
Proof. exact plugin_description_accepted. Qed.
Print Assumptions C09_accepted_plugin.

Example C09_example_accepted_plugin :
  cgood_plugin y_jor y_plugin
  /\ is_ok (unser y_words y_pu (S (plugin_fuel y_plugin)) (mkEnv [] [] y_jor) meta_schema_scope (describe_plugin y_plugin)) = true.
Proof.
  split; [|vm_compute; reflexivity].
  assert (G : cgood_scope y_jor y_data).
  { split; [reflexivity|]. split; [vm_compute; reflexivity|]. intros p _. reflexivity. }
  constructor; [|constructor].
  cbv [y_plugin cgood_step cgood_output cgood_signal fst snd st_id st_input st_outputs st_handlers st_emitters st_display
       so_schema so_display so_error sg_id sg_data sg_display].
  repeat match goal with
         | |- _ /\ _ => split
         | |- Forall _ _ => constructor
         | |- cgood_scope _ _ => exact G
         | |- _ = true => vm_compute; reflexivity
         end.
Qed.

(* C09_table_agrees_with_reader_partial.  The hand-written reader (`rebuild`, Schema/Describe.v) against the table:
   (a) on d = describe s, s describable and linking: BOTH accept (the table: C09_accepted; the reader: C09_fixpoint);
   (b) for the kinds without fields (bool, any, pattern) the table accepts a value - ANY value - iff the reader does;
       for the string, integer and float kinds whatever value the table accepts the reader accepts (string: given that
       the environment's record of regexp.Compile and the reader's parser agree on what compiles) - so all six scalar
       kinds have the direction table => reader on arbitrary values;
   (c) every default of the table is listed, and for each the value the reader assumes for an absent field is the
       table's default text as encoding/json decodes it (meta_json, recorded from the real library on every run):
       Property.required, Object.id_unenforced, OneOf*.discriminator_inlined, Ref.namespace.
   NOT proved (partial): "accepted by the table => accepted by the reader" for arbitrary values of the non-scalar
   kinds (enums, list, map, object, one-of, ref, scope: the Display / Property objects and the recursive positions
   would each need the converse of their acceptance lemma, `obj_inv` of Proofs/C09AccReader3.v is the tool); that
   direction is tested by family c10mutants on every mutated description. *)
Theorem C09_table_agrees_with_reader_partial :
  (* (a) *)
  (forall (words : list (string * bool)) (pu : units -> string -> option fl) (cu : units) (rp : string -> option re)
          (jor : oracles) os root,
     let s := SScope os root in
     describable s = true ->
     (forall p, In p (pats_of s) -> rp (fst p) = Some (snd p)) ->
     (forall p, In p (pats_of s) -> o_re_ok jor (fst p) = true) ->
     link_ok jor [] s = true ->
     (exists s', rebuild words pu cu rp jor (describe s) = Ok s')
     /\ (exists x, unser words pu (c09_fuel s) (mkEnv [] [] jor) meta_scope (describe s) = Ok x))
  (* (b) *)
  /\ (forall words pu e f d,
        ((exists x, unser words pu (S f) e (mobj "BoolSchema") d = Ok x) <-> parse_empty SBool d = Ok SBool)
        /\ ((exists x, unser words pu (S f) e (mobj "AnySchema") d = Ok x) <-> parse_empty SAny d = Ok SAny)
        /\ ((exists x, unser words pu (S f) e (mobj "Pattern") d = Ok x) <-> parse_empty SPattern d = Ok SPattern))
  (* (b') string: table => reader, on ANY value; the reader's unit table is Generated/Tables.v unit_characters,
     which is also what the table carries (Proofs/C09AccReader2.v tab_chars_units_eq) *)
  /\ (forall words pu e (rp : string -> option re),
        (forall s, o_re_ok (e_or e) s = true -> exists r, rp s = Some r) ->
        forall f d x, unser words pu (S (S f)) e (mobj "String") d = Ok x ->
        exists s', mp_string unit_characters rp d = Ok s')
  (* (b'') integer and float: table => reader, on ANY value and at any fuel, through the nested Units and Unit
     objects and the multipliers map (references resolved in the table's own scope) *)
  /\ (forall words pu jor f d x,
        unser words pu f (mkEnv meta_objs [] jor) (mobj "Int") d = Ok x -> exists s', mp_int d = Ok s')
  /\ (forall words pu jor f d x,
        unser words pu f (mkEnv meta_objs [] jor) (mobj "Float") d = Ok x -> exists s', mp_float pu d = Ok s')
  (* (c) *)
  /\ table_defaulted_fields =
       [("Object", "id_unenforced"); ("OneOfIntSchema", "discriminator_inlined");
        ("OneOfStringSchema", "discriminator_inlined"); ("Property", "required"); ("Ref", "namespace")]
  /\ (forall words rec fs p, alookup "required" fs = None -> parse_property words rec (dobj fs) = Ok p ->
        vbool (p_required p) = table_default "Property" "required")
  /\ (forall words rec fs id un props, alookup "id_unenforced" fs = None ->
        parse_object words rec (dobj fs) = Ok (SObject id un props) -> vbool un = table_default "Object" "id_unenforced")
  /\ (forall words rec ik fs types ik' field inl, alookup "discriminator_inlined" fs = None ->
        parse_oneof words rec ik (dobj fs) = Ok (SOneOf types ik' field inl) ->
        vbool inl = table_default (if ik then "OneOfIntSchema" else "OneOfStringSchema") "discriminator_inlined")
  /\ (forall fs id ns d, alookup "namespace" fs = None -> parse_ref (dobj fs) = Ok (SRef id ns d) ->
        vstr ns = table_default "Ref" "namespace").
Proof.
  refine (conj _ (conj table_agrees_empty_kinds (conj _
           (conj (fun words pu jor => table_int_implies_reader words pu meta_objs (fun _ _ H => H) jor)
           (conj (fun words pu jor => table_float_implies_reader words pu meta_objs (fun _ _ H => H) jor)
           (conj table_defaulted_fields_are
           (conj reader_default_required (conj reader_default_id_unenforced
              (conj reader_default_inlined reader_default_namespace))))))))).
  - intros words pu cu rp jor os root s Hd Hp Hre Hl. split.
    + destruct (C09_fixpoint words pu cu rp jor os root Hd Hp Hl) as (s' & H & _). exists s'. exact H.
    + apply (C09_accepted words pu jor os root Hd Hre). apply le_n.
  - intros words pu e rp Hrp f d x H. rewrite <- tab_chars_units_eq.
    exact (table_string_implies_reader words pu e rp Hrp f d x H).
Qed.
Print Assumptions C09_table_agrees_with_reader_partial.

(* non-vacuity of (c): the four defaults as the table has them now *)
Example C09_example_table_defaults :
  table_default "Property" "required" = vbool true /\ table_default "Object" "id_unenforced" = vbool false
  /\ table_default "OneOfIntSchema" "discriminator_inlined" = vbool false /\ table_default "Ref" "namespace" = vstr "".
Proof. repeat split; vm_compute; reflexivity. Qed.

(* ---- what cannot be described (open findings D28, D29, D69): the hypothesis `describable` is necessary ---- *)
Definition w_scope (t : schema) : schema := SScope [("A", SObject "A" false [("p", y_prop t)])] "A".
Definition w_enum_key : schema := w_scope (SMap (SEnumStr None [("x", Some y_disp)]) SBool None None).
Definition w_bad_id : schema := SScope [("a b", SObject "a b" false [])] "a b".
Definition w_empty_display : schema :=
  SScope [("A", SObject "A" false [("p", mkProp SBool (Some (mkDisplay (Some "") None None)) false [] [] [] None [] false false None)])] "A".
Definition w_empty_enum : schema := w_scope (SEnumStr None []).
Definition w_nil_enum_display : schema := w_scope (SEnumInt [(1, None)] None).
Definition w_typed_enum : schema := w_scope (SEnumStr (Some "main.Colour") [("x", Some y_disp)]).
Definition rebuild_fails (s : schema) : bool :=
  match rebuild y_words y_pu y_cu y_rp y_jor (describe s) with Err _ => true | _ => false end.

Example C09_not_describable_refuted :
  (* every witness is a scope the public constructors build and that links *)
  forallb (fun w => link_ok y_jor [] w)
          [w_enum_key; w_bad_id; w_empty_display; w_empty_enum; w_nil_enum_display; w_typed_enum] = true
  (* none is describable *)
  /\ existsb describable [w_enum_key; w_bad_id; w_empty_display; w_empty_enum; w_nil_enum_display; w_typed_enum] = false
  (* and where SelfSerialize still produces a description, the meta-schema refuses it *)
  /\ forallb rebuild_fails [w_enum_key; w_bad_id; w_empty_display; w_empty_enum] = true.
Proof. repeat split; vm_compute; reflexivity. Qed.

(* ---- how deep a description nests on the wire (the ATP hello message; family c09hello) ----
   gnest = the number of CBOR containers on the longest path of a value (what the decoder of the ATP client counts
   against its MaxNestedLevels, cbor_max_nested = 32); tnest / plugin_nest = the structural budget of a schema that the
   generator of family c09hello fills (harness hNest / hPluginNest): 5 per scope, 5 per one-of over objects, 3 per inline
   object, 1 per list or map, at the leaf 4 with units, 3 for an enum, 2 for a reference, 1 otherwise; an input starts at
   level 5 of the hello message, output and signal data schemas two maps deeper. *)
(* C09_describe_nesting_bound.  For EVERY schema the description nests at most tnest s levels. *)
Theorem C09_describe_nesting_bound : forall s : schema, (gnest (describe s) <= tnest s)%nat.
Proof. exact describe_nest_bound. Qed.
Print Assumptions C09_describe_nesting_bound.

(* C09_hello_nesting_bound.  For EVERY plugin schema the hello message nests at most 4 + plugin_nest p levels. *)
Theorem C09_hello_nesting_bound : forall p : dplugin, (hello_nest (describe_plugin p) <= 4 + plugin_nest p)%nat.
Proof. exact hello_nest_bound. Qed.
Print Assumptions C09_hello_nesting_bound.

(* C09_hello_within_transport.  A plugin schema whose structural budget is at most 28 is within what the decoder of the
   ATP client accepts (the depth limit of the generator of family c09hello; whether ReadSchema then really returns the
   schema is what the family checks on every run). *)
Theorem C09_hello_within_transport :
  forall p : dplugin, (plugin_nest p <= 28)%nat -> (hello_nest (describe_plugin p) <= cbor_max_nested)%nat.
Proof. exact hello_within_transport. Qed.
Print Assumptions C09_hello_within_transport.

(* the bound is met: a scope nested in a scope with a list at the leaf, 16 levels = 4 + 12 *)
Example C09_hello_nesting_instance :
  hello_nest (describe_plugin nest_demo) = 16%nat /\ (4 + plugin_nest nest_demo = 16)%nat /\ (plugin_nest nest_demo <= 28)%nat.
Proof. vm_compute. repeat split. repeat constructor. Qed.
