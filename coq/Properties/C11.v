(* Properties/C11.v — step calls (schema/schema.go CallStep / CallSignal, schema/step.go,
   schema/signal.go), model Call/Step.v at the tree repaired for D22.  Statements only; every
   proof is `exact <lemma>` (Proofs/Step.v).

   Everything is universally quantified: the boolean words / unit parser / oracle environment /
   fuel of the data layer, the plugin, the state of the run tables, the run id, the step id, the
   raw input and the HANDLER (any function).  `log_of`, `res_of`, `state_of` project the triple a
   call returns: the handler invocations it made, its result, the new run tables. *)
From Coq Require Import List ZArith NArith Bool String.
From Verif Require Import Base.Prelude Base.Str Base.Float Base.GoVal Schema.Units Schema.Syntax Schema.Ops
  ATP.Msg Call.Step Proofs.Step.
Import ListNotations.
Open Scope list_scope.

(* (1) The handler runs exactly once, with exactly the unserialized input, iff the step id exists,
   the raw input unserializes to n and n passes the step's re-validation; otherwise not at all.
   (`handler_input` is that condition: Proofs/Step.v.) *)
Theorem C11_handler_iff : forall words pu e fuel h ps p run sid raw n,
  (exists d, log_of (call_step words pu e fuel h ps p run sid raw) = [LStep sid run d n]) <->
  handler_input words pu e fuel p sid raw = Some n.
Proof. exact handler_iff. Qed.
Print Assumptions C11_handler_iff.

Theorem C11_handler_none_iff : forall words pu e fuel h ps p run sid raw,
  log_of (call_step words pu e fuel h ps p run sid raw) = [] <->
  handler_input words pu e fuel p sid raw = None.
Proof. exact no_handler_iff. Qed.
Print Assumptions C11_handler_none_iff.

Theorem C11_handler_at_most_once : forall words pu e fuel h ps p run sid raw,
  (List.length (log_of (call_step words pu e fuel h ps p run sid raw)) <= 1)%nat.
Proof. exact handler_never_twice. Qed.
Print Assumptions C11_handler_at_most_once.

(* (1') In the words of the property ("iff the step ID exists and the raw input is accepted by the
   step's input schema"): the code re-validates the unserialized value before calling the handler,
   so this form needs that Unserialize's results validate — C01's statement, taken here as the
   hypothesis `revalidates p`; without it (1) is the exact behaviour. *)
Theorem C11_handler_iff_accepted : forall words pu e fuel h ps p run sid raw n,
  revalidates words pu e fuel p ->
  ((exists d, log_of (call_step words pu e fuel h ps p run sid raw) = [LStep sid run d n]) <->
   (exists st, alookup sid p = Some st /\ s_unser words pu e fuel (sd_input st) raw = Ok n)).
Proof. exact handler_iff_pure. Qed.
Print Assumptions C11_handler_iff_accepted.

(* (1'') CallableStep.Call called DIRECTLY with a native value v (no Unserialize in front of it): the
   handler runs — once, with exactly v — iff v passes the step's input schema; a rejected v (a value
   of the right Go type that violates a constraint included) is answered with InvalidInputError and
   touches nothing.  This is the clause that makes step.go's re-validation necessary. *)
Theorem C11_direct_handler_iff : forall words pu e fuel h ps p run sid v,
  (exists d, log_of (call_direct words pu e fuel h ps p run sid v) = [LStep sid run d v]) <->
  (exists st, alookup sid p = Some st /\ s_validate words pu e fuel (sd_input st) v = Ok tt).
Proof. exact direct_handler_iff. Qed.
Print Assumptions C11_direct_handler_iff.

Theorem C11_direct_handler_none_iff : forall words pu e fuel h ps p run sid v,
  log_of (call_direct words pu e fuel h ps p run sid v) = [] <->
  ~ (exists st, alookup sid p = Some st /\ s_validate words pu e fuel (sd_input st) v = Ok tt).
Proof. exact direct_handler_none_iff. Qed.
Print Assumptions C11_direct_handler_none_iff.

Theorem C11_direct_handler_at_most_once : forall words pu e fuel h ps p run sid v,
  (List.length (log_of (call_direct words pu e fuel h ps p run sid v)) <= 1)%nat.
Proof. exact direct_handler_never_twice. Qed.
Print Assumptions C11_direct_handler_at_most_once.

Theorem C11_direct_invalid_input : forall words pu e fuel h ps p run sid v er,
  res_of (call_direct words pu e fuel h ps p run sid v) = SErr (CEInvalidInput er) <->
  exists st, alookup sid p = Some st /\ s_validate words pu e fuel (sd_input st) v = Err er.
Proof. exact direct_invalid_input. Qed.
Print Assumptions C11_direct_invalid_input.

Theorem C11_direct_rejected_untouched : forall words pu e fuel h ps p run sid v st er,
  alookup sid p = Some st -> s_validate words pu e fuel (sd_input st) v = Err er ->
  call_direct words pu e fuel h ps p run sid v = (SErr (CEInvalidInput er), [], ps).
Proof. exact direct_rejected_untouched. Qed.
Print Assumptions C11_direct_rejected_untouched.

Theorem C11_direct_output_checked : forall words pu e fuel h ps p run sid v oid od,
  res_of (call_direct words pu e fuel h ps p run sid v) = SOk (oid, od) <->
  exists st os, alookup sid p = Some st /\ s_validate words pu e fuel (sd_input st) v = Ok tt /\
    h sid v = (oid, od) /\ alookup oid (sd_outputs st) = Some os /\ s_validate words pu e fuel os od = Ok tt.
Proof. exact direct_output_checked. Qed.
Print Assumptions C11_direct_output_checked.

(* CallStep = Unserialize ; Call ; Serialize *)
Theorem C11_call_step_factors : forall words pu e fuel h ps p run sid raw st n,
  alookup sid p = Some st -> s_unser words pu e fuel (sd_input st) raw = Ok n ->
  call_step words pu e fuel h ps p run sid raw =
  (serialize_result words pu e fuel st (res_of (call_direct words pu e fuel h ps p run sid n)),
   log_of (call_direct words pu e fuel h ps p run sid n), state_of (call_direct words pu e fuel h ps p run sid n)).
Proof. exact call_step_factors. Qed.
Print Assumptions C11_call_step_factors.

(* (2) Ok (out, w) iff the handler ran, `out` is a declared output, the data validates against
   that output's schema, and w is its serialization. *)
Theorem C11_output_checked : forall words pu e fuel h ps p run sid raw oid w,
  res_of (call_step words pu e fuel h ps p run sid raw) = SOk (oid, w) <->
  exists st n os od,
    alookup sid p = Some st /\ handler_input words pu e fuel p sid raw = Some n /\ h sid n = (oid, od) /\
    alookup oid (sd_outputs st) = Some os /\
    s_validate words pu e fuel os od = Ok tt /\ s_serialize words pu e fuel os od = Ok w.
Proof. exact output_checked. Qed.
Print Assumptions C11_output_checked.

(* (3) Error classes: each is returned exactly under its condition ... *)
Theorem C11_error_unknown_step : forall words pu e fuel h ps p run sid raw,
  res_of (call_step words pu e fuel h ps p run sid raw) = SErr CENoSuchStep <-> alookup sid p = None.
Proof. exact err_no_such_step. Qed.
Print Assumptions C11_error_unknown_step.

Theorem C11_error_invalid_input : forall words pu e fuel h ps p run sid raw er,
  res_of (call_step words pu e fuel h ps p run sid raw) = SErr (CEInvalidInput er) <->
  exists st, alookup sid p = Some st /\
    (s_unser words pu e fuel (sd_input st) raw = Err er \/
     exists n, s_unser words pu e fuel (sd_input st) raw = Ok n /\ s_validate words pu e fuel (sd_input st) n = Err er).
Proof. exact err_invalid_input. Qed.
Print Assumptions C11_error_invalid_input.

Theorem C11_error_output : forall words pu e fuel h ps p run sid raw c,
  (c = CEUndeclaredOutput \/ (exists er, c = CEOutputData er) \/ (exists er, c = CEOutputSerialize er)) ->
  (res_of (call_step words pu e fuel h ps p run sid raw) = SErr c <->
   exists st n, alookup sid p = Some st /\ handler_input words pu e fuel p sid raw = Some n /\
     check_output words pu e fuel st (fst (h sid n)) (snd (h sid n)) = SErr c).
Proof. exact err_after_handler. Qed.
Print Assumptions C11_error_output.

Theorem C11_error_undeclared_output : forall words pu e fuel st oid od,
  check_output words pu e fuel st oid od = SErr CEUndeclaredOutput <-> alookup oid (sd_outputs st) = None.
Proof. exact check_output_undeclared. Qed.
Print Assumptions C11_error_undeclared_output.

Theorem C11_error_output_data : forall words pu e fuel st oid od er,
  check_output words pu e fuel st oid od = SErr (CEOutputData er) <->
  exists os, alookup oid (sd_outputs st) = Some os /\ s_validate words pu e fuel os od = Err er.
Proof. exact check_output_data. Qed.
Print Assumptions C11_error_output_data.

Theorem C11_error_output_serialize : forall words pu e fuel st oid od er,
  check_output words pu e fuel st oid od = SErr (CEOutputSerialize er) <->
  exists os, alookup oid (sd_outputs st) = Some os /\
    s_validate words pu e fuel os od = Ok tt /\ s_serialize words pu e fuel os od = Err er.
Proof. exact check_output_serialize. Qed.
Print Assumptions C11_error_output_serialize.

(* ... and the Go error TYPES of an unknown step, a rejected input and an undeclared output id
   are pairwise different (BadArgumentError / InvalidInputError / InvalidOutputError). *)
Theorem C11_error_classes : forall e1,
  go_type CENoSuchStep <> go_type (CEInvalidInput e1) /\
  go_type CENoSuchStep <> go_type CEUndeclaredOutput /\
  go_type (CEInvalidInput e1) <> go_type CEUndeclaredOutput.
Proof. exact types_distinguish. Qed.
Print Assumptions C11_error_classes.

(* (4) Unknown ids are errors — never a panic — and leave no trace: no handler, no step data. *)
Theorem C11_unknown_ids_step : forall words pu e fuel h ps p run sid raw,
  alookup sid p = None -> call_step words pu e fuel h ps p run sid raw = (SErr CENoSuchStep, [], ps).
Proof. exact unknown_step_call. Qed.
Print Assumptions C11_unknown_ids_step.

Theorem C11_unknown_ids_signal_step : forall words pu e fuel ps p run sid sig raw,
  alookup sid p = None -> call_signal words pu e fuel ps p run sid sig raw = (SErr CENoSuchStep, [], ps).
Proof. exact unknown_step_signal. Qed.
Print Assumptions C11_unknown_ids_signal_step.

Theorem C11_unknown_ids_signal : forall words pu e fuel ps p run sid st sig raw,
  alookup sid p = Some st -> alookup sig (sd_signals st) = None ->
  call_signal words pu e fuel ps p run sid sig raw = (SErr CENoSuchSignal, [], ps).
Proof. exact unknown_signal. Qed.
Print Assumptions C11_unknown_ids_signal.

(* the unrepaired CallSignal (D22) on the same inputs: a panic — kept as the regression witness *)
Theorem C11_unknown_signal_prefix_refuted : forall words pu e fuel ps p run sid st sig raw,
  alookup sid p = Some st -> alookup sig (sd_signals st) = None ->
  is_spanic (res_of (call_signal_prefix words pu e fuel ps p run sid sig raw)) = true.
Proof. exact unknown_signal_prefix. Qed.
Print Assumptions C11_unknown_signal_prefix_refuted.

(* CallStep itself never panics: a panic can only be one of the data layer (C04's subject) *)
Theorem C11_panic_only_from_data_layer : forall words pu e fuel h ps p run sid raw,
  is_spanic (res_of (call_step words pu e fuel h ps p run sid raw)) = true ->
  exists st, alookup sid p = Some st /\
    (is_panic (s_unser words pu e fuel (sd_input st) raw) = true \/
     (exists n, s_unser words pu e fuel (sd_input st) raw = Ok n /\
        (is_panic (s_validate words pu e fuel (sd_input st) n) = true \/
         exists os, alookup (fst (h sid n)) (sd_outputs st) = Some os /\
           (is_panic (s_validate words pu e fuel os (snd (h sid n))) = true \/
            is_panic (s_serialize words pu e fuel os (snd (h sid n))) = true)))).
Proof. exact call_panics_only_in_data_layer. Qed.
Print Assumptions C11_panic_only_from_data_layer.

(* (5) Per-run step data, for EVERY history: any list of CallStep / CallSignal operations over
   any steps, run ids, inputs and handlers, executed in any order (exec_ops = fold_left). *)
Theorem C11_stepdata_once : forall words pu e fuel p ops,
  let res := fst (exec_ops words pu e fuel p ops) in
  let ps := snd (exec_ops words pu e fuel p ops) in
  (forall sid st, alookup sid p = Some st -> sd_has_init st = true ->
     t_inits (tab_of ps sid) = N.of_nat (List.length (t_entries (tab_of ps sid))) /\
     NoDup (map fst (t_entries (tab_of ps sid))) /\ NoDup (map snd (t_entries (tab_of ps sid)))) /\
  (forall en, In en (all_logs res) ->
     alookup (lk_run en) (t_entries (tab_of ps (lk_step en))) = Some (lk_data en)) /\
  (forall e1 e2, In e1 (all_logs res) -> In e2 (all_logs res) ->
     lk_step e1 = lk_step e2 -> lk_run e1 = lk_run e2 -> lk_data e1 = lk_data e2).
Proof. exact stepdata_once_history. Qed.
Print Assumptions C11_stepdata_once.

(* whichever arrives first: what a run id holds after a prefix of the history is what it holds
   after the whole history *)
Theorem C11_stepdata_stable : forall words pu e fuel p ops1 ops2 sid run d,
  alookup run (t_entries (tab_of (snd (exec_ops words pu e fuel p ops1)) sid)) = Some d ->
  alookup run (t_entries (tab_of (snd (exec_ops words pu e fuel p (ops1 ++ ops2))) sid)) = Some d.
Proof. intros words pu e fuel p ops1 ops2 sid run d. exact (exec_ops_stable words pu e fuel p ops1 ops2 sid run d). Qed.
Print Assumptions C11_stepdata_stable.

(* (5') The same under interleaving at the granularity of the mutex-protected critical section:
   for EVERY schedule (list of events: a thread's setupStepData, a thread's handler invocation) on
   one step, the initialiser runs for a run id exactly once iff a setup for it arrives — triggered
   by the first arrival, step call or signal alike —, and every handler sees that value only. *)
Theorem C11_stepdata_once_interleaved : forall hi evs,
  let s := il_run hi evs in
  (forall run, count_occ string_dec (map fst (il_initby s)) run =
               if existsb (is_setup_of run) evs then 1%nat else 0%nat) /\
  (hi = true -> t_inits (il_tab s) = N.of_nat (List.length (il_initby s))) /\
  (hi = false -> t_inits (il_tab s) = 0%N) /\
  (forall run tid, In (run, tid) (il_initby s) ->
     exists pre post, evs = pre ++ ESetup tid run :: post /\ existsb (is_setup_of run) pre = false) /\
  (forall run d, In (run, d) (il_seen s) -> alookup run (t_entries (il_tab s)) = Some d) /\
  (forall run d1 d2, In (run, d1) (il_seen s) -> In (run, d2) (il_seen s) -> d1 = d2) /\
  (hi = true -> NoDup (map snd (t_entries (il_tab s)))).
Proof. exact stepdata_once_interleaved. Qed.
Print Assumptions C11_stepdata_once_interleaved.

(* ---- non-vacuity: a real plugin, accepted and rejected inputs, all error classes, a history ---- *)
Section Examples.
  Open Scope string_scope.
  Let e0 := mkEnv [] [] (mkOracles (fun _ => None) (fun _ => true)).
  Let prop_ (t : schema) (req : bool) : property := mkProp t None req [] [] [] None [] false false None.
  Let in_scope := SScope [("In", SObject "In" false [("a", prop_ (SInt (Some 0%Z) None None) true)])] "In".
  Let out_scope := SScope [("Out", SObject "Out" false [("m", prop_ (SString None None None) true)])] "Out".
  Let sig_scope := SScope [("Sig", SObject "Sig" false [("x", prop_ (SString None (Some 3%Z) None) false)])] "Sig".
  Let p0 : plugin := [("step1", mkStepD in_scope [("success", out_scope)] [("cancel", sig_scope)] true)].
  Let raw_ok := VMap t_any_map false [(vstr "a", vi64 1)].
  Let raw_bad := VMap t_any_map false [(vstr "a", vi64 (-1))].
  Let nat_in := VMap t_str_map false [(vstr "a", vi64 1)].
  Let out_ok := VMap t_str_map false [(vstr "m", vstr "done")].
  Let out_bad := VMap t_str_map false [(vstr "m", vi64 5); (vstr "zz", vi64 1)].
  Let h_ok : stepid -> gval -> string * gval := fun _ _ => ("success", out_ok).
  Let h_undecl : stepid -> gval -> string * gval := fun _ _ => ("nosuch", out_ok).
  Let h_baddata : stepid -> gval -> string * gval := fun _ _ => ("success", out_bad).
  Let CS := call_step [] (fun _ _ => None) e0 50.
  Let SG := call_signal [] (fun _ _ => None) e0 50.

  Example C11_ex_handler_runs :
    handler_input [] (fun _ _ => None) e0 50 p0 "step1" raw_ok = Some nat_in
    /\ CS h_ok [] p0 "r1" "step1" raw_ok = (SOk ("success", out_ok), [LStep "step1" "r1" (Some 0%N) nat_in],
                                             [("step1", mkTab [("r1", Some 0%N)] 1%N)]).
  Proof. split; vm_compute; reflexivity. Qed.
  Example C11_ex_rejected_input :
    handler_input [] (fun _ _ => None) e0 50 p0 "step1" raw_bad = None
    /\ log_of (CS h_ok [] p0 "r1" "step1" raw_bad) = []
    /\ match res_of (CS h_ok [] p0 "r1" "step1" raw_bad) with SErr (CEInvalidInput _) => True | _ => False end.
  Proof. split; [|split]; [vm_compute; reflexivity..|]. vm_compute. exact I. Qed.
  Example C11_ex_error_classes :
    res_of (CS h_ok [] p0 "r1" "nostep" raw_ok) = SErr CENoSuchStep
    /\ res_of (CS h_undecl [] p0 "r1" "step1" raw_ok) = SErr CEUndeclaredOutput
    /\ match res_of (CS h_baddata [] p0 "r1" "step1" raw_ok) with SErr (CEOutputData _) => True | _ => False end
    /\ res_of (SG [] p0 "r1" "step1" "nosuchsignal" raw_ok) = SErr CENoSuchSignal.
  Proof. split; [|split; [|split]]; vm_compute; try reflexivity; exact I. Qed.
  (* the direct call: a native map of the right Go type whose field violates `a >= 0` never reaches the
     handler; the valid one does, and the output comes back unserialized *)
  Let nat_bad := VMap t_str_map false [(vstr "a", vi64 (-1))].
  Let DC := call_direct [] (fun _ _ => None) e0 50.
  Example C11_ex_direct :
    DC h_ok [] p0 "r1" "step1" nat_in = (SOk ("success", out_ok), [LStep "step1" "r1" (Some 0%N) nat_in],
                                           [("step1", mkTab [("r1", Some 0%N)] 1%N)])
    /\ log_of (DC h_ok [] p0 "r1" "step1" nat_bad) = []
    /\ state_of (DC h_ok [] p0 "r1" "step1" nat_bad) = []
    /\ match res_of (DC h_ok [] p0 "r1" "step1" nat_bad) with SErr (CEInvalidInput _) => True | _ => False end.
  Proof. split; [|split; [|split]]; vm_compute; try reflexivity; exact I. Qed.
  (* signal first, then the step, then another run: one initialiser run per run id *)
  Example C11_ex_history :
    let ops := [OpSignal "r1" "step1" "cancel" (VMap t_any_map false [(vstr "x", vstr "s")]);
                OpCall "r1" "step1" raw_ok h_ok; OpCall "r2" "step1" raw_ok h_ok] in
    snd (exec_ops [] (fun _ _ => None) e0 50 p0 ops) = [("step1", mkTab [("r2", Some 1%N); ("r1", Some 0%N)] 2%N)]
    /\ map lk_data (all_logs (fst (exec_ops [] (fun _ _ => None) e0 50 p0 ops))) = [Some 0%N; Some 0%N; Some 1%N].
  Proof. split; vm_compute; reflexivity. Qed.
  Example C11_ex_interleaved :
    let s := il_run true [ESetup 2 "r1"; ESetup 1 "r1"; EHandler 1; ESetup 3 "r2"; EHandler 2; EHandler 3] in
    il_initby s = [("r2", 3%N); ("r1", 2%N)] /\ il_seen s = [("r2", Some 1%N); ("r1", Some 0%N); ("r1", Some 0%N)].
  Proof. split; vm_compute; reflexivity. Qed.
End Examples.

(* ---- (7) Signals are looked up by the key under which the step REGISTERED them (Call/StepSig.v): the
   plugin-level CallSignal and the step's own CallSignal agree on which handler a key names, whatever the
   signals' own IDs are; the step's own CallSignal (a native value, no Unserialize in front) runs the handler
   once with exactly that value iff the value passes the schema registered under the key. ---- *)
From Verif Require Import Call.StepSig.

Theorem C11_signal_factors : forall words pu e fuel ps p run sid st sig ss raw n,
  alookup sid p = Some st -> alookup sig (sd_signals st) = Some ss ->
  s_unser words pu e fuel ss raw = Ok n ->
  call_signal words pu e fuel ps p run sid sig raw = call_signal_direct words pu e fuel ps p run sid sig n.
Proof. exact signal_factors. Qed.
Print Assumptions C11_signal_factors.

Theorem C11_signal_rejected_raw : forall words pu e fuel ps p run sid st sig ss raw er,
  alookup sid p = Some st -> alookup sig (sd_signals st) = Some ss ->
  s_unser words pu e fuel ss raw = Err er ->
  call_signal words pu e fuel ps p run sid sig raw = (SErr (CEInvalidInput er), [], ps).
Proof. exact signal_rejected_raw. Qed.
Print Assumptions C11_signal_rejected_raw.

Theorem C11_direct_signal_unknown : forall words pu e fuel ps p run sid st sig input,
  alookup sid p = Some st -> alookup sig (sd_signals st) = None ->
  call_signal_direct words pu e fuel ps p run sid sig input = (SErr CENoSuchSignal, [], ps).
Proof. exact direct_signal_unknown. Qed.
Print Assumptions C11_direct_signal_unknown.

Theorem C11_direct_signal_handler_iff : forall words pu e fuel ps p run sid st sig ss input,
  alookup sid p = Some st -> alookup sig (sd_signals st) = Some ss ->
  ((exists d, log_of (call_signal_direct words pu e fuel ps p run sid sig input) = [LSignal sid sig run d input]) <->
   (exists u, s_validate words pu e fuel ss input = Ok u)) /\
  ((forall u, s_validate words pu e fuel ss input <> Ok u) ->
   log_of (call_signal_direct words pu e fuel ps p run sid sig input) = []).
Proof. exact direct_signal_handler_iff. Qed.
Print Assumptions C11_direct_signal_handler_iff.

Theorem C11_direct_signal_only_its_entry : forall words pu e fuel ps run sid sig input (st1 st2 : step_d) p1 p2,
  alookup sid p1 = Some st1 -> alookup sid p2 = Some st2 ->
  alookup sig (sd_signals st1) = alookup sig (sd_signals st2) ->
  sd_has_init st1 = sd_has_init st2 ->
  call_signal_direct words pu e fuel ps p1 run sid sig input = call_signal_direct words pu e fuel ps p2 run sid sig input.
Proof. exact direct_signal_only_its_entry. Qed.
Print Assumptions C11_direct_signal_only_its_entry.

(* histories extended by direct signal calls contain the histories of (5) *)
Theorem C11_histories_extend : forall words pu e fuel p ops,
  exec_ops2 words pu e fuel p (map OpBase ops) = exec_ops words pu e fuel p ops.
Proof. exact exec_ops2_base. Qed.
Print Assumptions C11_histories_extend.

Section ExamplesSig.
  Open Scope string_scope.
  Let e0 := mkEnv [] [] (mkOracles (fun _ => None) (fun _ => true)).
  Let prop_ (t : schema) (req : bool) : property := mkProp t None req [] [] [] None [] false false None.
  Let in_scope := SScope [("In", SObject "In" false [("a", prop_ (SInt (Some 0%Z) None None) true)])] "In".
  Let sig_a := SScope [("Sig", SObject "Sig" false [("x", prop_ (SString None (Some 3%Z) None) false)])] "Sig".
  Let sig_b := SScope [("Sig", SObject "Sig" false [("n", prop_ (SInt None None None) true)])] "Sig".
  (* two signals with DIFFERENT data schemas under the keys "stop" / "pause" *)
  Let p0 : plugin := [("step1", mkStepD in_scope [] [("stop", sig_a); ("pause", sig_b)] true)].
  Let raw_a := VMap t_any_map false [(vstr "x", vstr "s")].
  Let nat_a := VMap t_str_map false [(vstr "x", vstr "s")].
  Example C11_ex_signal_by_key :
    call_signal [] (fun _ _ => None) e0 50 [] p0 "r1" "step1" "stop" raw_a
      = (SOk tt, [LSignal "step1" "stop" "r1" (Some 0%N) nat_a], [("step1", mkTab [("r1", Some 0%N)] 1%N)])
    /\ call_signal_direct [] (fun _ _ => None) e0 50 [] p0 "r1" "step1" "stop" nat_a
      = (SOk tt, [LSignal "step1" "stop" "r1" (Some 0%N) nat_a], [("step1", mkTab [("r1", Some 0%N)] 1%N)])
    /\ log_of (call_signal_direct [] (fun _ _ => None) e0 50 [] p0 "r1" "step1" "pause" nat_a) = []
    /\ call_signal_direct [] (fun _ _ => None) e0 50 [] p0 "r1" "step1" "generic-id" nat_a = (SErr CENoSuchSignal, [], []).
  Proof. split; [|split; [|split]]; vm_compute; reflexivity. Qed.
End ExamplesSig.

(* (5') the per-run step-data statement for histories over ALL FOUR entry points: CallStep, CallSignal, the step's own
   Call and the step's own CallSignal (sop2 / exec_ops2, Call/StepSig.v) *)
From Verif Require Import Proofs.StepSigHist.
Theorem C11_stepdata_once_all_entry_points : forall words pu e fuel p ops,
  let res := fst (exec_ops2 words pu e fuel p ops) in
  let ps := snd (exec_ops2 words pu e fuel p ops) in
  (forall sid st, alookup sid p = Some st -> sd_has_init st = true ->
     t_inits (tab_of ps sid) = N.of_nat (List.length (t_entries (tab_of ps sid))) /\
     NoDup (map fst (t_entries (tab_of ps sid))) /\ NoDup (map snd (t_entries (tab_of ps sid)))) /\
  (forall en, In en (all_logs res) ->
     alookup (lk_run en) (t_entries (tab_of ps (lk_step en))) = Some (lk_data en)) /\
  (forall e1 e2, In e1 (all_logs res) -> In e2 (all_logs res) ->
     lk_step e1 = lk_step e2 -> lk_run e1 = lk_run e2 -> lk_data e1 = lk_data e2).
Proof. exact stepdata_once_history2. Qed.
Print Assumptions C11_stepdata_once_all_entry_points.

Example C11_ex_history_direct_signal :
  let e0 := mkEnv [] [] (mkOracles (fun _ => None) (fun _ => true)) in
  let prop_ (t : schema) (req : bool) : property := mkProp t None req [] [] [] None [] false false None in
  let in_scope := SScope [("In", SObject "In" false [("a", prop_ (SInt (Some 0%Z) None None) true)])] "In" in
  let sig_a := SScope [("Sig", SObject "Sig" false [("x", prop_ (SString None (Some 3%Z) None) false)])] "Sig" in
  let p0 : plugin := [("step1", mkStepD in_scope [] [("stop", sig_a)] true)] in
  let nat_a := VMap t_str_map false [(vstr "x", vstr "s")] in
  let ops := [OpDirectSignal "r1" "step1" "stop" nat_a;
              OpBase (OpSignal "r1" "step1" "stop" (VMap t_any_map false [(vstr "x", vstr "s")]));
              OpDirectSignal "r2" "step1" "stop" nat_a] in
  snd (exec_ops2 [] (fun _ _ => None) e0 50 p0 ops) = [("step1", mkTab [("r2", Some 1%N); ("r1", Some 0%N)] 2%N)]
  /\ map lk_data (all_logs (fst (exec_ops2 [] (fun _ _ => None) e0 50 p0 ops))) = [Some 0%N; Some 0%N; Some 1%N].
Proof. split; vm_compute; reflexivity. Qed.
