(* Properties/C05.v — ATP is transparent: a step sees the same input in-process and over the
   wire.  DATA LAYER.  Statements only; every proof is `exact <lemma>` (Proofs/CborNorm.v).

   Over the wire the step's input is CBOR-encoded by the client and decoded into `any` by the
   server before the step's input schema unserializes it; `cbor_norm n v` (Schema/Cbor.v) is
   that encode+decode on the value universe: every integer becomes uint64 (>= 0) or int64,
   every float float64, every slice []any, every map map[any]any, to depth n.

   Vocabulary (Proofs/CborNorm.v):
     decodable v   v is something a CBOR / JSON / YAML decoder into `any` can produce: nil,
                   bool, an integer of any width within its range, float32/64, string, []any,
                   map[any]any, map[string]any of such values.  (Key uniqueness is not
                   required; the predicate is a superset of the real decoder outputs.)
     neq v v'      v' is v up to integer width, float width and container type, node by node
                   (the changes cbor_norm makes, applied at any subset of the nodes).

   RESULT: the full statement is proved, with literal equality of outcomes (same Ok value,
   same error WITH class and path, same panic, same OutOfFuel), for every schema kind
   (scalars, enums, pattern, any, list, map, object, one-of, ref, scope), every environment,
   every fuel of the operation, and EVERY normalisation depth n (no "n >= depth of v" is
   needed: normalising only the upper n levels is equally invisible).  Nothing is partial.

   The hypothesis `decodable v` is necessary: C05_norm_invariant_needs_decodable_refuted. *)
From Coq Require Import List ZArith Bool String.
From Verif Require Import Base.Prelude Base.Str Base.Float Base.GoVal
  Schema.Regex Schema.Units Schema.FloatUnits Schema.Syntax Schema.Ops Schema.Cbor
  Generated.Tables Proofs.CborNorm ATP.Msg ATP.Server Proofs.Server Proofs.ServerRoute.
From Verif Require ATP.Client ATP.System Proofs.ATPClientInv Proofs.C05Vocab Proofs.C05System Proofs.C05Live
  Proofs.C05ClientHalf Proofs.C05Examples Proofs.C05Close Proofs.C05CloseEx
  Call.Step ATP.SystemV Proofs.C05Transparent Proofs.C05TransparentEx Proofs.C05V1Serial
  Proofs.C05Param Proofs.C05Shutdown ATP.SystemVal Proofs.C05Image Proofs.C05ImageEx.
Import ListNotations.
Open Scope Z_scope.
Open Scope list_scope.

(* (1) The theorem.  `words` / `pu` are the SDK's boolean-word table and unit parser
   (Generated.Tables.bool_words, FloatUnits.parse_units_float in the interpreter); the
   statement holds for any. *)
Theorem C05_norm_invariant : forall words pu n v, decodable v ->
  forall f e s, unser words pu f e s (cbor_norm n v) = unser words pu f e s v.
Proof. exact norm_invariant. Qed.
Print Assumptions C05_norm_invariant.

(* (1') The same for any two values related by `neq` — what the proof actually uses, and what
   integration needs when the two sides were produced by different decoders. *)
Theorem C05_norm_invariant_rel : forall words pu v v', neq v v' ->
  forall f e s, unser words pu f e s v' = unser words pu f e s v.
Proof. exact norm_invariant_rel. Qed.
Print Assumptions C05_norm_invariant_rel.

Theorem C05_norm_related : forall n v, decodable v -> neq v (cbor_norm n v).
Proof. exact cbor_norm_neq. Qed.
Print Assumptions C05_norm_related.

(* (2) What arrives is again decodable (so the theorem applies hop after hop). *)
Theorem C05_norm_decodable : forall n v, decodable v -> decodable (cbor_norm n v).
Proof. exact cbor_norm_decodable. Qed.
Print Assumptions C05_norm_decodable.

(* the class is decidable: the boolean check the interpreter can run on every case value *)
Theorem C05_decodable_check : forall n v, decodableb n v = true -> decodable v.
Proof. exact decodableb_sound. Qed.
Print Assumptions C05_decodable_check.

(* (3) The input mappers, one by one (for every decodable value, not only scalars). *)
Theorem C05_int_mapper_norm_invariant : forall u n v, decodable v ->
  int_mapper u (cbor_norm n v) = int_mapper u v.
Proof. exact int_mapper_norm_invariant. Qed.
Print Assumptions C05_int_mapper_norm_invariant.

Theorem C05_float_mapper_norm_invariant : forall pu u n v, decodable v ->
  float_mapper pu u (cbor_norm n v) = float_mapper pu u v.
Proof. exact float_mapper_norm_invariant. Qed.
Print Assumptions C05_float_mapper_norm_invariant.

Theorem C05_string_mapper_norm_invariant : forall n v, decodable v ->
  string_mapper (cbor_norm n v) = string_mapper v.
Proof. exact string_mapper_norm_invariant. Qed.
Print Assumptions C05_string_mapper_norm_invariant.

Theorem C05_bool_mapper_norm_invariant : forall words n v, decodable v ->
  bool_unser words (cbor_norm n v) = bool_unser words v.
Proof. exact bool_mapper_norm_invariant. Qed.
Print Assumptions C05_bool_mapper_norm_invariant.

(* (4) The `any` schema (checkAndConvert): it returns a converted copy, and the copy is the
   same on both sides — the representation difference does not leak through `any`. *)
Theorem C05_any_norm_invariant : forall f n v, decodable v ->
  any_conv f (cbor_norm n v) = any_conv f v.
Proof. exact any_conv_norm_invariant. Qed.
Print Assumptions C05_any_norm_invariant.

(* (5) The hypothesis is necessary.
   FULL STATEMENT without it (false):
     forall words pu n v f e s, unser words pu f e s (cbor_norm n v) = unser words pu f e s v.
   A value of a named type (type T string, time.Duration) is not matched by the mappers' type
   switches in-process, but arrives as a plain string / int64 over the wire. *)
Theorem C05_norm_invariant_needs_decodable_refuted : exists v s, forall words pu f e,
  unser words pu (S f) e s (cbor_norm 1 v) <> unser words pu (S f) e s v.
Proof. exact norm_needs_decodable. Qed.
Print Assumptions C05_norm_invariant_needs_decodable_refuted.

Theorem C05_named_string_differs : forall words pu f e,
  unser words pu (S f) e (SString None None None)
      (cbor_norm 1 (VStr (TNamed "T" TStr) "x")) = Ok (vstr "x")
  /\ unser words pu (S f) e (SString None None None)
      (VStr (TNamed "T" TStr) "x") = Err (cerr ERepr).
Proof. exact norm_named_string_differs. Qed.
Print Assumptions C05_named_string_differs.

Theorem C05_named_int_differs : forall words pu f e,
  unser words pu (S f) e (SInt None None None)
      (cbor_norm 1 (VInt (TNamed "Duration" (TInt I64)) 5)) = Ok (vi64 5)
  /\ unser words pu (S f) e (SInt None None None)
      (VInt (TNamed "Duration" (TInt I64)) 5) = Err (cerr ERepr).
Proof. exact norm_named_int_differs. Qed.
Print Assumptions C05_named_int_differs.

(* ---- non-vacuity: concrete schemas and decodable values that the wire really changes ---- *)
Section Examples.
  Open Scope string_scope.
  Let U := unser bool_words parse_units_float.
  Let e0 : env := mkEnv [] [] (mkOracles (fun _ => None) (fun _ => true)).

  (* list[int 0..100]; the YAML/JSON side produced small ints, a float32 and a string *)
  Let s_list : schema := SList (SInt (Some 0) (Some 100) None) None None.
  Let v_list : gval :=
    VSlice t_any_slice false
      [VInt (TInt I8) 3; VInt (TInt U16) 40; VFloat TF32 (fl_of_Z b32 7); VStr TStr "12"; VBool TBool true].

  Example C05_ex_list_decodable : decodable v_list.
  Proof. repeat constructor. Qed.
  Example C05_ex_list_changed :
    cbor_norm 2 v_list =
      VSlice t_any_slice false
        [VInt (TInt U64) 3; VInt (TInt U64) 40; VFloat TF64 (fl_of_Z b32 7); VStr TStr "12"; VBool TBool true]
    /\ cbor_norm 2 v_list <> v_list.
  Proof. split; [reflexivity | discriminate]. Qed.
  Example C05_ex_list_same :
    U 5%nat e0 s_list v_list = Ok (VSlice (TSlice (TInt I64)) false [vi64 3; vi64 40; vi64 7; vi64 12; vi64 1])
    /\ U 5%nat e0 s_list (cbor_norm 2 v_list) = U 5%nat e0 s_list v_list.
  Proof. split; vm_compute; reflexivity. Qed.
  (* ... and an error is the same error, path included *)
  Example C05_ex_list_same_error :
    let bad := VSlice t_any_slice false [VInt (TInt I8) 3; VInt (TInt I16) (-1)] in
    U 5%nat e0 s_list bad = Err (mkErr true ["[1]"] EBound)
    /\ U 5%nat e0 s_list (cbor_norm 2 bad) = U 5%nat e0 s_list bad.
  Proof. split; vm_compute; reflexivity. Qed.

  (* scope { root: object { n: int (required), tags: map[string]any, kind: one-of } } *)
  Let prop (s : schema) (req : bool) : property :=
    mkProp s None req [] [] [] None [] false false None.
  Let s_obj : schema :=
    SScope
      [("root", SObject "root" false
                  [("n", prop (SInt None None None) true);
                   ("tags", prop (SMap (SString None None None) SAny None None) false);
                   ("kind", prop (SOneOf [(KI 1, SRef "a" "" None); (KI 2, SRef "b" "" None)] true "t" false) false)]);
       ("a", SObject "a" false [("x", prop (SFloat None None None) true)]);
       ("b", SObject "b" false [("y", prop SBool true)])]
      "root".
  Let v_obj : gval :=
    VMap t_str_map false
      [(VStr TStr "n", VInt (TInt I32) (-5));
       (VStr TStr "tags", VMap t_any_map false [(VInt (TInt I0) 1, VFloat TF32 (fl_of_Z b32 2));
                                                (VStr TStr "k", VSlice t_any_slice false [VInt (TInt U8) 9; VStr TStr "z"])]);
       (VStr TStr "kind", VMap t_str_map false [(VStr TStr "t", VInt (TInt U8) 1); (VStr TStr "x", VInt (TInt I16) 3)])].

  Example C05_ex_obj_decodable : decodable v_obj.
  Proof. apply dec_smap. repeat constructor; try (eexists; reflexivity). Qed.
  Example C05_ex_obj_check : decodableb 6 v_obj = true /\ decodableb 6 (cbor_norm 4 v_obj) = true.
  Proof. split; vm_compute; reflexivity. Qed.
  Example C05_ex_obj_changed : cbor_norm 4 v_obj <> v_obj.
  Proof. discriminate. Qed.
  Example C05_ex_obj_same :
    is_ok (U 9%nat e0 s_obj v_obj) = true
    /\ U 9%nat e0 s_obj (cbor_norm 4 v_obj) = U 9%nat e0 s_obj v_obj.
  Proof. split; vm_compute; reflexivity. Qed.
  (* the theorem instantiated on them *)
  Example C05_ex_instances : forall n f e,
    U f e s_list (cbor_norm n v_list) = U f e s_list v_list
    /\ U f e s_obj (cbor_norm n v_obj) = U f e s_obj v_obj.
  Proof.
    intros n f e. split; apply C05_norm_invariant;
      [exact C05_ex_list_decodable | exact C05_ex_obj_decodable].
  Qed.
End Examples.

(* ------------------------------------------------------------------------------------------
   PROTOCOL LAYER — the plan as it was fixed before the composed model existed (kept for
   reference; the theorems actually proved over the composition ATP/System.v are at the END of
   this file: C05_never_cross_delivered, C05_refines_with_close (sessions with or without Close;
   C05_every_execute_returns / C05_refines / C05_rejected_is_error are its close = false instances),
   C05_clean_shutdown, C05_client_routes_by_run_id, the end-to-end statements over values
   C05_transparent_end_to_end / C05_transparent_values (with C05_client_payload_parametric,
   C05_value_level_is_image), C05_v1_concurrent_refuted and C05_v1_serial).

   Notation for the composition:
     sys N calls sched   the run of one client and one server, protocol version 3, where the
                         client issues `calls : list (runid * stepid * gval)` (at most N in
                         flight, pairwise distinct run ids) and `sched` resolves every
                         interleaving choice (which goroutine moves, pipe chunking);
     healthy sched       no pipe fault (no EvGarbage / EvPartialThenEOF / EvReadErr / early
                         EvEOF), every enabled goroutine eventually scheduled;
     CallStep st v       the in-process semantics of a step: Unserialize v with the step's
                         input schema, run the handler on the result, Serialize the output with
                         the output schema — `unser` / handler / `serialize` of Schema/Ops.v;
     result_of r tr      the (output id, output data) or error that Execute(run r) returned in
                         trace tr.

   C05_refines :
     forall N calls sched, healthy sched -> distinct_runs calls ->
       (forall c, In c calls -> decodable (input c)) ->
       let tr := sys N calls sched in
       forall r st v, In (r, st, v) calls ->
         result_of r tr = cbor_norm_result (CallStep st v).
     i.e. each Execute returns exactly what calling the step in-process on ITS OWN input
     returns (up to the CBOR normalisation of the output data on the way back), whatever the
     other N-1 concurrent calls are: replies are routed by run id, never by arrival order.
     The input side is discharged by C05_norm_invariant:
       unser f e (input_schema st) (cbor_norm n v) = unser f e (input_schema st) v,
     the output side by C05_norm_decodable / C01 (serialized values are wire values).

   C05_rejected_is_error :
     forall N calls sched r st v, healthy sched -> In (r, st, v) calls ->
       is_err (unser f e (input_schema st) v) = true ->
       exists fatal, result_of r (sys N calls sched) = RErr fatal /\
       handler_invocations r (sys N calls sched) = 0.
     An input the schema rejects in-process is rejected over the wire too (same error class,
     by C05_norm_invariant), surfaces as an error of that Execute only (ErrMsg with
     step_fatal = true, server_fatal = false), and the handler is never run on it; the other
     runs are unaffected.

   C05_v1_concurrent_refuted :
     exists calls sched, healthy sched /\ distinct_runs calls /\ List.length calls = 2 /\
       exists r st v, In (r, st, v) calls /\
         result_of r (sys_v1 2 calls sched) <> cbor_norm_result (CallStep st v).
     With the version-1 framing (WorkDone / Signal without a run id; the client pairs a reply
     with "the" running step) two overlapping runs cross-deliver: the first WorkDone to arrive
     is handed to whichever Execute is waiting.  Version 1 is transparent only for N = 1
     (C05_refines restricted to List.length calls = 1 holds for sys_v1).
   ------------------------------------------------------------------------------------------ *)

(* ---- PROTOCOL LAYER, server half (model ATP/Server.v, every client script x every behaviour oracle x
   every schedule, any number of overlapping runs): a work-done message for run id r with output id o
   is on the server's output only if the read loop consumed a work-start WITH THAT RUN ID whose
   execution yields o.  The server never fabricates a result and never files one run's output under
   another run id; with C07_one_terminal (exactly one terminal message per accepted work-start while
   the output is open) nothing is lost or duplicated on the server side either.  The client half
   (routing by run id in the read loop, C06 invariants) and the composition C05_refines are stated in
   the comment above and belong to the client model. ---- *)
Theorem C05_server_routes_by_run_id :
  forall (c : Verif.ATP.Server.cfg) (ls : list Verif.ATP.Server.label) (r : Verif.ATP.Msg.runid) (o : string),
  let s := Verif.ATP.Server.run c Verif.ATP.Server.init ls in
  In (Verif.ATP.Server.ODone r o) (Verif.ATP.Server.out s) ->
  exists st tok, In (Verif.ATP.Msg.EvMsg (Verif.ATP.Msg.WorkStart r st tok)) (Verif.ATP.Server.hist s) /\
                 Verif.ATP.Server.step_outcome c st tok = Verif.ATP.Server.BSuccess o.
Proof. exact Verif.Proofs.ServerRoute.c05_server_routes. Qed.
Print Assumptions C05_server_routes_by_run_id.

Example C05_server_routes_nonvacuous :
  In (Verif.ATP.Server.ODone "a"%string "success"%string)
     (Verif.ATP.Server.out (Verif.ATP.Server.run Verif.Proofs.Server.c07_example_cfg Verif.ATP.Server.init
                                                 Verif.Proofs.Server.c07_example_schedule)).
Proof. vm_compute. auto. Qed.

(* ==========================================================================================
   PROTOCOL LAYER — CLIENT HALF and COMPOSITION (model ATP/System.v: the client model ATP/Client.v
   with payload := Z (a token standing for the step input) x the server model ATP/Server.v x the
   two FIFO streams, the client model's scripted peer REPLACED by the real server model).

   Vocabulary (ATP/System.v):
     scfg                 the plugin: behaviour oracle of ATP/Server.v (sc_srv: what the execution of a
                          token does, which handlers are slow, which step / signal ids exist) and the
                          output data of a successful execution (sc_data)
     sys_init calls close the initial state of a session: `calls : list (callspec Z)` (run id, lane
                          predecessor = "at most N in flight", signal channels, input token); server
                          after the handshake
     slabel, sys_step     one step of a client goroutine (Execute i, signal writer i, read loop with any
                          read-ahead k, Close) | the pipe carries the oldest client message to the
                          server | one step of a server goroutine (read loop, closure handler, step /
                          signal goroutine i) | the environment releases a slow handler
     sys_run g s sched    the state after the schedule `sched` (undefined if a label is not enabled)
     sys_final g s        no label is enabled: a maximal execution has ended
     sys_result s i       what Execute number i has returned (None: not yet)
     spec_callstep g t    the one-line sequential specification, CallStep of input t in-process:
                          ROk o (sc_data g t) if the execution of t yields output o, RErr ErrStep else
   Healthy transport is built into the composition: no label injects a stream fault, a write failure,
   a cancellation or a closed output.  Hypotheses of the theorems: run ids non-empty and pairwise
   distinct, lane predecessors point backwards (wf_session).
   ========================================================================================== *)

(* (P1) SAFETY, every reachable state, every schedule, any number of overlapping calls, with or without
   Close: whatever Execute number i has returned is CallStep of ITS OWN input - never another run's
   result, never corrupted data, never a made-up error. *)
Theorem C05_never_cross_delivered :
  forall (g : Verif.ATP.System.scfg) (calls : list (Verif.ATP.Client.callspec Z)) (close : bool),
    (forall x, In x calls -> Verif.ATP.Client.cs_run x <> ""%string) ->
    Verif.Proofs.ATPClientInv.wf_session (Verif.ATP.System.sys_session calls close) ->
    forall (sched : list Verif.ATP.System.slabel) (s : Verif.ATP.System.sstate) (i : nat)
           (x : Verif.ATP.Client.callspec Z) (v : Verif.ATP.Client.result Z),
      Verif.ATP.System.sys_run g (Verif.ATP.System.sys_init calls close) sched = Some s ->
      nth_error calls i = Some x -> Verif.ATP.System.sys_result s i = Some v ->
      v = Verif.ATP.System.spec_callstep g (Verif.ATP.Client.cs_input x).
Proof. exact Verif.Proofs.C05System.sys_safety. Qed.
Print Assumptions C05_never_cross_delivered.

(* (P2) PROGRESS of the composition (sessions in which the harness does not call Close): when no label of
   the composed system is enabled, every Execute has returned - nothing is lost. *)
Theorem C05_every_execute_returns :
  forall (g : Verif.ATP.System.scfg) (calls : list (Verif.ATP.Client.callspec Z)),
    (forall x, In x calls -> Verif.ATP.Client.cs_run x <> ""%string) ->
    Verif.Proofs.ATPClientInv.wf_session (Verif.ATP.System.sys_session calls false) ->
    forall (sched : list Verif.ATP.System.slabel) (s : Verif.ATP.System.sstate),
      Verif.ATP.System.sys_run g (Verif.ATP.System.sys_init calls false) sched = Some s ->
      Verif.ATP.System.sys_final g s ->
      forall i c, nth_error (Verif.ATP.Client.callers (Verif.ATP.System.cl s)) i = Some c ->
                  Verif.ATP.Client.caller_done c = true.
Proof. exact Verif.Proofs.C05Live.sys_returns. Qed.
Print Assumptions C05_every_execute_returns.

(* (P3) REFINEMENT: for every number of calls, every input, every schedule of the composed system over
   protocol version 3, at the end of every maximal execution Execute number i has returned exactly
   `spec_callstep` of call i's input: the concurrent system refines the sequential specification "a map
   from run id to CallStep of that run's input".  (The FULL statement of the plan above, with
   result_of r tr = sys_result s i, healthy sched = the label alphabet of ATP/System.v, distinct_runs =
   wf_session; the data layer - cbor_norm on both legs - is C05_norm_invariant / C05_norm_decodable; the
   session does not call Close: the Close half of the client is C06.) *)
Theorem C05_refines :
  forall (g : Verif.ATP.System.scfg) (calls : list (Verif.ATP.Client.callspec Z)),
    (forall x, In x calls -> Verif.ATP.Client.cs_run x <> ""%string) ->
    Verif.Proofs.ATPClientInv.wf_session (Verif.ATP.System.sys_session calls false) ->
    forall (sched : list Verif.ATP.System.slabel) (s : Verif.ATP.System.sstate),
      Verif.ATP.System.sys_run g (Verif.ATP.System.sys_init calls false) sched = Some s ->
      Verif.ATP.System.sys_final g s ->
      forall i x, nth_error calls i = Some x ->
        Verif.ATP.System.sys_result s i = Some (Verif.ATP.System.spec_callstep g (Verif.ATP.Client.cs_input x)).
Proof. exact Verif.Proofs.C05Live.sys_refines. Qed.
Print Assumptions C05_refines.

(* (P4) an input the step rejects (behaviour BFails: the input schema refuses it, or the step id does not
   exist) comes back as THAT run's error and the handler is never reached; by C05_refines the other
   runs of the session still get their own results. *)
Theorem C05_rejected_is_error :
  forall (g : Verif.ATP.System.scfg) (calls : list (Verif.ATP.Client.callspec Z)),
    (forall x, In x calls -> Verif.ATP.Client.cs_run x <> ""%string) ->
    Verif.Proofs.ATPClientInv.wf_session (Verif.ATP.System.sys_session calls false) ->
    forall (sched : list Verif.ATP.System.slabel) (s : Verif.ATP.System.sstate),
      Verif.ATP.System.sys_run g (Verif.ATP.System.sys_init calls false) sched = Some s ->
      Verif.ATP.System.sys_final g s ->
      forall i x, nth_error calls i = Some x ->
        Verif.ATP.Server.step_outcome (Verif.ATP.System.sc_srv g) "s"%string (Verif.ATP.Client.cs_input x)
          = Verif.ATP.Server.BFails ->
        Verif.ATP.System.sys_result s i = Some (Verif.ATP.Client.RErr Verif.ATP.Client.ErrStep) /\
        Verif.ATP.Server.handler_reached (Verif.ATP.System.sc_srv g) "s"%string (Verif.ATP.Client.cs_input x) = false.
Proof. exact Verif.Proofs.C05Live.sys_rejected. Qed.
Print Assumptions C05_rejected_is_error.

(* (P5) the CLIENT HALF as a theorem about the client model alone against an arbitrary environment
   (Proofs/C05ClientHalf.v: `erun` = any interleaving of client goroutine steps, the pipe, and arrivals of
   event lists; `arrival_ok`: what arrives are terminal messages `tmsg r t` of the session's calls -
   work-done(r, "s", o, d) with spec t = ROk o d, or the step-fatal error of run r with spec t = RErr
   ErrStep - and non-fatal error reports, in any order and multiplicity): every message the client has on
   the wire is a work-start with step "s" and the run id AND input of one of its calls (or a signal, or
   client-done), and Execute number i returns spec of ITS OWN input: the read loop files results by run
   id. *)
Theorem C05_client_routes_by_run_id :
  forall (se : Verif.ATP.Client.session Z) (spec : Z -> Verif.ATP.Client.result Z)
         (tmsg : Verif.ATP.Msg.runid -> Z -> Verif.ATP.Msg.msg Z),
    Verif.Proofs.ATPClientInv.wf_session se ->
    Verif.ATP.Client.se_wfail se = None ->
    (forall x, In x (Verif.ATP.Client.se_calls se) -> Verif.ATP.Client.cs_run x <> ""%string) ->
    (forall r t,
       (exists o d, tmsg r t = Verif.ATP.Msg.WorkDone r "s"%string o d ""%string /\ spec t = Verif.ATP.Client.ROk o d) \/
       (tmsg r t = Verif.ATP.Msg.ErrMsg r true false /\ spec t = Verif.ATP.Client.RErr Verif.ATP.Client.ErrStep)) ->
    forall (es : list Verif.Proofs.C05ClientHalf.elabel) (s : Verif.ATP.Client.state Z),
      Forall (Verif.Proofs.C05ClientHalf.arrival_ok se tmsg) es ->
      Verif.Proofs.C05ClientHalf.erun (Verif.ATP.Client.init se) es = Some s ->
      Forall (Verif.Proofs.C05Vocab.c05_cwm (Verif.Proofs.C05ClientHalf.hcalls se)) (Verif.ATP.Client.to_server s) /\
      forall i x c v, nth_error (Verif.ATP.Client.se_calls se) i = Some x ->
                      nth_error (Verif.ATP.Client.callers s) i = Some c ->
                      Verif.ATP.Client.c_pc c = Verif.ATP.Client.CDone v ->
                      Verif.ATP.Client.c_run c = Verif.ATP.Client.cs_run x /\ v = spec (Verif.ATP.Client.cs_input x).
Proof. exact Verif.Proofs.C05ClientHalf.client_routes. Qed.
Print Assumptions C05_client_routes_by_run_id.

(* (P6) the legacy version-1 framing (no run id on the wire; every Execute decodes "the next" work-done
   itself: ATP/System.v v1_step) is NOT transparent for overlapping calls - known finding D26: two calls,
   a strictly sequential in-order v1 server, the second caller reads first: each caller returns the OTHER
   call's result, no error. *)
Theorem C05_v1_concurrent_refuted :
  exists (g : Verif.ATP.System.scfg) (inputs : list Z) (sched : list Verif.ATP.System.v1label) (s : Verif.ATP.System.v1state),
    List.length inputs = 2%nat /\
    Verif.ATP.System.v1_run g (Verif.ATP.System.v1_init inputs) sched = Some s /\ Verif.ATP.System.v1_final g s /\
    exists i t t', nth_error inputs i = Some t /\ Verif.ATP.System.v1_result s i = Some (Verif.ATP.System.spec_callstep g t') /\
                   Verif.ATP.System.spec_callstep g t' <> Verif.ATP.System.spec_callstep g t.
Proof. exact Verif.Proofs.C05Examples.v1_refuted. Qed.
Print Assumptions C05_v1_concurrent_refuted.

(* ---- non-vacuity: a session of three OVERLAPPING calls (a: slow success, b: success, c: input rejected),
   answers arriving in the order b, c, a, the read loop reading ahead; the schedule ends in a state in
   which no label is enabled (sys_quietb is a sound boolean check of sys_final) and the three results are
   what C05_refines says ---- *)
Example C05_refines_nonvacuous :
  (* ex_final := sys_run ex_g (sys_init ex_calls false) ex_sched  (Proofs/C05Examples.v) *)
  exists s, Verif.Proofs.C05Examples.ex_final = Some s /\
            Verif.ATP.System.sys_final Verif.Proofs.C05Examples.ex_g s /\
            Verif.ATP.System.sys_result s 0%nat = Some (Verif.ATP.Client.ROk "success"%string 10) /\
            Verif.ATP.System.sys_result s 1%nat = Some (Verif.ATP.Client.ROk "other"%string 30) /\
            Verif.ATP.System.sys_result s 2%nat = Some (Verif.ATP.Client.RErr Verif.ATP.Client.ErrStep).
Proof. exact Verif.Proofs.C05Examples.ex_refines. Qed.

Example C05_refines_hypotheses_hold :
  (forall x, In x Verif.Proofs.C05Examples.ex_calls -> Verif.ATP.Client.cs_run x <> ""%string) /\
  Verif.Proofs.ATPClientInv.wf_session (Verif.ATP.System.sys_session Verif.Proofs.C05Examples.ex_calls false).
Proof. exact Verif.Proofs.C05Examples.ex_hyps. Qed.

(* (P7) REFINEMENT WITH CLOSE.  The same composition, the harness calls Close (`close = true`: the closer goroutine of
   ATP/Client.v; its first step - the cancellation - is enabled once every Execute has written its work-start, i.e.
   Close runs concurrently with the calls in flight or after they have returned; `close = false` gives C05_refines
   again).  At the end of EVERY maximal execution: every Execute has returned `spec_callstep` of its own input - the
   result, not merely "a result or an error": client-done is written behind every work-start and the server finishes
   every accepted run before it closes workDone -, AND Close has returned nil (KDone CloseOk), the client's wait group is
   0, the read loop has exited, every signal writer has exited: nothing the client started is left blocked.
   New invariant (Proofs/C05Close.v CInv): FIFO order of the client -> server stream as a whole (pipe + server input):
   no accepted work-start behind the first client-done; once the server has consumed client-done no accepted
   work-start is left unread.  With it the server model's accounting (one terminal message per accepted work-start)
   reaches every call, and `server_idle2` covers the deferred / gone states of the server's run() goroutine. *)
Theorem C05_refines_with_close :
  forall (g : Verif.ATP.System.scfg) (calls : list (Verif.ATP.Client.callspec Z)) (close : bool),
    (forall x, In x calls -> Verif.ATP.Client.cs_run x <> ""%string) ->
    Verif.Proofs.ATPClientInv.wf_session (Verif.ATP.System.sys_session calls close) ->
    forall (sched : list Verif.ATP.System.slabel) (s : Verif.ATP.System.sstate),
      Verif.ATP.System.sys_run g (Verif.ATP.System.sys_init calls close) sched = Some s ->
      Verif.ATP.System.sys_final g s ->
      (forall i x, nth_error calls i = Some x ->
         Verif.ATP.System.sys_result s i = Some (Verif.ATP.System.spec_callstep g (Verif.ATP.Client.cs_input x))) /\
      (close = true ->
         Verif.ATP.Client.closer (Verif.ATP.System.cl s) = Verif.ATP.Client.KDone Verif.ATP.Client.CloseOk /\
         Verif.ATP.Client.wg (Verif.ATP.System.cl s) = 0%nat /\
         Verif.ATP.Client.loop_live (Verif.ATP.Client.cur (Verif.ATP.System.cl s)) = false /\
         forall i c, nth_error (Verif.ATP.Client.callers (Verif.ATP.System.cl s)) i = Some c ->
                     Verif.ATP.Client.c_spc c = Verif.ATP.Client.SNone \/ Verif.ATP.Client.c_spc c = Verif.ATP.Client.SExit).
Proof. exact Verif.Proofs.C05Close.sys_refines_close. Qed.
Print Assumptions C05_refines_with_close.

(* ---- non-vacuity: the three overlapping calls of C05_refines_nonvacuous with Close called WHILE they are in flight
   (client-done is written right behind the three work-starts); the schedule ends in a state in which no label is
   enabled: the three results are the specified ones, Close has returned nil, and on the server side the closure
   handler has returned and the run() goroutine is gone ---- *)
Example C05_refines_with_close_nonvacuous :
  (* exc_final := sys_run ex_g (sys_init ex_calls true) exc_sched  (Proofs/C05CloseEx.v) *)
  exists s, Verif.Proofs.C05CloseEx.exc_final = Some s /\
            Verif.ATP.System.sys_final Verif.Proofs.C05Examples.ex_g s /\
            Verif.ATP.System.sys_result s 0%nat = Some (Verif.ATP.Client.ROk "success"%string 10) /\
            Verif.ATP.System.sys_result s 1%nat = Some (Verif.ATP.Client.ROk "other"%string 30) /\
            Verif.ATP.System.sys_result s 2%nat = Some (Verif.ATP.Client.RErr Verif.ATP.Client.ErrStep) /\
            Verif.ATP.Client.closer (Verif.ATP.System.cl s) = Verif.ATP.Client.KDone Verif.ATP.Client.CloseOk /\
            Verif.ATP.Client.wg (Verif.ATP.System.cl s) = 0%nat /\
            Verif.ATP.Server.hp (Verif.ATP.System.sv s) = Verif.ATP.Server.HReturned /\
            Verif.ATP.Server.rl (Verif.ATP.System.sv s) = Verif.ATP.Server.RGone.
Proof. exact Verif.Proofs.C05CloseEx.exc_refines. Qed.

Example C05_refines_with_close_hypotheses_hold :
  (forall x, In x Verif.Proofs.C05Examples.ex_calls -> Verif.ATP.Client.cs_run x <> ""%string) /\
  Verif.Proofs.ATPClientInv.wf_session (Verif.ATP.System.sys_session Verif.Proofs.C05Examples.ex_calls true).
Proof. exact Verif.Proofs.C05CloseEx.exc_hyps. Qed.

(* ==========================================================================================
   (P8) END TO END: THE DATA LAYER COMPOSED WITH THE PROTOCOL LAYER (ATP/SystemV.v).

   The composition ATP/System.v moves opaque payloads: the client model is parametric in the payload type and never
   inspects a payload, the server model consults it only through its behaviour oracle.  ATP/SystemV.v instantiates the
   payloads at the data level - a payload is a NAME for a `gval`:
     vcalls : list (callspec gval)   the session as the harness states it: run ids, lanes, signal channels and the INPUT
                                     VALUE handed to each Execute (the client model's callspec at payload := gval)
     vcfg                            the plugin at the data level: boolean words / unit parser / environment / fuel of the
                                     schema operations, the steps' input scope and output schemas (Call/Step.v plugin),
                                     the step handlers, which calls are slow, the depths n_in / n_out of the CBOR round
                                     trip on the two legs of the wire
     tok_calls vcalls                the same session, the input of call i named by the token i
     v_wire_in D vcalls i            cbor_norm n_in (input value of call i): what the server's decoder hands to CallStep
     v_scfg D vcalls                 the plugin of ATP/System.v: the behaviour of token i is the class of
                                     `call_step` (Call/Step.v: Unserialize, Validate, handler, output lookup, Validate,
                                     Serialize) ON THE DECODED VALUE v_wire_in i
     vsys_result D vcalls s i        what Execute i has returned, at the data level: for a work-done, output id and
                                     cbor_norm n_out (the serialized output data of that server-side call_step)
     v_call D v / v_spec D v         call_step "s" on a raw value v: (result, handler log, step-data tables) / the
                                     in-process specification: the result of call_step on the value Execute WAS GIVEN,
                                     the output data after its one CBOR round trip; every failure is ErrStep

   STATEMENT: for every plugin, every session with or without Close whose inputs are decodable, every schedule of
   the composed system, at the end of every maximal execution
     (a) Execute number i has returned v_spec of ITS OWN input value - the output data the caller receives is
         cbor_norm n_out (serialize (handler output)), the handler having run on unser (input): C05_transparent_reads;
     (b) the CallStep the server ran on what came over the wire IS the in-process CallStep on the original value:
         same result, same handler log (the handler SAW the same unserialized input: C05_norm_invariant), same
         step-data tables;
     (c) Close, if called, has returned nil.
   ========================================================================================== *)
Theorem C05_transparent_end_to_end :
  forall (D : Verif.ATP.SystemV.vcfg) (vcalls : list (Verif.ATP.Client.callspec gval)) (close : bool),
    (forall x, In x vcalls -> Verif.ATP.Client.cs_run x <> ""%string) ->
    Verif.Proofs.ATPClientInv.wf_session (Verif.ATP.Client.mkSession vcalls close [] None None) ->
    (forall x, In x vcalls -> decodable (Verif.ATP.Client.cs_input x)) ->
    forall (sched : list Verif.ATP.System.slabel) (s : Verif.ATP.System.sstate),
      Verif.ATP.System.sys_run (Verif.ATP.SystemV.v_scfg D vcalls)
        (Verif.ATP.System.sys_init (Verif.ATP.SystemV.tok_calls vcalls) close) sched = Some s ->
      Verif.ATP.System.sys_final (Verif.ATP.SystemV.v_scfg D vcalls) s ->
      (forall i x, nth_error vcalls i = Some x ->
         Verif.ATP.SystemV.vsys_result D vcalls s i
           = Some (Verif.ATP.SystemV.v_spec D (Verif.ATP.Client.cs_input x)) /\
         Verif.ATP.SystemV.v_call D (Verif.ATP.SystemV.v_wire_in D vcalls (Z.of_nat i))
           = Verif.ATP.SystemV.v_call D (Verif.ATP.Client.cs_input x)) /\
      (close = true ->
         Verif.ATP.Client.closer (Verif.ATP.System.cl s) = Verif.ATP.Client.KDone Verif.ATP.Client.CloseOk).
Proof. exact Verif.Proofs.C05Transparent.transparent. Qed.
Print Assumptions C05_transparent_end_to_end.

(* how (a) reads on the success path, in the terms of Schema/Ops.v *)
Theorem C05_transparent_reads :
  forall (D : Verif.ATP.SystemV.vcfg) (v : gval) (st : Verif.Call.Step.step_d) (n : gval)
         (oid : string) (odata : gval) (os : schema) (w : gval),
    alookup "s"%string (Verif.ATP.SystemV.v_plugin D) = Some st ->
    unser (Verif.ATP.SystemV.v_words D) (Verif.ATP.SystemV.v_pu D) (Verif.ATP.SystemV.v_fuel D) (Verif.ATP.SystemV.v_env D)
          (Verif.Call.Step.sd_input st) v = Ok n ->
    validate (Verif.ATP.SystemV.v_words D) (Verif.ATP.SystemV.v_pu D) (Verif.ATP.SystemV.v_fuel D) (Verif.ATP.SystemV.v_env D)
          (Verif.Call.Step.sd_input st) n = Ok tt ->
    Verif.ATP.SystemV.v_handler D "s"%string n = (oid, odata) ->
    alookup oid (Verif.Call.Step.sd_outputs st) = Some os ->
    validate (Verif.ATP.SystemV.v_words D) (Verif.ATP.SystemV.v_pu D) (Verif.ATP.SystemV.v_fuel D) (Verif.ATP.SystemV.v_env D)
          os odata = Ok tt ->
    serialize (Verif.ATP.SystemV.v_words D) (Verif.ATP.SystemV.v_pu D) (Verif.ATP.SystemV.v_fuel D) (Verif.ATP.SystemV.v_env D)
          os odata = Ok w ->
    Verif.ATP.SystemV.v_spec D v = Verif.ATP.Client.ROk oid (cbor_norm (Verif.ATP.SystemV.v_nout D) w) /\
    Verif.ATP.SystemV.v_seen D v = [n].
Proof. exact Verif.Proofs.C05Transparent.v_spec_reads. Qed.
Print Assumptions C05_transparent_reads.

(* the data-layer half of (b) on its own: CallStep does not see the wire *)
Theorem C05_callstep_norm_invariant :
  forall words pu e fuel h ps p run sid n v, decodable v ->
    Verif.Call.Step.call_step words pu e fuel h ps p run sid (cbor_norm n v)
      = Verif.Call.Step.call_step words pu e fuel h ps p run sid v.
Proof. exact Verif.Proofs.C05Transparent.call_step_norm. Qed.
Print Assumptions C05_callstep_norm_invariant.

(* ---- non-vacuity: a step that takes list[int 0..100] and echoes it; three overlapping calls whose inputs the wire
   really changes (small ints, float32, numeric string, bool -> uint64 / float64 / []any), the third out of bounds;
   Close while they are in flight; the maximal execution of Proofs/C05CloseEx.v.  Each Execute gets v_spec of its own
   input; the handler of "a" is invoked on the same []int64 in-process and behind the wire; the rejected input never
   reaches the handler ---- *)
Example C05_transparent_nonvacuous :
  exists s, Verif.Proofs.C05TransparentEx.exv_final = Some s /\
            Verif.ATP.System.sys_final (Verif.ATP.SystemV.v_scfg Verif.Proofs.C05TransparentEx.exv_D Verif.Proofs.C05TransparentEx.exv_calls) s /\
            Verif.ATP.SystemV.vsys_result Verif.Proofs.C05TransparentEx.exv_D Verif.Proofs.C05TransparentEx.exv_calls s 0%nat
              = Some Verif.Proofs.C05TransparentEx.exv_ra /\
            Verif.ATP.SystemV.v_spec Verif.Proofs.C05TransparentEx.exv_D Verif.Proofs.C05TransparentEx.exv_a
              = Verif.Proofs.C05TransparentEx.exv_ra /\
            Verif.ATP.SystemV.vsys_result Verif.Proofs.C05TransparentEx.exv_D Verif.Proofs.C05TransparentEx.exv_calls s 1%nat
              = Some Verif.Proofs.C05TransparentEx.exv_rb /\
            Verif.ATP.SystemV.v_spec Verif.Proofs.C05TransparentEx.exv_D Verif.Proofs.C05TransparentEx.exv_b
              = Verif.Proofs.C05TransparentEx.exv_rb /\
            Verif.ATP.SystemV.vsys_result Verif.Proofs.C05TransparentEx.exv_D Verif.Proofs.C05TransparentEx.exv_calls s 2%nat
              = Some (Verif.ATP.Client.RErr Verif.ATP.Client.ErrStep) /\
            Verif.ATP.SystemV.v_spec Verif.Proofs.C05TransparentEx.exv_D Verif.Proofs.C05TransparentEx.exv_c
              = Verif.ATP.Client.RErr Verif.ATP.Client.ErrStep /\
            Verif.ATP.Client.closer (Verif.ATP.System.cl s) = Verif.ATP.Client.KDone Verif.ATP.Client.CloseOk.
Proof. exact Verif.Proofs.C05TransparentEx.exv_transparent. Qed.

Example C05_transparent_wire_changes_input :
  cbor_norm 3 Verif.Proofs.C05TransparentEx.exv_a <> Verif.Proofs.C05TransparentEx.exv_a /\
  Verif.ATP.SystemV.v_seen Verif.Proofs.C05TransparentEx.exv_D Verif.Proofs.C05TransparentEx.exv_a
    = [Verif.Proofs.C05TransparentEx.exv_seen_a] /\
  Verif.ATP.SystemV.v_seen Verif.Proofs.C05TransparentEx.exv_D (cbor_norm 3 Verif.Proofs.C05TransparentEx.exv_a)
    = [Verif.Proofs.C05TransparentEx.exv_seen_a] /\
  Verif.ATP.SystemV.v_seen Verif.Proofs.C05TransparentEx.exv_D Verif.Proofs.C05TransparentEx.exv_c = [] /\
  Verif.ATP.SystemV.v_seen Verif.Proofs.C05TransparentEx.exv_D (cbor_norm 3 Verif.Proofs.C05TransparentEx.exv_c) = [].
Proof. exact Verif.Proofs.C05TransparentEx.exv_wire_changes. Qed.

Example C05_transparent_hypotheses_hold :
  (forall x, In x Verif.Proofs.C05TransparentEx.exv_calls -> Verif.ATP.Client.cs_run x <> ""%string) /\
  Verif.Proofs.ATPClientInv.wf_session (Verif.ATP.Client.mkSession Verif.Proofs.C05TransparentEx.exv_calls true [] None None) /\
  (forall x, In x Verif.Proofs.C05TransparentEx.exv_calls -> decodable (Verif.ATP.Client.cs_input x)).
Proof. exact Verif.Proofs.C05TransparentEx.exv_hyps. Qed.

(* ==========================================================================================
   (P9) VERSION 1, SERIAL USE (the positive counterpart of C05_v1_concurrent_refuted / D26).  The version-1 framing
   (ATP/System.v v1_step) under the discipline "an Execute is started only while no other call is in flight"
   (v1_serial_step: the step that writes a work-start is enabled only if no caller sits between its write and its read;
   every serial execution is an execution of the v1 model: C05_v1_serial_is_v1): in EVERY reachable state what Execute
   i has returned is CallStep of ITS OWN input, and - when no step execution fails (a failing step ends a version-1
   plugin) - a serial execution that can go no further has every Execute returned with that result.
   ========================================================================================== *)
Theorem C05_v1_serial :
  forall (g : Verif.ATP.System.scfg) (inputs : list Z) (sched : list Verif.ATP.System.v1label) (s : Verif.ATP.System.v1state),
    Verif.Proofs.C05V1Serial.v1_serial_run g (Verif.ATP.System.v1_init inputs) sched = Some s ->
    (forall i t v, nth_error inputs i = Some t -> Verif.ATP.System.v1_result s i = Some v ->
                   v = Verif.ATP.System.spec_callstep g t) /\
    ((forall t, In t inputs -> exists o, Verif.ATP.Server.step_outcome (Verif.ATP.System.sc_srv g) "s"%string t
                                           = Verif.ATP.Server.BSuccess o) ->
     Verif.Proofs.C05V1Serial.v1_serial_final g s ->
     forall i t, nth_error inputs i = Some t ->
                 Verif.ATP.System.v1_result s i = Some (Verif.ATP.System.spec_callstep g t)).
Proof. exact Verif.Proofs.C05V1Serial.v1_serial. Qed.
Print Assumptions C05_v1_serial.

Theorem C05_v1_serial_is_v1 :
  forall (g : Verif.ATP.System.scfg) (ls : list Verif.ATP.System.v1label) (s s' : Verif.ATP.System.v1state),
    Verif.Proofs.C05V1Serial.v1_serial_run g s ls = Some s' -> Verif.ATP.System.v1_run g s ls = Some s'.
Proof. exact Verif.Proofs.C05V1Serial.v1_serial_is_run. Qed.
Print Assumptions C05_v1_serial_is_v1.

(* non-vacuity: the two calls of the D26 witness used serially return their own results; the overlapping schedule of
   the witness is not a serial execution *)
Example C05_v1_serial_nonvacuous :
  exists s, Verif.Proofs.C05V1Serial.v1_serial_run Verif.Proofs.C05V1Serial.v1s_g (Verif.ATP.System.v1_init [1; 2])
              Verif.Proofs.C05V1Serial.v1s_sched = Some s /\
            Verif.Proofs.C05V1Serial.v1_serial_final Verif.Proofs.C05V1Serial.v1s_g s /\
            Verif.ATP.System.v1_result s 0%nat = Some (Verif.ATP.Client.ROk "out-A"%string 10) /\
            Verif.ATP.System.v1_result s 1%nat = Some (Verif.ATP.Client.ROk "out-B"%string 20).
Proof. exact Verif.Proofs.C05V1Serial.v1s_example. Qed.

Example C05_v1_overlap_is_not_serial :
  Verif.Proofs.C05V1Serial.v1_serial_run Verif.Proofs.C05V1Serial.v1s_g (Verif.ATP.System.v1_init [1; 2])
    [Verif.ATP.System.V1Caller 0; Verif.ATP.System.V1Caller 1; Verif.ATP.System.V1Server; Verif.ATP.System.V1Server;
     Verif.ATP.System.V1Caller 1; Verif.ATP.System.V1Caller 0] = None.
Proof. exact Verif.Proofs.C05V1Serial.v1s_overlap_excluded. Qed.

(* ==========================================================================================
   (P10) CLEAN SHUTDOWN of the server side.  In a session that calls Close, at the end of every maximal execution
   RunATPServer has returned: the closure handler is in HReturned, the run() goroutine is gone (workDone closed), the wait
   group of the step / signal goroutines is 0, the report channel is empty, the process has not crashed, and the pipe
   is empty.  With C05_refines_with_close: both sides have shut down, nothing is left blocked anywhere.
   (Proofs/C05Shutdown.v; extra invariant: once Close is in KWait / KDone CloseOk a client-done is in the client ->
   server stream or in the history of what the server's read loop consumed; a consumed client-done has closed stdin.)
   ========================================================================================== *)
Theorem C05_clean_shutdown :
  forall (g : Verif.ATP.System.scfg) (calls : list (Verif.ATP.Client.callspec Z)) (close : bool),
    (forall x, In x calls -> Verif.ATP.Client.cs_run x <> ""%string) ->
    Verif.Proofs.ATPClientInv.wf_session (Verif.ATP.System.sys_session calls close) ->
    close = true ->
    forall (sched : list Verif.ATP.System.slabel) (s : Verif.ATP.System.sstate),
      Verif.ATP.System.sys_run g (Verif.ATP.System.sys_init calls close) sched = Some s ->
      Verif.ATP.System.sys_final g s ->
      Verif.ATP.Server.hp (Verif.ATP.System.sv s) = Verif.ATP.Server.HReturned /\
      Verif.ATP.Server.rl (Verif.ATP.System.sv s) = Verif.ATP.Server.RGone /\
      Verif.ATP.Server.nworkers (Verif.ATP.System.sv s) = 0%nat /\
      Verif.ATP.Server.wd (Verif.ATP.System.sv s) = [] /\
      Verif.ATP.Server.crashed (Verif.ATP.System.sv s) = false /\
      Verif.ATP.Client.to_server (Verif.ATP.System.cl s) = [].
Proof. exact Verif.Proofs.C05Shutdown.sys_shutdown. Qed.
Print Assumptions C05_clean_shutdown.
(* non-vacuity: C05_refines_with_close_nonvacuous above ends in exactly such a state (HReturned, RGone). *)

(* ==========================================================================================
   (P11) WHY PAYLOADS ARE NAMES.  The client model is parametric in its payload type AS A THEOREM: for every function
   f : P -> Q, mapping f over every payload held anywhere in a client state (callers' inputs, stored and returned
   results, both streams, the read-ahead buffer, the message being handled, the scripted peer) commutes with every step of
   every label (Proofs/C05Param.v, by cases over the whole step function).  Consequently the executions of the client
   model at payload := gval, started on the session as the harness states it, are exactly the images - label for label,
   token t replaced by the value v_input t it names - of the executions at payload := Z that ATP/System.v composes with
   the server model.  (The server model consults a payload only through its behaviour oracle: ATP/Server.v.)
   ========================================================================================== *)
Theorem C05_client_payload_parametric :
  forall (P Q : Type) (f : P -> Q) (s : Verif.ATP.Client.state P) (l : Verif.ATP.Client.label),
    Verif.ATP.Client.step (Verif.Proofs.C05Param.map_state P Q f s) l
      = option_map (Verif.Proofs.C05Param.map_state P Q f) (Verif.ATP.Client.step s l).
Proof. exact Verif.Proofs.C05Param.step_map. Qed.
Print Assumptions C05_client_payload_parametric.

Theorem C05_client_over_values :
  forall (vcalls : list (Verif.ATP.Client.callspec gval)) (close : bool) (ls : list Verif.ATP.Client.label),
    Verif.ATP.Client.run (Verif.ATP.Client.init (Verif.ATP.Client.mkSession vcalls close [] None None)) ls
      = option_map (Verif.Proofs.C05Param.map_state Z gval (Verif.ATP.SystemV.v_input vcalls))
          (Verif.ATP.Client.run
             (Verif.ATP.Client.init (Verif.ATP.System.sys_session (Verif.ATP.SystemV.tok_calls vcalls) close)) ls).
Proof. exact Verif.Proofs.C05Transparent.client_over_values. Qed.
Print Assumptions C05_client_over_values.

(* ==========================================================================================
   (P12) THE VALUE-LEVEL SYSTEM (ATP/SystemVal.v): the composition as a transition system of its own in which the client
   component is the client model at payload := gval - the callers hold the real input values, the work-starts on the wire
   carry them, the results carry real output values -, the server component is the server model, and tokens are only the
   NAMES under which the server model is handed the messages (the call of the message's run id).  vsys_step mirrors
   sys_step label for label.
     C05_value_level_is_image   the executions of the value-level system from the session as the harness states it ARE
                                the images of the token-level executions (label for label, every payload t replaced by
                                the value v_den t it names, the server component identical) - no assumption that the
                                value crossing the pipe is "the right one": the client-side safety invariant and SigInv
                                (Proofs/C05Image.v) make the name the server receives equal to the token;
     C05_transparent_values     hence C05_transparent_end_to_end verbatim for the value-level system: every Execute
                                returns the real value v_spec of its own input value, Close returns nil;
     C05_value_wire             every work-start in the value-level pipe carries the input value of the call its run id
                                names.
   ========================================================================================== *)
Theorem C05_value_level_is_image :
  forall (D : Verif.ATP.SystemV.vcfg) (vcalls : list (Verif.ATP.Client.callspec gval)) (close : bool),
    (forall x, In x vcalls -> Verif.ATP.Client.cs_run x <> ""%string) ->
    Verif.Proofs.ATPClientInv.wf_session (Verif.ATP.Client.mkSession vcalls close [] None None) ->
    forall (sched : list Verif.ATP.System.slabel),
      Verif.ATP.SystemVal.vsys_run D vcalls (Verif.ATP.SystemVal.vsys_init vcalls close) sched
        = option_map (Verif.Proofs.C05Image.img D vcalls)
            (Verif.ATP.System.sys_run (Verif.ATP.SystemV.v_scfg D vcalls)
               (Verif.ATP.System.sys_init (Verif.ATP.SystemV.tok_calls vcalls) close) sched).
Proof. exact Verif.Proofs.C05Image.vsys_is_image. Qed.
Print Assumptions C05_value_level_is_image.

Theorem C05_transparent_values :
  forall (D : Verif.ATP.SystemV.vcfg) (vcalls : list (Verif.ATP.Client.callspec gval)) (close : bool),
    (forall x, In x vcalls -> Verif.ATP.Client.cs_run x <> ""%string) ->
    Verif.Proofs.ATPClientInv.wf_session (Verif.ATP.Client.mkSession vcalls close [] None None) ->
    (forall x, In x vcalls -> decodable (Verif.ATP.Client.cs_input x)) ->
    forall (sched : list Verif.ATP.System.slabel) (vs : Verif.ATP.SystemVal.vstate),
      Verif.ATP.SystemVal.vsys_run D vcalls (Verif.ATP.SystemVal.vsys_init vcalls close) sched = Some vs ->
      Verif.ATP.SystemVal.vsys_final D vcalls vs ->
      (forall i x, nth_error vcalls i = Some x ->
         Verif.ATP.SystemVal.vsys_res vs i = Some (Verif.ATP.SystemV.v_spec D (Verif.ATP.Client.cs_input x))) /\
      (close = true ->
         Verif.ATP.Client.closer (Verif.ATP.SystemVal.vcl vs) = Verif.ATP.Client.KDone Verif.ATP.Client.CloseOk).
Proof. exact Verif.Proofs.C05Image.transparent_values. Qed.
Print Assumptions C05_transparent_values.

Theorem C05_value_wire :
  forall (D : Verif.ATP.SystemV.vcfg) (vcalls : list (Verif.ATP.Client.callspec gval)) (close : bool),
    (forall x, In x vcalls -> Verif.ATP.Client.cs_run x <> ""%string) ->
    Verif.Proofs.ATPClientInv.wf_session (Verif.ATP.Client.mkSession vcalls close [] None None) ->
    forall (sched : list Verif.ATP.System.slabel) (vs : Verif.ATP.SystemVal.vstate),
      Verif.ATP.SystemVal.vsys_run D vcalls (Verif.ATP.SystemVal.vsys_init vcalls close) sched = Some vs ->
      Forall (Verif.Proofs.C05Image.ws_ok vcalls) (Verif.ATP.Client.to_server (Verif.ATP.SystemVal.vcl vs)).
Proof. exact Verif.Proofs.C05Image.image_wire. Qed.
Print Assumptions C05_value_wire.

(* non-vacuity: the session of C05_transparent_nonvacuous run by the value-level system, same schedule: a maximal
   execution; the three Executes hold real values *)
Example C05_transparent_values_nonvacuous :
  exists vs, Verif.Proofs.C05ImageEx.exv_vfinal = Some vs /\
             Verif.ATP.SystemVal.vsys_final Verif.Proofs.C05TransparentEx.exv_D Verif.Proofs.C05TransparentEx.exv_calls vs /\
             Verif.ATP.SystemVal.vsys_res vs 0%nat = Some Verif.Proofs.C05TransparentEx.exv_ra /\
             Verif.ATP.SystemVal.vsys_res vs 1%nat = Some Verif.Proofs.C05TransparentEx.exv_rb /\
             Verif.ATP.SystemVal.vsys_res vs 2%nat = Some (Verif.ATP.Client.RErr Verif.ATP.Client.ErrStep) /\
             Verif.ATP.Client.closer (Verif.ATP.SystemVal.vcl vs) = Verif.ATP.Client.KDone Verif.ATP.Client.CloseOk.
Proof. exact Verif.Proofs.C05ImageEx.exv_values. Qed.

(* ====================================================================================================
   "never ... corrupted by interleaved writes": the writers of the ONE encoder of a direction, over a transport
   whose Write is NOT atomic (ATP/Wire.v).  The protocol models above append a whole message per send; that
   rests on the lock discipline of the code - atp/client.go sendCBOR (c.mutex around every Encode: work starts,
   signals of every executeWriteLoop goroutine, client-done), atp/server.go sendRuntimeMessage (encoderMutex).
   Wire.v: any number of writer goroutines, each looping  Lock; Write = first piece, further pieces ..., return;
   Unlock  - any number of messages and of pieces per message, every schedule (= every label list).
   C05_wire_framed: if every writer takes the lock, the stream is FRAMED in every reachable state - its events are
   well bracketed: between the first and the last piece of a message there are only pieces of that message - i.e. the
   peer's decoder reads exactly the messages sent, one after the other (the atomic append of ATP/Client.v,
   ATP/Server.v, ATP/System.v).  C05_wire_one_writer: a writer is inside a message only while it holds the lock.
   C05_wire_unlocked_refuted: ONE writer that uses the encoder without the lock (a signal written with
   c.encoder.Encode instead of c.sendCBOR; an error report written with cborStdout.Encode) and a 9-step schedule:
   the stream is [begin 0; piece 0; begin 1; piece 1; piece 0; end 0; end 1].
   TIE (engine c05sched, harness/cmd/atpdrive): sessions with signal traffic to running steps while other calls
   start, over a transport that takes every Write in pieces with a scheduler gate between two pieces; the driver
   reports (a) two writers inside Write at once / a message the peer decodes that nobody sent / undecodable residue
   - a violation with the schedule as replay - and (b) every Encode or piece that a goroutine performs while its own
   gate trace says it does not hold c.mutex (the discipline this theorem assumes) - a broken correspondence. *)
From Verif Require ATP.Wire Proofs.C05Wire.

Theorem C05_wire_framed : forall (locked : nat -> bool), (forall w, locked w = true) ->
  forall (ls : list Verif.ATP.Wire.wlabel), Verif.ATP.Wire.framed (Verif.ATP.Wire.stream (Verif.ATP.Wire.wrun locked ls)).
Proof. exact Verif.Proofs.C05Wire.wire_framed. Qed.
Print Assumptions C05_wire_framed.

Theorem C05_wire_one_writer : forall (locked : nat -> bool), (forall w, locked w = true) ->
  forall (ls : list Verif.ATP.Wire.wlabel) (w : nat),
  Verif.ATP.Wire.wb None (Verif.ATP.Wire.stream (Verif.ATP.Wire.wrun locked ls)) = Some (Some w) ->
  Verif.ATP.Wire.mutex (Verif.ATP.Wire.wrun locked ls) = Some w /\
  Verif.ATP.Wire.pcs (Verif.ATP.Wire.wrun locked ls) w = Verif.ATP.Wire.PWriting.
Proof. exact Verif.Proofs.C05Wire.wire_one_writer. Qed.
Print Assumptions C05_wire_one_writer.

Theorem C05_wire_unlocked_refuted :
  Verif.ATP.Wire.framedb (Verif.ATP.Wire.stream (Verif.ATP.Wire.wrun Verif.Proofs.C05Wire.unlocked1 Verif.Proofs.C05Wire.interleaving_schedule)) = false /\
  Verif.ATP.Wire.stream (Verif.ATP.Wire.wrun Verif.Proofs.C05Wire.unlocked1 Verif.Proofs.C05Wire.interleaving_schedule)
  = [Verif.ATP.Wire.WBegin 0; Verif.ATP.Wire.WPiece 0; Verif.ATP.Wire.WBegin 1; Verif.ATP.Wire.WPiece 1;
     Verif.ATP.Wire.WPiece 0; Verif.ATP.Wire.WEnd 0; Verif.ATP.Wire.WEnd 1].
Proof. exact Verif.Proofs.C05Wire.wire_unlocked_refuted. Qed.
Print Assumptions C05_wire_unlocked_refuted.

(* non-vacuity: three writers, two messages of writer 0, messages of 0, 1 and 2 further pieces, writers that find the
   lock taken (their LLock / LBegin labels are skipped): the stream is the five whole messages *)
Example C05_wire_nonvacuous :
  Verif.ATP.Wire.stream (Verif.ATP.Wire.wrun Verif.Proofs.C05Wire.all_locked_cfg Verif.Proofs.C05Wire.example_schedule)
  = [Verif.ATP.Wire.WBegin 0; Verif.ATP.Wire.WPiece 0; Verif.ATP.Wire.WPiece 0; Verif.ATP.Wire.WEnd 0;
     Verif.ATP.Wire.WBegin 2; Verif.ATP.Wire.WEnd 2; Verif.ATP.Wire.WBegin 1; Verif.ATP.Wire.WPiece 1; Verif.ATP.Wire.WEnd 1;
     Verif.ATP.Wire.WBegin 0; Verif.ATP.Wire.WEnd 0]
  /\ Verif.ATP.Wire.framedb (Verif.ATP.Wire.stream (Verif.ATP.Wire.wrun Verif.Proofs.C05Wire.all_locked_cfg Verif.Proofs.C05Wire.example_schedule)) = true.
Proof. exact Verif.Proofs.C05Wire.wire_example. Qed.
