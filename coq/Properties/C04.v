(* Properties/C04.v — C04: schema operations are total (a result or an error; never a panic, never
   non-termination).  ONLY statements; the proofs are in Proofs/C04*.v.

   Model: Schema/Ops.v (map-based objects; struct-mapped objects are covered by the direct check of
   the c04struct family only).  `v` ranges over the WHOLE universe of Go values (GoVal.gval), not just
   the decoder-producible ones.  `wf_schema` = the constructors' documented panicking contracts
   (Schema/Wf.v).  Two further boolean hypotheses, both refuted below where they fail:
     no_inline_cycle e s        no circle of single-property objects (known finding D11)
     defaults_total w pu K e s  every declared default is processed by its own property type within
                                K steps (known finding D50: a default that leads back to itself)
   The fuel bound is explicit:  fuel_bound K e s v = K + 3 + (4 * nic_fuel e s + 8) * (1 + vdepth v),
   nic_fuel e s = 2 + number of schema nodes in s and in the tables of e. *)
From Coq Require Import Lia.
From Verif Require Import Base.Prelude Base.Str Base.Float Base.GoVal
  Schema.Regex Schema.Units Schema.Syntax Schema.Ops Schema.Wf Schema.Total
  Proofs.C04Refuted Proofs.C04Main.
Open Scope string_scope.

Section C04.
Variable words : list (string * bool).              (* the boolean words (Generated/Tables.v in the runs) *)
Variable pu : units -> string -> option fl.         (* UnitsDefinition.ParseFloat *)

Theorem C04_unserialize_total : forall (K : nat) (e : env) (s : schema) (v : gval),
  wf_schema e s = true -> no_inline_cycle e s = true -> defaults_total words pu K e s = true ->
  forall f, (fuel_bound K e s v <= f)%nat ->
    (forall w, unser words pu f e s v <> Panic w) /\ unser words pu f e s v <> OutOfFuel.
Proof. exact (c04_unser words pu). Qed.

Theorem C04_validate_total : forall (K : nat) (e : env) (s : schema) (v : gval),
  wf_schema e s = true -> no_inline_cycle e s = true -> defaults_total words pu K e s = true ->
  forall f, (fuel_bound K e s v <= f)%nat ->
    (forall w, validate words pu f e s v <> Panic w) /\ validate words pu f e s v <> OutOfFuel.
Proof. exact (c04_validate words pu). Qed.

Theorem C04_serialize_total : forall (K : nat) (e : env) (s : schema) (v : gval),
  wf_schema e s = true -> no_inline_cycle e s = true -> defaults_total words pu K e s = true ->
  forall f, (fuel_bound K e s v <= f)%nat ->
    (forall w, serialize words pu f e s v <> Panic w) /\ serialize words pu f e s v <> OutOfFuel.
Proof. exact (c04_serialize words pu). Qed.

(* data-mode ValidateCompatibility *)
Theorem C04_compat_total : forall (K : nat) (e : env) (s : schema) (v : gval),
  wf_schema e s = true -> no_inline_cycle e s = true -> defaults_total words pu K e s = true ->
  forall f, (fuel_bound K e s v <= f)%nat ->
    (forall w, compat words pu f e s v <> Panic w) /\ compat words pu f e s v <> OutOfFuel.
Proof. exact (c04_compat words pu). Qed.

(* the panic half needs neither cycle hypothesis and holds for every fuel *)
Theorem C04_never_panics : forall (e : env) (s : schema), wf_schema e s = true -> forall f v w,
  unser words pu f e s v <> Panic w /\ validate words pu f e s v <> Panic w /\
  serialize words pu f e s v <> Panic w /\ compat words pu f e s v <> Panic w.
Proof. exact (c04_never_panics words pu). Qed.

(* D11 (known finding): scope(A{x: ref A}).Unserialize("foo") — a well-formed schema on which no
   amount of fuel suffices; the class predicate no_inline_cycle_n is false for every bound. *)
Theorem C04_inline_cycle_refuted :
  exists e s v, wf_schema e s = true /\ (forall n, no_inline_cycle_n n e s = false) /\
                forall f, unser words pu f e s v = OutOfFuel.
Proof. exact (c04_inline_cycle_refuted words pu). Qed.

(* D50 (known finding, found by the c04total family): scope(A{x: ref A = "{}"; n}).Unserialize({}) —
   well-formed, no inline cycle, yet no fuel suffices; defaults_total is false for every K. *)
Theorem C04_default_cycle_refuted :
  exists e s v, wf_schema e s = true /\ no_inline_cycle e s = true /\
                (forall K, defaults_total words pu K e s = false) /\
                forall f, unser words pu f e s v = OutOfFuel.
Proof. exact (c04_default_cycle_refuted words pu). Qed.

End C04.

Print Assumptions C04_unserialize_total.
Print Assumptions C04_validate_total.
Print Assumptions C04_serialize_total.
Print Assumptions C04_compat_total.
Print Assumptions C04_never_panics.
Print Assumptions C04_inline_cycle_refuted.
Print Assumptions C04_default_cycle_refuted.

(* ---------- the hypotheses are satisfiable by non-trivial instances ---------- *)
Definition ex_prop (t : schema) (dflt : option string) (req : bool) : property :=
  mkProp t None req [] [] [] dflt [] false false None.

(* a recursive scope with a one-of over references, a list of references and a default *)
Definition ex_R : schema :=
  SObject "R" false
    [("next", ex_prop (SRef "R" "" None) None false);
     ("kids", ex_prop (SList (SRef "R" "" None) None None) None false);
     ("o", ex_prop (SOneOf [(KS "A", SRef "M" "" None); (KS "R", SRef "R" "" None)] false "kind" false) None false);
     ("n", ex_prop (SInt (Some 0%Z) None None) (Some "5") false)].
Definition ex_M : schema := SObject "M" false [("p", ex_prop SAny None true)].
Definition ex_scope : schema := SScope [("R", ex_R); ("M", ex_M)] "R".
Definition ex_oracles : oracles :=
  mkOracles (fun txt => if String.eqb txt "5" then Some (VFloat TF64 (fl_of_Z b64 5)) else None) (fun _ => true).
Definition ex_env : env := mkEnv [] [] ex_oracles.
Definition ex_pu : units -> string -> option fl := fun _ _ => None.
Definition ex_value : gval :=
  VMap t_any_map false
    [(vstr "next", VMap t_str_map false [(vstr "kids", VSlice t_any_slice false [VMap t_any_map false []])]);
     (vstr "o", VMap t_any_map false [(vstr "kind", vstr "A"); (vstr "p", VSlice t_any_slice false [vi64 1; VNil])])].

Example C04_hypotheses_satisfiable :
  wf_schema ex_env ex_scope = true /\ no_inline_cycle ex_env ex_scope = true /\
  defaults_total [] ex_pu 20 ex_env ex_scope = true /\
  is_ok (unser [] ex_pu (fuel_bound 20 ex_env ex_scope ex_value) ex_env ex_scope ex_value) = false /\
  is_err (unser [] ex_pu (fuel_bound 20 ex_env ex_scope ex_value) ex_env ex_scope ex_value) = true /\
  is_ok (unser [] ex_pu (fuel_bound 20 ex_env ex_scope (VMap t_any_map false [])) ex_env ex_scope (VMap t_any_map false [])) = true.
Proof. vm_compute. repeat split; reflexivity. Qed.

(* the constructors' contracts do reject something: a dangling reference, a bool-keyed map *)
Example C04_wf_rejects :
  wf_schema ex_env (SScope [("R", SObject "R" false [("x", ex_prop (SRef "Missing" "" None) None false)])] "R") = false /\
  wf_schema ex_env (SMap SBool SAny None None) = false.
Proof. vm_compute. split; reflexivity. Qed.

(* ---------- appended by the C10 work package (Proofs/C10UseNoPanic.v, C10UseTerm.v, C10UseMain.v) ----------
   The theorems above hold under a weaker hypothesis than wf_schema.  wf_schema asks that every object of a
   scope is stored under its own id; no operation reads an object's id, and a scope received as a description
   (C10) guarantees this for its root only.  wf_use = wf_schema with "id = key" replaced by "is an object". *)
From Verif Require Import Proofs.C10UseNoPanic Proofs.C10UseMain.

Theorem C04_wf_schema_iff_use : forall (e : env) (s : schema),
  wf_schema e s = true <-> wf_use e s = true /\ ids_ok e s = true.
Proof. exact wf_schema_iff_use. Qed.
Print Assumptions C04_wf_schema_iff_use.

Theorem C04_total_use :
  forall (words : list (string * bool)) (pu : units -> string -> option fl)
         (K : nat) (e : env) (s : schema) (v : gval),
  wf_use e s = true -> no_inline_cycle e s = true -> defaults_total words pu K e s = true ->
  forall f, (fuel_bound K e s v <= f)%nat ->
    ((forall w, unser words pu f e s v <> Panic w) /\ unser words pu f e s v <> OutOfFuel) /\
    ((forall w, validate words pu f e s v <> Panic w) /\ validate words pu f e s v <> OutOfFuel) /\
    ((forall w, serialize words pu f e s v <> Panic w) /\ serialize words pu f e s v <> OutOfFuel) /\
    ((forall w, compat words pu f e s v <> Panic w) /\ compat words pu f e s v <> OutOfFuel).
Proof. exact c04_total_use. Qed.
Print Assumptions C04_total_use.

Theorem C04_never_panics_use :
  forall (words : list (string * bool)) (pu : units -> string -> option fl) (e : env) (s : schema),
  wf_use e s = true -> forall f v w,
  unser words pu f e s v <> Panic w /\ validate words pu f e s v <> Panic w /\
  serialize words pu f e s v <> Panic w /\ compat words pu f e s v <> Panic w.
Proof. exact use_never_panics. Qed.
Print Assumptions C04_never_panics_use.

(* wf_use is strictly weaker: an object under a foreign key *)
Example C04_wf_use_weaker :
  let s := SScope [("R", ex_R); ("M", ex_M); ("K", SObject "Other" false [])] "R" in
  wf_schema ex_env s = false /\ wf_use ex_env s = true /\ no_inline_cycle ex_env s = true /\
  defaults_total [] ex_pu 20 ex_env s = true.
Proof. vm_compute. repeat split; reflexivity. Qed.

(* ====================================================================================================
   Struct-mapped objects (NewStructMappedObjectSchema; model Schema/XOps.v over XSyntax.xschema,
   conservative over Ops.v: Proofs/XEmbed.v).  `xwf` (Schema/XWf.v) = the contracts of wf_schema at
   every node, in the environment the node is evaluated in, + every property of a struct-mapped object
   has a struct field (what buildObjectFieldCache guarantees when the constructor returns; it guarantees
   nothing about field TYPES: an unconvertible value is the constraint error "Field cannot be set").

   FULL STATEMENT of C04 for struct-mapped objects (NOT proved: the termination half needs the analogue
   of Proofs/C04Term.v over xschema and a third boolean class for D52):
     x_struct_total : xwf e s = true -> xno_inline_cycle e s = true -> xdefaults_total K e s = true ->
       xsubdefaults_total K e s = true -> forall f >= fuel_bound K e s v,
       xunser/xvalidate/xserialize/xcompat f e s v is neither Panic nor OutOfFuel.
   PROVED: the panic half, for every fuel and EVERY Go value (C04_struct_never_panics), and that the
   termination half is false without the D52 hypothesis even for a well-formed schema
   (C04_struct_subdefault_cycle_refuted).  Termination on struct-mapped schemas is covered by the
   supervised direct check of the families c04struct / structobj (hang = VIOLATION). *)
From Verif Require Import Base.XReflect Schema.XSyntax Schema.XOps Schema.XWf Proofs.XStruct Proofs.XTotal Proofs.XExamples.

Theorem C04_struct_never_panics : forall words pu (e : xenv) (s : xschema), xwf e s = true -> forall f v w,
  xunser words pu f e s v <> Panic w /\ xvalidate words pu f e s v <> Panic w /\
  xserialize words pu f e s v <> Panic w /\ xcompat words pu f e s v <> Panic w.
Proof. exact x_struct_never_panics. Qed.
Print Assumptions C04_struct_never_panics.

(* D52 (known finding): a WELL-FORMED struct-mapped parent whose member refers to itself — sub-object default
   propagation never finishes, no fuel suffices *)
Theorem C04_struct_subdefault_cycle_refuted :
  exists (e : xenv) (s : xschema) (v : gval),
    xwf e s = true /\ forall fuel, xunser w_words w_pu fuel e s v = OutOfFuel.
Proof. exact x_struct_subdefault_cycle_refuted_wf. Qed.
Print Assumptions C04_struct_subdefault_cycle_refuted.

(* the hypothesis is satisfiable by the struct descriptors the harness uses (xstruct_types.go: XNested with a
   struct member and a pointer member by reference, *XPtrs, a one-of over struct-mapped members, a promoted
   field behind an embedded pointer) and rejects a property without a field *)
Example C04_struct_wf_example :
  xwf (xs_env []) (xs_scope "XNested") = true /\ xwf (xs_env []) (xs_scope "Choice") = true /\
  xwf (xs_env []) (xs_scope "XPtrs") = true /\ xwf (xs_env []) xs_nofield = false.
Proof. exact xs_wf. Qed.

Example C04_struct_runs_example :
  is_ok (xunser w_words w_pu 30 (xs_env []) (xs_scope "XNested") (xs_m [("in", xs_m [("b", vstr "q")]); ("x", vi64 3)])) = true
  /\ is_err (xvalidate w_words w_pu 30 (xs_env []) (xs_scope "XNested") (xs_inner_v 1 "q")) = true
  /\ is_err (xserialize w_words w_pu 30 (xs_env []) (xs_scope "XPtrs") (VPtr (TPtr (TStruct "XPtrs")) None)) = true
  /\ is_ok (xserialize w_words w_pu 30 (xs_env []) (xs_scope "Choice") (VMap t_str_map false [(vstr "o", xs_inner_v 5 "z")])) = true.
Proof. vm_compute. repeat split; reflexivity. Qed.

(* xwf is conservative over wf_schema: on a schema without struct information it IS Wf.wf_schema (and the
   operations are those of Ops.v: Proofs/XEmbed.v), so C04_struct_never_panics generalises C04_never_panics *)
From Verif Require Import Proofs.XWfEmbed.
Theorem C04_struct_wf_conservative : forall st e s, xwf (embed_env st e) (embed s) = wf_schema e s.
Proof. exact xwf_embed. Qed.
Print Assumptions C04_struct_wf_conservative.

(* D81 (fixed): a map whose KEY is a float NaN - a key that is not equal to itself.  The theorems above range over every
   gval, such maps included; the model walks the ENTRIES of a map (the value is at hand with its key), which is what the
   repaired code does with MapRange(); the code before the fix looked the value up again with MapIndex(k), found nothing
   under a NaN key and panicked in Interface().  What the operations answer on map[any]any{NaN: 1}: *)
Definition ex_nan_map : gval := VMap t_any_map false [(VFloat TF64 FNaN, vi64 1)].
Definition ex_str_any_map : schema := SMap (SString None None None) SAny None None.
Definition ex_int_any_map : schema := SMap (SInt None None None) SAny None None.
Example C04_nan_key_instances :
  is_ok (unser [] ex_pu 5 ex_env SAny ex_nan_map) = true /\
  is_ok (validate [] ex_pu 5 ex_env SAny ex_nan_map) = true /\
  is_ok (serialize [] ex_pu 5 ex_env SAny ex_nan_map) = true /\
  is_err (compat [] ex_pu 5 ex_env SAny ex_nan_map) = true /\
  is_ok (unser [] ex_pu 5 ex_env ex_str_any_map ex_nan_map) = true /\
  is_err (validate [] ex_pu 5 ex_env ex_str_any_map ex_nan_map) = true /\
  is_err (unser [] ex_pu 5 ex_env ex_int_any_map ex_nan_map) = true /\
  is_err (unser [] ex_pu 5 ex_env (SObject "o" false [("a", ex_prop SAny None false)]) ex_nan_map) = true /\
  is_ok (unser [] ex_pu 5 ex_env (SObject "o" false [("a", ex_prop SAny None false)])
           (VMap t_any_map false [(vstr "a", ex_nan_map)])) = true.
Proof. vm_compute. repeat split; reflexivity. Qed.

(* ====================================================================================================
   Appended by work package pb1: the termination half for struct-mapped objects
   (Proofs/XMonoT.v, Proofs/XTerm.v, Proofs/XTermRec.v).  This supersedes the remark above that the full
   statement `x_struct_total` is not proved.

   C04_struct_terminates / C04_struct_total   THE FULL STATEMENT, recursive schemas included:
       xterminating words pu K e s = true -> forall f >= xfuel_bound K e s v,
       xunser / xvalidate / xserialize / xcompat f e s v is neither Panic nor OutOfFuel,
     xfuel_bound K e s v = K + 3 + (4 * N + 8) * (1 + vdepth v),  N = xnr_fuel e s = 2 + number of schema nodes.
     xterminating = xwf e s  &&  at every node of s and of the tables of e (xall_env / xall_nodes, as xwf):
       xnic N false && xnic N true   the non-consuming walk (reference -> target, scope -> root, single-property
                                     object on a non-map input -> its property, one-of -> member) ends within N
                                     steps: the analogue of no_inline_cycle, absence of D11;
       at an object: distinct property names; every mapped field has a non-empty FieldByName index path (a field
                                     is a proper part of the struct: always so for reflect.StructField.Index);
                     xdflt_ok K      the values the ABSENT properties receive, built exactly as Unserialize builds
                                     them on the empty input (property defaults, then for a struct-mapped object
                                     sub-object default propagation run with fuel K), ARE built (not OutOfFuel:
                                     absence of D52) and each is processed by its own property type within K
                                     steps (the analogue of defaults_total, absence of D50).
     The class is boolean; it excludes, for EVERY K, every schema that has an input on which Unserialize has no
     sufficient fuel (C04_struct_terminating_excludes_divergent, by the theorem itself): the D52 witness
     (C04_struct_terminating_excludes_d52) and the well-formed D11 / D50 witnesses of Proofs/C04Refuted.v, embedded
     (C04_struct_terminating_excludes_d11_d50_embedded); it contains the harness descriptors and recursive
     struct-mapped / map-based schemas (C04_struct_terminates_example).  It is slightly smaller than "no D11 /
     D50 / D52": the walk counts one-of members for non-map inputs too (the member of a struct VALUE is reached
     without consuming input in Validate / Serialize).
   C04_struct_fuel_monotone       more fuel never changes a finished result: every fuel-indexed statement about
                                  the x-model is fuel-independent (all schemas, all values).
   C04_struct_terminates_partial / C04_struct_total_partial   the same on the purely syntactic class of
                                  NON-RECURSIVE schemas (xterminating_nr K e s = xwf e s && xnonrec K e s: the
                                  unfolding along references closes within the node count, distinct property
                                  names, every declared default decodes to a value of depth <= K), where no run of
                                  the model is part of the hypothesis; fuel bound
                                    xfuel_bound_nr K e s v = 4 * N + max (vdepth v) (K + N) + 3. *)
From Verif Require Import Schema.Total Proofs.XMonoT Proofs.XTerm.

Theorem C04_struct_fuel_monotone :
  forall (words : list (string * bool)) (pu : units -> string -> option fl)
         (f f' : nat) (e : xenv) (s : xschema) (v : gval), (f <= f')%nat ->
  (forall r, xunser words pu f e s v = r -> r <> OutOfFuel -> xunser words pu f' e s v = r) /\
  (forall r, xvalidate words pu f e s v = r -> r <> OutOfFuel -> xvalidate words pu f' e s v = r) /\
  (forall r, xserialize words pu f e s v = r -> r <> OutOfFuel -> xserialize words pu f' e s v = r) /\
  (forall r, xcompat words pu f e s v = r -> r <> OutOfFuel -> xcompat words pu f' e s v = r).
Proof. exact x_fuel_monotone. Qed.
Print Assumptions C04_struct_fuel_monotone.

Theorem C04_struct_terminates_partial :
  forall (words : list (string * bool)) (pu : units -> string -> option fl)
         (K : nat) (e : xenv) (s : xschema) (v : gval),
  xterminating_nr K e s = true ->
  forall f, (xfuel_bound_nr K e s v <= f)%nat ->
    xunser words pu f e s v <> OutOfFuel /\ xvalidate words pu f e s v <> OutOfFuel /\
    xserialize words pu f e s v <> OutOfFuel /\ xcompat words pu f e s v <> OutOfFuel.
Proof. exact x_struct_terminates_nr. Qed.
Print Assumptions C04_struct_terminates_partial.

Theorem C04_struct_total_partial :
  forall (words : list (string * bool)) (pu : units -> string -> option fl)
         (K : nat) (e : xenv) (s : xschema) (v : gval),
  xterminating_nr K e s = true ->
  forall f, (xfuel_bound_nr K e s v <= f)%nat ->
    ((forall w, xunser words pu f e s v <> Panic w) /\ xunser words pu f e s v <> OutOfFuel) /\
    ((forall w, xvalidate words pu f e s v <> Panic w) /\ xvalidate words pu f e s v <> OutOfFuel) /\
    ((forall w, xserialize words pu f e s v <> Panic w) /\ xserialize words pu f e s v <> OutOfFuel) /\
    ((forall w, xcompat words pu f e s v <> Panic w) /\ xcompat words pu f e s v <> OutOfFuel).
Proof. exact x_struct_total_nr. Qed.
Print Assumptions C04_struct_total_partial.

(* the hypotheses are met by the harness descriptors (with the explicit fuel bound the operations finish),
   K = 0 rejects XNested (XInner.a has the default "1", a value of depth 1) *)
Example C04_struct_terminates_partial_example :
  xterminating_nr 1 (xs_env []) (xs_scope "XNested") = true /\
  xterminating_nr 1 (xs_env []) (xs_scope "Choice") = true /\
  xterminating_nr 1 (xs_env []) (xs_scope "XPtrs") = true /\
  xterminating_nr 1 (xs_env []) (xs_scope "XEmbPtr") = true /\
  xterminating_nr 0 (xs_env []) (xs_scope "XNested") = false /\
  is_ok (xunser w_words w_pu (xfuel_bound_nr 1 (xs_env []) (xs_scope "XNested") xt_v_nested)
           (xs_env []) (xs_scope "XNested") xt_v_nested) = true /\
  is_err (xvalidate w_words w_pu (xfuel_bound_nr 1 (xs_env []) (xs_scope "XNested") (xs_inner_v 1 "q"))
           (xs_env []) (xs_scope "XNested") (xs_inner_v 1 "q")) = true /\
  is_ok (xserialize w_words w_pu
           (xfuel_bound_nr 1 (xs_env []) (xs_scope "Choice") (VMap t_str_map false [(vstr "o", xs_inner_v 5 "z")]))
           (xs_env []) (xs_scope "Choice") (VMap t_str_map false [(vstr "o", xs_inner_v 5 "z")])) = true.
Proof. exact xt_descriptors_terminating. Qed.

(* the class excludes the D52 witness of C04_struct_subdefault_cycle_refuted, and D11 / D50 over xschema *)
Theorem C04_struct_nonrec_excludes_cycles : forall K,
  xnonrec K (w_env []) w_rec = false /\ xterminating_nr K (w_env []) w_rec = false /\
  xnonrec K (xs_env []) xt_d11 = false /\ xnonrec K (xs_env []) xt_d50 = false.
Proof. exact xt_excludes_cycles. Qed.
Print Assumptions C04_struct_nonrec_excludes_cycles.

(* ---------- the full statement (recursive schemas included) ---------- *)
From Verif Require Import Proofs.XTermRec.

Theorem C04_struct_terminates :
  forall (words : list (string * bool)) (pu : units -> string -> option fl)
         (K : nat) (e : xenv) (s : xschema) (v : gval),
  xterminating words pu K e s = true ->
  forall f, (xfuel_bound K e s v <= f)%nat ->
    xunser words pu f e s v <> OutOfFuel /\ xvalidate words pu f e s v <> OutOfFuel /\
    xserialize words pu f e s v <> OutOfFuel /\ xcompat words pu f e s v <> OutOfFuel.
Proof. exact x_struct_terminates. Qed.
Print Assumptions C04_struct_terminates.

Theorem C04_struct_total :
  forall (words : list (string * bool)) (pu : units -> string -> option fl)
         (K : nat) (e : xenv) (s : xschema) (v : gval),
  xterminating words pu K e s = true ->
  forall f, (xfuel_bound K e s v <= f)%nat ->
    ((forall w, xunser words pu f e s v <> Panic w) /\ xunser words pu f e s v <> OutOfFuel) /\
    ((forall w, xvalidate words pu f e s v <> Panic w) /\ xvalidate words pu f e s v <> OutOfFuel) /\
    ((forall w, xserialize words pu f e s v <> Panic w) /\ xserialize words pu f e s v <> OutOfFuel) /\
    ((forall w, xcompat words pu f e s v <> Panic w) /\ xcompat words pu f e s v <> OutOfFuel).
Proof. exact x_struct_total. Qed.
Print Assumptions C04_struct_total.

(* in the class: a recursive struct-mapped list (type XNode struct { Next *XNode; V int64 }, T = *XNode), a
   recursive map-based tree (neither is in the non-recursive class), the harness descriptors; K = 1 is too little
   fuel for the defaults of XNested; with the explicit bound the operations finish *)
Example C04_struct_terminates_example :
  xterminating w_words w_pu 10 xt_env xt_list = true /\
  xterminating w_words w_pu 10 (xs_env []) xt_tree = true /\
  xnonrec 10 xt_env xt_list = false /\ xnonrec 10 (xs_env []) xt_tree = false /\
  xterminating w_words w_pu 10 (xs_env []) (xs_scope "XNested") = true /\
  xterminating w_words w_pu 10 (xs_env []) (xs_scope "Choice") = true /\
  xterminating w_words w_pu 10 (xs_env []) (xs_scope "XPtrs") = true /\
  xterminating w_words w_pu 10 (xs_env []) (xs_scope "XEmbPtr") = true /\
  xterminating w_words w_pu 1 (xs_env []) (xs_scope "XNested") = false /\
  is_ok (xunser w_words w_pu (xfuel_bound 10 xt_env xt_list xt_v_list) xt_env xt_list xt_v_list) = true /\
  is_ok (xunser w_words w_pu (xfuel_bound 10 (xs_env []) xt_tree xt_v_tree) (xs_env []) xt_tree xt_v_tree) = true /\
  is_ok (xunser w_words w_pu (xfuel_bound 10 (xs_env []) (xs_scope "XNested") xt_v_nested)
           (xs_env []) (xs_scope "XNested") xt_v_nested) = true.
Proof. exact xt_rec_terminating. Qed.

(* the class excludes the D52 witness of C04_struct_subdefault_cycle_refuted for every K; the D11 shape over xschema for
   every K (the walk part of the class does not look at K) and the D50 shape at K = 50 under the oracle of xs_env, which
   does not decode "{}" - the genuine D50 witness (an oracle that decodes "{}") is excluded for every K below *)
Theorem C04_struct_terminating_excludes_d52 : forall K, xterminating w_words w_pu K (w_env []) w_rec = false.
Proof. exact xt_excludes_d52. Qed.
Print Assumptions C04_struct_terminating_excludes_d52.

Theorem C04_struct_terminating_excludes_d11_d50 :
  (forall K, xterminating w_words w_pu K (xs_env []) xt_d11 = false) /\
  xterminating w_words w_pu 50 (xs_env []) xt_d50 = false.
Proof. exact xt_excludes_d11_d50. Qed.
Print Assumptions C04_struct_terminating_excludes_d11_d50.

(* every schema with an input on which Unserialize has no sufficient fuel is outside the class, for every K; in
   particular the D11 and D50 witnesses of C04_inline_cycle_refuted / C04_default_cycle_refuted, embedded (both xwf) *)
Theorem C04_struct_terminating_excludes_divergent : forall words pu (e : xenv) (s : xschema) (v : gval),
  (forall fuel, xunser words pu fuel e s v = OutOfFuel) -> forall K, xterminating words pu K e s = false.
Proof. exact xt_divergent_excluded. Qed.
Print Assumptions C04_struct_terminating_excludes_divergent.

Theorem C04_struct_terminating_excludes_d11_d50_embedded : forall words pu st K,
  xterminating words pu K (embed_env st Proofs.C04Refuted.d11_env) (embed Proofs.C04Refuted.d11_scope) = false /\
  xterminating words pu K (embed_env st Proofs.C04Refuted.d50_env) (embed Proofs.C04Refuted.d50_scope) = false /\
  xwf (embed_env st Proofs.C04Refuted.d11_env) (embed Proofs.C04Refuted.d11_scope) = true /\
  xwf (embed_env st Proofs.C04Refuted.d50_env) (embed Proofs.C04Refuted.d50_scope) = true.
Proof. exact xt_excludes_embedded_d11_d50. Qed.
Print Assumptions C04_struct_terminating_excludes_d11_d50_embedded.
