(* Properties/C14.v — references resolve lexically; inlining a reference never changes behaviour;
   ValidateReferences iff linked; recursive graphs.  Statements only; every proof is `exact <lemma>`.

   The linking model is Schema/Link.v (a link table keyed by the path of every reference occurrence;
   `link_ns` = ApplyNamespace, `link_build` = construction through NewScopeSchema, `validate_refs` =
   ValidateReferences), after the fix for D61.  The data operations are Schema/Ops.v, which look a
   reference up in the environment (`resolve`); scopes enter their own table with `env_enter`.

   PROVED here, for every schema, table and fuel: C14_other_ns_untouched, C14_validate_refs_iff,
   C14_inline_step_{unser,validate,serialize} with C14_self_reference_keeps_environment, and the
   refutation C14_recursive_refuted (D11).
   NOT PROVED in general (checked on every generated case by the harness — direct checks on the SDK and
   the correspondence with this model — and on the examples below); full statements:

     C14_lexical / C14_link_agrees:
       forall fuel e s lt, link_build fuel "" s [] = Ok lt0 -> (all namespaces of e applied giving lt) ->
         forall p e' id ns, In (p, (e', (id, ns))) (refs_env fuel e "" s) ->
           option_map (fun x => (le_obj x, le_tab x)) (lt_get p lt)
             = option_map (fun r => (fst r, e_self (snd r))) (resolve e' id ns)
       (for ns = "" the right-hand side is the object of that id in the NEAREST enclosing scope, because
        `refs_env` enters every scope it passes: inner scopes shadow outer ones).
     C14_order_irrelevant:
       ns1 <> ns2 -> link_ext f ns1 t1 s lt = Ok a -> link_ext f ns2 t2 s a = Ok b ->
       link_ext f ns2 t2 s lt = Ok a' -> link_ext f ns1 t1 s a' = Ok b' -> forall p, lt_get p b = lt_get p b'
     C14_inline_equiv (in an arbitrary context, any number of inlinings):
       forall fuel e s v r, unser fuel e s v = r -> r <> OutOfFuel ->
         unser fuel e (inline_refs n (e_self e) stop s) v = r            (likewise validate, serialize)
     C14_recursive_terminates:
       no_inline_cycle e s -> forall v, exists fuel, unser fuel e s v <> OutOfFuel
       (with fuel linear in the nesting depth of v). *)
From Coq Require Import List ZArith Bool String.
From Verif Require Import Base.Prelude Base.Str Base.Float Base.GoVal Schema.Regex Schema.Units
  Schema.Syntax Schema.Ops Schema.Link Schema.Compat Proofs.Compat Proofs.Link.
Import ListNotations.
Open Scope string_scope.

(* (1) Applying one namespace leaves references to other namespaces untouched: the link of an
   occurrence changes only if a reference WITH THE APPLIED NAMESPACE sits at that occurrence. *)
Theorem C14_other_ns_untouched : forall fuel src ns here s lt lt' p,
  link_ns fuel src ns here s lt = Ok lt' ->
  (forall id, ~ In (p, (id, ns)) (refs_of fuel here s)) ->
  lt_get p lt' = lt_get p lt.
Proof. exact link_ns_untouched. Qed.
Print Assumptions C14_other_ns_untouched.

(* (2) ValidateReferences succeeds exactly when every reference is linked. *)
Theorem C14_validate_refs_iff : forall fuel lt here s,
  validate_refs fuel lt here s = true <->
  (forall p id ns, In (p, (id, ns)) (refs_of fuel here s) -> lt_get p lt <> None).
Proof. exact validate_refs_iff. Qed.
Print Assumptions C14_validate_refs_iff.

(* (3) A reference behaves exactly as the object it denotes, with one unit of fuel less, on every
   input; and a self-namespace reference denotes an object of the environment it occurs in, so the
   object's own references keep their meaning when it is put in the reference's place. *)
Theorem C14_inline_step_unser : forall words pu f e id ns d o e' v,
  resolve e id ns = Some (o, e') ->
  unser words pu (S f) e (SRef id ns d) v = unser words pu f e' o v.
Proof. exact inline_step_unser. Qed.
Print Assumptions C14_inline_step_unser.

Theorem C14_inline_step_validate : forall words pu f e id ns d o e' v,
  resolve e id ns = Some (o, e') ->
  validate words pu (S f) e (SRef id ns d) v = validate words pu f e' o v.
Proof. exact inline_step_validate. Qed.
Print Assumptions C14_inline_step_validate.

Theorem C14_inline_step_serialize : forall words pu f e id ns d o e' v,
  resolve e id ns = Some (o, e') ->
  serialize words pu (S f) e (SRef id ns d) v = serialize words pu f e' o v.
Proof. exact inline_step_serialize. Qed.
Print Assumptions C14_inline_step_serialize.

Theorem C14_self_reference_keeps_environment : forall e id o e',
  resolve e id "" = Some (o, e') -> e' = e /\ alookup id (e_self e) = Some o.
Proof. exact resolve_self_env. Qed.
Print Assumptions C14_self_reference_keeps_environment.

(* (4) "self-referential object graphs work on all finite inputs" is refuted (known finding D11): the
   one-property object A{x: ref A} given a non-map input follows its own reference for ever. *)
Theorem C14_recursive_refuted : forall words pu o fuel,
  unser words pu fuel (c15_env0 o) c15_rec_scope (VStr TStr "foo") = OutOfFuel.
Proof. exact recursive_shorthand_diverges. Qed.
Print Assumptions C14_recursive_refuted.

(* ---------- examples (evaluation, not theorems) ---------- *)

Definition c14_inner : schema :=
  SScope [("A", SObject "A" false [("inner", c15_prop SBool); ("b", c15_prop (SRef "B" "" None))]);
          ("B", SObject "B" false [("innerB", c15_prop (SInt None None None))])] "A".
Definition c14_shadow : schema :=
  SScope [("A", SObject "A" false [("s", c15_prop c14_inner); ("b", c15_prop (SRef "B" "" None));
                                    ("x", c15_prop (SList (SRef "X" "n1" None) None None))]);
          ("B", SObject "B" false [("outerB", c15_prop (SString None None None))])] "A".
Definition c14_n1 : objtab := [("X", SObject "X" false [("a", c15_prop (SInt None None None))])].

(* lexical resolution with shadowing, untouched namespace, ValidateReferences before / after *)
Example C14_lexical_example :
  match link_build 20 "" c14_shadow [] with
  | Ok lt0 =>
      option_map le_loc (lt_get "/O:A/p:b" lt0) = Some (LScope "") /\
      option_map le_loc (lt_get "/O:A/p:s/O:A/p:b" lt0) = Some (LScope "/O:A/p:s") /\
      option_map le_obj (lt_get "/O:A/p:s/O:A/p:b" lt0) = Some (SObject "B" false [("innerB", c15_prop (SInt None None None))]) /\
      lt_get "/O:A/p:x/i" lt0 = None /\
      validate_refs 20 lt0 "" c14_shadow = false /\
      match link_ext 20 "n1" c14_n1 c14_shadow lt0 with
      | Ok lt1 => option_map le_loc (lt_get "/O:A/p:x/i" lt1) = Some (LExt "n1") /\
                  lt_get "/O:A/p:b" lt1 = lt_get "/O:A/p:b" lt0 /\
                  validate_refs 20 lt1 "" c14_shadow = true
      | _ => False
      end
  | _ => False
  end.
Proof. vm_compute. repeat split; reflexivity. Qed.

(* the link table agrees with the environment lookup of Ops.v on every occurrence of the example *)
Example C14_link_agrees_example :
  let o := mkOracles (fun _ => None) (fun _ => false) in
  let e := mkEnv [] [("n1", c14_n1)] o in
  match link_build 20 "" c14_shadow [] with
  | Ok lt0 =>
      match link_ext 20 "n1" c14_n1 c14_shadow lt0 with
      | Ok lt1 =>
          forallb (fun r =>
            let '(p, (e', (id, ns))) := r in
            match lt_get p lt1, resolve e' id ns with
            | Some x, Some (ob, e'') => andb (Nat.eqb (List.length (le_tab x)) (List.length (e_self e'')))
                                            (match le_obj x, ob with SObject a _ _, SObject b _ _ => String.eqb a b | _, _ => false end)
            | _, _ => false
            end) (refs_env 20 e "" c14_shadow) = true
      | _ => False
      end
  | _ => False
  end.
Proof. vm_compute. reflexivity. Qed.

(* a mutually recursive scope on an input nested 60 levels: terminates well inside the fuel *)
Fixpoint c14_chain (n : nat) : gval :=
  match n with
  | O => VMap t_any_map false [(vstr "v", vi64 0)]
  | S m => VMap t_any_map false [(vstr "v", vi64 1); (vstr "next", c14_chain m)]
  end.
Example C14_recursive_example :
  let o := mkOracles (fun _ => None) (fun _ => false) in
  let s := SScope [("A", SObject "A" false [("v", c15_prop (SInt None None None)); ("next", c15_prop (SRef "A" "" None))])] "A" in
  is_ok (unser [] (fun _ _ => None) 200 (c15_env0 o) s (c14_chain 60)) = true.
Proof. vm_compute. reflexivity. Qed.
