(* Properties/C14.v — references resolve lexically; inlining a reference never changes behaviour;
   ValidateReferences iff linked; self-referential graphs work on all finite inputs.
   Statements only; every proof is `exact <lemma>`.

   The linking model is Schema/Link.v (a link table keyed by the STRUCTURED path of every reference
   occurrence; `link_ns` = ApplyNamespace, `link_build` = construction through NewScopeSchema,
   `validate_refs` = ValidateReferences), after the fix for D61.  The data operations are Schema/Ops.v,
   which look a reference up in the environment (`resolve`); scopes enter their own table (`env_enter`).

   Specification vocabulary (Proofs/Link2.v, Proofs/Link2Inline.v, Schema/Wf.v, Schema/Total.v):
     occs src ns here s     every reference occurrence of s with the object table a walk
                            ApplyNamespace(_, ns) hands to it (self namespace: the table of the NEAREST
                            enclosing scope)
     envrefs e here s       the same occurrences with the environment Ops.v resolves them in
     luniq s                unique keys in every property / member / object list (Go maps)
     ns_names_ok apps       namespace names distinct and none of them the self namespace ""
     apply_all f s apps lt  the external namespaces applied one after the other
     inlines_to e s s'      s' = s with any number of self references replaced by their objects, in
                            any context; inl_env e e' the same for the tables of an environment
     refs_to_objects e s    scope tables hold objects (checked at every self reference)
     wf_schema, no_inline_cycle, defaults_total, fuel_bound   as for C04 (Schema/Wf.v, Schema/Total.v)

   ALL of the statements of the property are proved for every schema, table, input and fuel:
     C14_sets_exactly, C14_other_ns_untouched, C14_lexical, C14_link_agrees, C14_apply_namespaces,
     C14_order_irrelevant,
     C14_validate_refs_iff, C14_inline_step_*, C14_inline_equiv_{unser,validate,serialize},
     C14_inline_refs_equiv(_back), C14_recursive_terminates; refuted without its hypothesis:
     C14_recursive_refuted (known finding D11).
   Not covered: two scopes sharing one Go object by pointer (outside the model: scope nests are
   trees).  The boolean side conditions (luniq, ns_names_ok, refs_to_objects) are evaluated on every
   generated case by Interp/RunLink.v (a case violating one is reported as a disagreement). *)
From Coq Require Import List ZArith Bool String Permutation.
From Verif Require Import Base.Prelude Base.Str Base.Float Base.GoVal Schema.Regex Schema.Units
  Schema.Syntax Schema.Ops Schema.Link Schema.Compat Schema.Wf Schema.Total
  Proofs.Compat Proofs.Link Proofs.Link2 Proofs.Link2Inline Proofs.Link2Term.
From Verif Require Import Base.XReflect Schema.XSyntax Schema.XOps Proofs.XInline.
Import ListNotations.
Open Scope string_scope.

(* ================= (1) linking ================= *)

(* ApplyNamespace(ns) sets EXACTLY the occurrences of namespace ns: each of them to the object with
   that id in the table handed to it ... *)
Theorem C14_sets_exactly : forall f src ns here s lt lt',
  link_ns f src ns here s lt = Ok lt' -> luniq s = true ->
  forall p srcp id, In (p, (srcp, (id, ns))) (occs src ns here s) ->
  exists x, lt_get p lt' = Some x /\
            exists tab loc o, srcp = Some (tab, loc) /\ alookup id tab = Some o /\ x = mkLE loc tab o.
Proof. exact link_ns_sets. Qed.
Print Assumptions C14_sets_exactly.

(* ... and leaves every other occurrence untouched. *)
Theorem C14_other_ns_untouched : forall fuel src ns here s lt lt' p,
  link_ns fuel src ns here s lt = Ok lt' ->
  (forall id, ~ In (p, (id, ns)) (refs_of fuel here s)) ->
  lt_get p lt' = lt_get p lt.
Proof. exact link_ns_untouched. Qed.
Print Assumptions C14_other_ns_untouched.

(* Lexical resolution: after construction every self-namespace reference inside a scope is linked to
   the object of that id in the table of the NEAREST enclosing scope (`occs` hands the innermost
   scope's table down: inner scopes shadow outer ones). *)
Theorem C14_lexical : forall f here s lt lt', link_build f here s lt = Ok lt' -> luniq s = true ->
  forall p tab q id, In (p, (Some (tab, q), (id, ""))) (occs None "" here s) ->
  exists o, alookup id tab = Some o /\ lt_get p lt' = Some (mkLE q tab o).
Proof. exact link_build_lexical. Qed.
Print Assumptions C14_lexical.

(* The link table agrees with the environment lookup of Ops.v at EVERY reference occurrence, once the
   schema is built and the namespaces of the environment are applied in any order. *)
Theorem C14_link_agrees : forall f s e apps lt0 lt, link_build f [] s [] = Ok lt0 ->
  Permutation apps (e_ext e) -> apply_all f s apps lt0 = Ok lt ->
  luniq s = true -> e_self e = [] -> ns_names_ok (e_ext e) = true ->
  forall p e' id ns, In (p, (e', (id, ns))) (envrefs e [] s) ->
    option_map (fun x => (le_obj x, le_tab x)) (lt_get p lt)
    = option_map (fun r => (fst r, e_self (snd r))) (resolve e' id ns).
Proof. exact link_agrees_b. Qed.
Print Assumptions C14_link_agrees.

(* Any list of applications (possibly only some of the namespaces): the occurrences of an applied
   namespace are linked into its table, every other occurrence keeps the link it had. *)
Theorem C14_apply_namespaces : forall f s apps lt lt', apply_all f s apps lt = Ok lt' -> luniq s = true ->
  ns_names_ok apps = true ->
  forall p,
    (forall srcp id ns tab, In (p, (srcp, (id, ns))) (occs None "" [] s) -> In (ns, tab) apps ->
        exists o, alookup id tab = Some o /\ lt_get p lt' = Some (mkLE (LExt ns) tab o)) /\
    ((forall srcp id ns, In (p, (srcp, (id, ns))) (occs None "" [] s) -> ~ In ns (map fst apps)) ->
        lt_get p lt' = lt_get p lt).
Proof. exact apply_all_spec_b. Qed.
Print Assumptions C14_apply_namespaces.

(* the fuelled enumeration used by ValidateReferences and printed by the harness lists structural
   occurrences only *)
Theorem C14_refs_of_are_occs : forall f here s p id ns, In (p, (id, ns)) (refs_of f here s) ->
  exists srcp, In (p, (srcp, (id, ns))) (occs None "" here s).
Proof. exact refs_of_are_occs. Qed.
Print Assumptions C14_refs_of_are_occs.

(* Applying the external namespaces in any order gives the same link table: if one order returns,
   every permutation returns, and the two tables agree at every path. *)
Theorem C14_order_irrelevant : forall f s apps apps' lt a, Permutation apps apps' ->
  ns_names_ok apps = true -> luniq s = true -> apply_all f s apps lt = Ok a ->
  exists b, apply_all f s apps' lt = Ok b /\ forall p, lt_get p a = lt_get p b.
Proof. exact order_irrelevant_total. Qed.
Print Assumptions C14_order_irrelevant.

(* ================= (2) ValidateReferences ================= *)
Theorem C14_validate_refs_iff : forall fuel lt here s,
  validate_refs fuel lt here s = true <->
  (forall p id ns, In (p, (id, ns)) (refs_of fuel here s) -> lt_get p lt <> None).
Proof. exact validate_refs_iff. Qed.
Print Assumptions C14_validate_refs_iff.

(* ================= (3) inlining ================= *)

(* one step: a reference behaves exactly as the object it denotes, with one unit of fuel less *)
Theorem C14_inline_step_unser : forall words pu f e id ns d o e' v,
  resolve e id ns = Some (o, e') ->
  unser words pu (S f) e (SRef id ns d) v = unser words pu f e' o v.
Proof. exact inline_step_unser. Qed.
Print Assumptions C14_inline_step_unser.

Theorem C14_inline_step_validate : forall words pu f e id ns d o e' v,
  resolve e id ns = Some (o, e') ->
  validate words pu (S f) e (SRef id ns d) v = validate words pu f e' o v.
Proof. exact inline_step_validate. Qed.
Print Assumptions C14_inline_step_validate.

Theorem C14_inline_step_serialize : forall words pu f e id ns d o e' v,
  resolve e id ns = Some (o, e') ->
  serialize words pu (S f) e (SRef id ns d) v = serialize words pu f e' o v.
Proof. exact inline_step_serialize. Qed.
Print Assumptions C14_inline_step_serialize.

Theorem C14_self_reference_keeps_environment : forall e id o e',
  resolve e id "" = Some (o, e') -> e' = e /\ alookup id (e_self e) = Some o.
Proof. exact resolve_self_env. Qed.
Print Assumptions C14_self_reference_keeps_environment.

(* in an ARBITRARY context, any number of inlinings: every result other than OutOfFuel of the original
   is the result of the inlined schema at the same fuel, and every such result of the inlined schema
   is the result of the original at twice the fuel — on all inputs, for all fuels. *)
Theorem C14_inline_equiv_unser : forall words pu e e' s s', inl_env e e' -> inlines_to e s s' ->
  forall f v r, r <> OutOfFuel ->
    (unser words pu f e s v = r -> unser words pu f e' s' v = r) /\
    (unser words pu f e' s' v = r -> unser words pu (2 * f) e s v = r).
Proof. exact inline_equiv_unser. Qed.
Print Assumptions C14_inline_equiv_unser.

Theorem C14_inline_equiv_validate : forall words pu e e' s s', inl_env e e' -> inlines_to e s s' ->
  forall f v r, r <> OutOfFuel ->
    (validate words pu f e s v = r -> validate words pu f e' s' v = r) /\
    (validate words pu f e' s' v = r -> validate words pu (2 * f) e s v = r).
Proof. exact inline_equiv_validate. Qed.
Print Assumptions C14_inline_equiv_validate.

Theorem C14_inline_equiv_serialize : forall words pu e e' s s', inl_env e e' -> inlines_to e s s' ->
  forall f v r, r <> OutOfFuel ->
    (serialize words pu f e s v = r -> serialize words pu f e' s' v = r) /\
    (serialize words pu f e' s' v = r -> serialize words pu (2 * f) e s v = r).
Proof. exact inline_equiv_serialize. Qed.
Print Assumptions C14_inline_equiv_serialize.

(* every environment is related to itself, every schema inlines to itself (so e' = e, or s' = s, are
   instances), and the mechanical inliner of Schema/Link.v — the harness's metamorphic partner —
   produces an inlining *)
Theorem C14_inl_env_refl : forall e, inl_env e e.
Proof. exact inl_env_refl. Qed.
Print Assumptions C14_inl_env_refl.

Theorem C14_inline_refs_inlines : forall n e stop s, refs_to_objects e s = true ->
  inlines_to e s (inline_refs n (e_self e) stop s).
Proof. exact inline_refs_inlines. Qed.
Print Assumptions C14_inline_refs_inlines.

Theorem C14_inline_refs_equiv : forall words pu e s n stop, refs_to_objects e s = true ->
  forall f v,
    (forall r, unser words pu f e s v = r -> r <> OutOfFuel ->
               unser words pu f e (inline_refs n (e_self e) stop s) v = r) /\
    (forall r, validate words pu f e s v = r -> r <> OutOfFuel ->
               validate words pu f e (inline_refs n (e_self e) stop s) v = r) /\
    (forall r, serialize words pu f e s v = r -> r <> OutOfFuel ->
               serialize words pu f e (inline_refs n (e_self e) stop s) v = r).
Proof. exact inline_refs_equiv. Qed.
Print Assumptions C14_inline_refs_equiv.

Theorem C14_inline_refs_equiv_back : forall words pu e s n stop, refs_to_objects e s = true ->
  forall f v,
    (forall r, unser words pu f e (inline_refs n (e_self e) stop s) v = r -> r <> OutOfFuel ->
               unser words pu (2 * f) e s v = r) /\
    (forall r, validate words pu f e (inline_refs n (e_self e) stop s) v = r -> r <> OutOfFuel ->
               validate words pu (2 * f) e s v = r) /\
    (forall r, serialize words pu f e (inline_refs n (e_self e) stop s) v = r -> r <> OutOfFuel ->
               serialize words pu (2 * f) e s v = r).
Proof. exact inline_refs_equiv_back. Qed.
Print Assumptions C14_inline_refs_equiv_back.

(* ================= (3b) struct-mapped parents ================= *)

(* Only a STRUCT-MAPPED parent fills in the defaults of an absent non-pointer member itself (schema/object.go
   applySubObjectDefaultValues = Schema/XOps.v xsub_defaults, the pass xunser runs over the properties that were not
   supplied).  That pass does not tell a member held by reference from the same member held by value: for one
   property (the reference and the object it denotes in the environment the parent is unserialized in) ... *)
Theorem C14_struct_subdefaults_ref_inline : forall fuel e pid p r id d o,
  p_type p = XRef id "" d ->
  alookup id (xe_self e) = Some o -> x_is_object o ->
  xsub_defaults fuel e pid p r = xsub_defaults fuel e pid (xwith_type p o) r.
Proof. exact xsub_defaults_ref_inline. Qed.
Print Assumptions C14_struct_subdefaults_ref_inline.

(* ... and for the whole pass over a parent's property list in which any number of member references have been
   replaced by their objects (xprop_inl), whatever was supplied (r0) and whatever the raw map holds so far.
   Partial with respect to the full statement "xunser / xvalidate / xserialize of a struct-mapped scope = of its
   inlined partner at every depth" (the analogue of C14_inline_equiv_* for Schema/XOps.v): this is the one step
   the struct-mapped path ADDS to the map-based operations, for which C14_inline_equiv_* is proved; the full
   composition is checked by the family c14xinline (direct predicate: reference form == inlined form). *)
Theorem C14_struct_subdefaults_pass_inline_partial : forall fuel e (r0 : raw) props props' acc,
  Forall2 (fun np np' => fst np = fst np' /\ xprop_inl e (snd np) (snd np')) props props' ->
  fold_left (fun acc0 (np : string * xproperty) =>
               a <- acc0 ;; if amem (fst np) r0 then Ok a else xsub_defaults fuel e (fst np) (snd np) a) props acc
  = fold_left (fun acc0 (np : string * xproperty) =>
               a <- acc0 ;; if amem (fst np) r0 then Ok a else xsub_defaults fuel e (fst np) (snd np) a) props' acc.
Proof. exact xsub_defaults_pass_inline. Qed.
Print Assumptions C14_struct_subdefaults_pass_inline_partial.

(* ================= (4) recursive graphs ================= *)

(* self- and mutually-referential objects work on all finite inputs: an explicit fuel suffices,
     fuel_bound K e s v = K + 3 + (4 * nic_fuel e s + 8) * (1 + vdepth v),
   under the constructors' contracts, no_inline_cycle (the single-property shorthand never re-enters
   an object without consuming input) and acyclic defaults (each processed within K steps). *)
Theorem C14_recursive_terminates : forall words pu (K : nat) (e : env) (s : schema) (v : gval),
  wf_schema e s = true -> no_inline_cycle e s = true -> defaults_total words pu K e s = true ->
  forall f, (fuel_bound K e s v <= f)%nat ->
    unser words pu f e s v <> OutOfFuel /\
    validate words pu f e s v <> OutOfFuel /\
    serialize words pu f e s v <> OutOfFuel.
Proof. exact c14_recursive_terminates. Qed.
Print Assumptions C14_recursive_terminates.

(* without no_inline_cycle it is refuted (known finding D11): the one-property object A{x: ref A}
   given a non-map input follows its own reference for ever. *)
Theorem C14_recursive_refuted : forall words pu o fuel,
  unser words pu fuel (c15_env0 o) c15_rec_scope (VStr TStr "foo") = OutOfFuel.
Proof. exact recursive_shorthand_diverges. Qed.
Print Assumptions C14_recursive_refuted.

(* ================= examples: the hypotheses are satisfiable by non-trivial instances ================= *)

Definition c14_inner : schema :=
  SScope [("A", SObject "A" false [("inner", c15_prop SBool); ("b", c15_prop (SRef "B" "" None))]);
          ("B", SObject "B" false [("innerB", c15_prop (SInt None None None))])] "A".
Definition c14_shadow : schema :=
  SScope [("A", SObject "A" false [("s", c15_prop c14_inner); ("b", c15_prop (SRef "B" "" None));
                                    ("x", c15_prop (SList (SRef "X" "n1" None) None None));
                                    ("y", c15_prop (SRef "Y" "n2" None))]);
          ("B", SObject "B" false [("outerB", c15_prop (SString None None None))])] "A".
Definition c14_n1 : objtab := [("X", SObject "X" false [("a", c15_prop (SInt None None None))])].
Definition c14_n2 : objtab := [("Y", SObject "Y" false [("c", c15_prop SBool)])].
Definition c14_apps : list (string * objtab) := [("n1", c14_n1); ("n2", c14_n2)].
Definition c14_or : oracles := mkOracles (fun _ => None) (fun _ => false).
Definition c14_env : env := mkEnv [] c14_apps c14_or.

Definition p_outer_b : lpath := [PProp "b"; PObj "A"].
Definition p_inner_b : lpath := [PProp "b"; PObj "A"; PProp "s"; PObj "A"].
Definition p_x : lpath := [PItem; PProp "x"; PObj "A"].

(* lexical resolution with shadowing, untouched namespace, ValidateReferences before / after *)
Example C14_lexical_example :
  luniq c14_shadow = true /\
  List.length (occs None "" [] c14_shadow) = 4%nat /\
  match link_build 20 [] c14_shadow [] with
  | Ok lt0 =>
      option_map le_loc (lt_get p_outer_b lt0) = Some (LScope []) /\
      option_map le_loc (lt_get p_inner_b lt0) = Some (LScope [PProp "s"; PObj "A"]) /\
      option_map le_obj (lt_get p_inner_b lt0) = Some (SObject "B" false [("innerB", c15_prop (SInt None None None))]) /\
      lt_get p_x lt0 = None /\
      validate_refs 20 lt0 [] c14_shadow = false /\
      match apply_all 20 c14_shadow c14_apps lt0 with
      | Ok lt1 => option_map le_loc (lt_get p_x lt1) = Some (LExt "n1") /\
                  lt_get p_outer_b lt1 = lt_get p_outer_b lt0 /\
                  validate_refs 20 lt1 [] c14_shadow = true
      | _ => False
      end
  | _ => False
  end.
Proof. vm_compute. repeat split; reflexivity. Qed.

(* the hypotheses of C14_link_agrees / C14_order_irrelevant hold for the example, both orders return,
   and the link table agrees with `resolve` on every occurrence *)
Example C14_link_agrees_example :
  ns_names_ok c14_apps = true /\ e_self c14_env = [] /\
  List.length (envrefs c14_env [] c14_shadow) = 4%nat /\
  match link_build 20 [] c14_shadow [] with
  | Ok lt0 =>
      match apply_all 20 c14_shadow c14_apps lt0, apply_all 20 c14_shadow (rev c14_apps) lt0 with
      | Ok lt1, Ok lt2 =>
          forallb (fun r =>
            let '(p, (e', (id, ns))) := r in
            match lt_get p lt1, lt_get p lt2, resolve e' id ns with
            | Some x, Some y, Some (ob, e'') =>
                andb (Nat.eqb (List.length (le_tab x)) (List.length (e_self e'')))
                     (match le_obj x, le_obj y, ob with
                      | SObject a _ _, SObject b _ _, SObject c _ _ => String.eqb a c && String.eqb b c
                      | _, _, _ => false end)
            | _, _, _ => false
            end) (envrefs c14_env [] c14_shadow) = true
      | _, _ => False
      end
  | _ => False
  end.
Proof. vm_compute. repeat split; reflexivity. Qed.

Example C14_order_example : Permutation c14_apps (rev c14_apps).
Proof. apply Permutation_rev. Qed.

(* inlining: the example's references are to objects, the inliner changes the schema, and the two
   schemas agree on an input that walks through the inlined reference *)
Definition c14_rec : schema :=
  SScope [("A", SObject "A" false [("v", c15_prop (SInt None None None)); ("next", c15_prop (SRef "A" "" None));
                                    ("l", c15_prop (SList (SRef "B" "" None) None None))]);
          ("B", SObject "B" false [("w", c15_prop SBool)])] "A".
Fixpoint c14_chain (n : nat) : gval :=
  match n with
  | O => VMap t_any_map false [(vstr "v", vi64 0)]
  | S m => VMap t_any_map false [(vstr "v", vi64 1); (vstr "next", c14_chain m);
                                 (vstr "l", VSlice t_any_slice false [VMap t_any_map false [(vstr "w", vbool true)]])]
  end.
Definition schema_differs (a b : schema) : bool :=
  match a, b with
  | SScope ((_, SObject _ _ ((_, _) :: (_, p) :: _)) :: _) _, SScope ((_, SObject _ _ ((_, _) :: (_, p') :: _)) :: _) _ =>
      match p_type p, p_type p' with SRef _ _ _, SObject _ _ _ => true | _, _ => false end
  | _, _ => false
  end.
Example C14_inline_example :
  let e := c15_env0 c14_or in
  refs_to_objects e c14_rec = true /\
  schema_differs c14_rec (inline_refs 3 (e_self e) [] c14_rec) = true /\
  is_ok (unser [] (fun _ _ => None) 60 e c14_rec (c14_chain 5)) = true /\
  is_ok (unser [] (fun _ _ => None) 60 e (inline_refs 3 (e_self e) [] c14_rec) (c14_chain 5)) = true.
Proof. vm_compute. repeat split; reflexivity. Qed.

(* recursion: the hypotheses of C14_recursive_terminates hold for the mutually recursive scope, the
   bound is small, and the D11 schema is exactly what no_inline_cycle excludes *)
Example C14_recursive_example :
  let e := c15_env0 c14_or in
  let pu := fun (_ : units) (_ : string) => @None fl in
  wf_schema e c14_rec = true /\ no_inline_cycle e c14_rec = true /\ defaults_total [] pu 5 e c14_rec = true /\
  is_ok (unser [] pu (fuel_bound 5 e c14_rec (c14_chain 30)) e c14_rec (c14_chain 30)) = true /\
  no_inline_cycle e c15_rec_scope = false.
Proof. vm_compute. repeat split; reflexivity. Qed.

(* struct-mapped parent XNested{in: ref XI}, XI{a default 5}: the hypotheses hold, and the absent member is filled in -
   by reference and by value alike *)
Example C14_struct_subdefaults_example :
  xprop_inl xi_env xi_prop (xwith_type xi_prop xi_obj) /\
  xsub_defaults 5 xi_env "in" xi_prop [] = Ok [("in", raw_to_val [("a", VInt (TInt I64) 5%Z)])] /\
  xsub_defaults 5 xi_env "in" (xwith_type xi_prop xi_obj) [] = Ok [("in", raw_to_val [("a", VInt (TInt I64) 5%Z)])].
Proof. exact xsub_defaults_ref_inline_example. Qed.

(* ================= (5) a scope tree REBUILT from its description ================= *)
(* UnserializeScope builds every scope of the tree as a plain value (none goes through NewScopeSchema) and links
   the whole tree by ONE ApplySelf of the outermost scope (`link_rebuilt`, Schema/Link.v).  Lexical resolution
   holds for that tree too — a scope nested directly as a property type hands its OWN table down, so an id that
   collides between the inner and the outer scope denotes the inner object inside the inner scope —, and at every
   self-namespace occurrence the link is the very link of the tree built through the constructors. *)
From Verif Require Import Proofs.Link3.

Theorem C14_apply_self_lexical : forall f here s lt lt', link_ns f None "" here s lt = Ok lt' -> luniq s = true ->
  forall p tab q id, In (p, (Some (tab, q), (id, ""))) (occs None "" here s) ->
  exists o, alookup id tab = Some o /\ lt_get p lt' = Some (mkLE q tab o).
Proof. exact apply_self_lexical. Qed.
Print Assumptions C14_apply_self_lexical.

Theorem C14_rebuilt_lexical : forall f s lt, link_rebuilt f s = Ok lt -> luniq s = true ->
  forall p tab q id, In (p, (Some (tab, q), (id, ""))) (occs None "" [] s) ->
  exists o, alookup id tab = Some o /\ lt_get p lt = Some (mkLE q tab o).
Proof. exact rebuilt_lexical. Qed.
Print Assumptions C14_rebuilt_lexical.

Theorem C14_rebuilt_agrees_with_built : forall f g here s lt0 ltb ltr,
  link_build f here s lt0 = Ok ltb -> link_ns g None "" here s [] = Ok ltr -> luniq s = true ->
  forall p srcp id, In (p, (srcp, (id, ""))) (occs None "" here s) -> lt_get p ltb = lt_get p ltr.
Proof. exact rebuilt_agrees_with_built. Qed.
Print Assumptions C14_rebuilt_agrees_with_built.

(* non-vacuity: a scope nested DIRECTLY as a property type, its ids A and B colliding with the outer ones *)
Section ExamplesRebuilt.
  Let prop_ (t : schema) : property := mkProp t None false [] [] [] None [] false false None.
  Let inner := SScope [("A", SObject "A" false [("b", prop_ (SRef "B" "" None))]);
                       ("B", SObject "B" false [("innerB", prop_ (SInt None None None))])] "A".
  Let outer := SScope [("A", SObject "A" false [("s", prop_ inner); ("b", prop_ (SRef "B" "" None))]);
                       ("B", SObject "B" false [("outerB", prop_ (SString None None None))])] "A".
  Example C14_rebuilt_example :
    match link_rebuilt 50 outer, link_build 50 [] outer [] with
    | Ok ltr, Ok ltb =>
        option_map le_loc (lt_get [PProp "b"; PObj "A"; PProp "s"; PObj "A"] ltr) = Some (LScope [PProp "s"; PObj "A"])
        /\ option_map le_loc (lt_get [PProp "b"; PObj "A"] ltr) = Some (LScope [])
        /\ lt_get [PProp "b"; PObj "A"; PProp "s"; PObj "A"] ltr = lt_get [PProp "b"; PObj "A"; PProp "s"; PObj "A"] ltb
        /\ luniq outer = true
    | _, _ => False
    end.
  Proof. vm_compute. repeat split; reflexivity. Qed.
End ExamplesRebuilt.

(* ================= (3c) struct-mapped model: inline equivalence in an arbitrary context ================= *)
(* The analogue of C14_inline_equiv_* for Schema/XOps.v (struct-mapped objects, NewStructMappedObjectSchema /
   typed scopes).  `xinlines_to e s s'` (Proofs/XInlineStep.v): s' is s with any number of self-namespace references
   replaced by the objects they denote (themselves inlined further), closed under EVERY x-constructor: lists, maps,
   objects — struct-mapped or not, the struct information kept — and their properties, one-of members, scopes (whose
   objects are inlined in the table the scope is entered with: `xinl_env e e'`, same oracles, same struct table; a
   table entry that is replaced is not itself a bare reference).  Fuel relation = that of the map-based theorem: the
   inlined schema at the SAME fuel, the original at TWICE the fuel.  What the struct-mapped path adds, all covered:
   the sub-object default pass of a struct-mapped parent (C14_struct_subdefaults_inline: invariant at the same fuel,
   at every depth and in the inlined environment — the full form of C14_struct_subdefaults_pass_inline_partial), the
   reflected types used by validateStruct / serializeStruct / findUnderlyingType, xto_struct. *)
From Verif Require Import Proofs.XStruct Proofs.XExamples Proofs.XMono Proofs.XInlineStep Proofs.XInlineEquiv Proofs.XInlineEx.

Theorem C14_struct_inline_equiv_unser : forall words pu e e' s s', xinl_env e e' -> xinlines_to e s s' ->
  forall f v r, r <> OutOfFuel ->
    (xunser words pu f e s v = r -> xunser words pu f e' s' v = r) /\
    (xunser words pu f e' s' v = r -> xunser words pu (2 * f) e s v = r).
Proof. exact xinline_equiv_unser. Qed.
Print Assumptions C14_struct_inline_equiv_unser.

Theorem C14_struct_inline_equiv_validate : forall words pu e e' s s', xinl_env e e' -> xinlines_to e s s' ->
  forall f v r, r <> OutOfFuel ->
    (xvalidate words pu f e s v = r -> xvalidate words pu f e' s' v = r) /\
    (xvalidate words pu f e' s' v = r -> xvalidate words pu (2 * f) e s v = r).
Proof. exact xinline_equiv_validate. Qed.
Print Assumptions C14_struct_inline_equiv_validate.

Theorem C14_struct_inline_equiv_serialize : forall words pu e e' s s', xinl_env e e' -> xinlines_to e s s' ->
  forall f v r, r <> OutOfFuel ->
    (xserialize words pu f e s v = r -> xserialize words pu f e' s' v = r) /\
    (xserialize words pu f e' s' v = r -> xserialize words pu (2 * f) e s v = r).
Proof. exact xinline_equiv_serialize. Qed.
Print Assumptions C14_struct_inline_equiv_serialize.

(* data-mode ValidateCompatibility as well (the one-of of Validate / Serialize goes through it) *)
Theorem C14_struct_inline_equiv_compat : forall words pu e e' s s', xinl_env e e' -> xinlines_to e s s' ->
  forall f v r, r <> OutOfFuel ->
    (xcompat words pu f e s v = r -> xcompat words pu f e' s' v = r) /\
    (xcompat words pu f e' s' v = r -> xcompat words pu (2 * f) e s v = r).
Proof. exact xinline_equiv_compat. Qed.
Print Assumptions C14_struct_inline_equiv_compat.

(* every environment is related to itself and every schema inlines to itself (so e' = e, or s' = s, are instances);
   s7b's one-level relation xprop_inl is an instance of the property rule of xinlines_to *)
Theorem C14_struct_inl_env_refl : forall e, xinl_env e e.
Proof. exact xinl_env_refl. Qed.
Print Assumptions C14_struct_inl_env_refl.

Theorem C14_struct_inl_refl : forall s e, xinlines_to e s s.
Proof. exact xinl_refl. Qed.
Print Assumptions C14_struct_inl_refl.

Theorem C14_struct_prop_inl_instance : forall e (np np' : string * property_ xschema),
  fst np = fst np' -> xprop_inl e (snd np) (snd np') -> xprop_rel (xinlines_to e) np np'.
Proof. exact xprop_inl_rel. Qed.
Print Assumptions C14_struct_prop_inl_instance.

(* the sub-object default pass: the same raw map at the SAME fuel, whatever the depth at which references were
   replaced and with the member's own environment inlined *)
Theorem C14_struct_subdefaults_inline : forall f e e' pid (p : xproperty) t' r,
  xinl_env e e' -> xinlines_to e (p_type p) t' ->
  xsub_defaults f e pid p r = xsub_defaults f e' pid (xwith_type p t') r.
Proof. exact xsub_inl_eq. Qed.
Print Assumptions C14_struct_subdefaults_inline.

(* fuel monotonicity of the struct-mapped operations (used by both directions) *)
Theorem C14_struct_fuel_mono : forall words pu f f' e s v r, (f <= f')%nat ->
  xunser words pu f e s v = r -> r <> OutOfFuel -> xunser words pu f' e s v = r.
Proof. exact xunser_fuel_mono. Qed.
Print Assumptions C14_struct_fuel_mono.

(* the hypotheses hold for the harness descriptors: XNested{in: ref XInner, p: ref XInner, x} with both references
   replaced by the struct-mapped XInner, as an object and inside the scope's table; the results are equal and Ok *)
Example C14_struct_inline_example :
  let e := xs_env xs_tab in
  let v := xs_m [("in", xs_m [("b", vstr "q")]); ("x", vi64 3)] in
  let n := VStruct (TStruct "XNested")
             [("In", xs_inner_v 1 "q"); ("P", VPtr (TPtr (TStruct "XInner")) (Some (xs_inner_v 1 ""))); ("X", vi64 3)] in
  xinl_env e e /\ xinlines_to e xs_nested xs_nested_inl /\
  xunser w_words w_pu 8 e xs_nested v = Ok n /\ xunser w_words w_pu 8 e xs_nested_inl v = Ok n /\
  xvalidate w_words w_pu 8 e xs_nested n = Ok tt /\ xvalidate w_words w_pu 8 e xs_nested_inl n = Ok tt /\
  xserialize w_words w_pu 8 e xs_nested n = xserialize w_words w_pu 8 e xs_nested_inl n /\
  is_ok (xserialize w_words w_pu 8 e xs_nested_inl n) = true.
Proof. exact xinline_equiv_example. Qed.

Example C14_struct_inline_scope_example :
  let e := xs_env [] in
  let v := xs_m [("in", xs_m [("b", vstr "q")]); ("x", vi64 3)] in
  xinl_env e e /\ xinlines_to e (xs_scope "XNested") (XScope xs_tab_inl "XNested") /\
  is_ok (xunser w_words w_pu 30 e (xs_scope "XNested") v) = true /\
  xunser w_words w_pu 30 e (xs_scope "XNested") v = xunser w_words w_pu 30 e (XScope xs_tab_inl "XNested") v.
Proof. exact xinline_equiv_scope_example. Qed.

(* the mechanical inliner over xschema (Proofs/XInlineRefs.v: the struct-mapped counterpart of inline_refs — every
   self-namespace reference to an OBJECT replaced by it, n rounds deep, with a stop list) produces an inlining, without
   any side condition; so the scope and its inlined partner agree on every input in the SAME environment at the same
   fuel — the very pair the harness family c14xinline compares — and back at twice the fuel *)
From Verif Require Import Proofs.XInlineRefs.

Theorem C14_struct_inline_refs_inlines : forall n e stop s, xinlines_to e s (xinline_refs n (xe_self e) stop s).
Proof. exact xinline_refs_inlines. Qed.
Print Assumptions C14_struct_inline_refs_inlines.

Theorem C14_struct_inline_refs_equiv : forall words pu e s n stop f v,
    (forall r, xunser words pu f e s v = r -> r <> OutOfFuel ->
               xunser words pu f e (xinline_refs n (xe_self e) stop s) v = r) /\
    (forall r, xvalidate words pu f e s v = r -> r <> OutOfFuel ->
               xvalidate words pu f e (xinline_refs n (xe_self e) stop s) v = r) /\
    (forall r, xserialize words pu f e s v = r -> r <> OutOfFuel ->
               xserialize words pu f e (xinline_refs n (xe_self e) stop s) v = r).
Proof. exact xinline_refs_equiv. Qed.
Print Assumptions C14_struct_inline_refs_equiv.

Theorem C14_struct_inline_refs_equiv_back : forall words pu e s n stop f v,
    (forall r, xunser words pu f e (xinline_refs n (xe_self e) stop s) v = r -> r <> OutOfFuel ->
               xunser words pu (2 * f) e s v = r) /\
    (forall r, xvalidate words pu f e (xinline_refs n (xe_self e) stop s) v = r -> r <> OutOfFuel ->
               xvalidate words pu (2 * f) e s v = r) /\
    (forall r, xserialize words pu f e (xinline_refs n (xe_self e) stop s) v = r -> r <> OutOfFuel ->
               xserialize words pu (2 * f) e s v = r).
Proof. exact xinline_refs_equiv_back. Qed.
Print Assumptions C14_struct_inline_refs_equiv_back.

(* the inliner does change the harness scope (XNested's member references become the struct-mapped XInner, the one-of
   members and the list item of Choice their objects), and both forms return the same struct *)
Example C14_struct_inline_refs_example :
  let e := xs_env [] in
  let v := xs_m [("in", xs_m [("b", vstr "q")]); ("x", vi64 3)] in
  let s' := xinline_refs 4 (xe_self e) [] (xs_scope "XNested") in
  match s' with
  | XScope ((_, XObject _ _ ((_, p) :: _) (Some _)) :: _) _ =>
      match p_type p with XObject "XInner" _ _ (Some _) => True | _ => False end
  | _ => False
  end /\
  is_ok (xunser w_words w_pu 30 e (xs_scope "XNested") v) = true /\
  xunser w_words w_pu 30 e s' v = xunser w_words w_pu 30 e (xs_scope "XNested") v.
Proof. vm_compute. repeat split; reflexivity. Qed.

(* ---- near-equal namespace names ----
   Namespaces are plain strings compared for EQUALITY (Link.v: String.eqb rns ns): "Steps" and "steps" are two
   namespaces.  An instance of C14_other_ns_untouched / C14_apply_namespaces / C14_order_irrelevant whose two external
   namespaces differ only in letter case and hold an object of the same id with different shapes: applying "Steps"
   links the reference into "Steps" only (the one into "steps" stays unlinked, ValidateReferences fails), and after
   both applications, in either order, each reference denotes the object of ITS namespace. *)
Definition c14_ci : schema :=
  SScope [("Root", SObject "Root" false [("upper", c15_prop (SRef "Data" "Steps" None));
                                         ("lower", c15_prop (SList (SRef "Data" "steps" None) None None))])] "Root".
Definition c14_ci_upper : objtab := [("Data", SObject "Data" false [("u", c15_prop (SString None None None))])].
Definition c14_ci_lower : objtab := [("Data", SObject "Data" false [("l", c15_prop (SInt None None None))])].
Definition c14_ci_apps : list (string * objtab) := [("Steps", c14_ci_upper); ("steps", c14_ci_lower)].
Definition p_ci_upper : lpath := [PProp "upper"; PObj "Root"].
Definition p_ci_lower : lpath := [PItem; PProp "lower"; PObj "Root"].

Example C14_near_equal_namespaces_example :
  ns_names_ok c14_ci_apps = true /\ luniq c14_ci = true /\
  match link_build 20 [] c14_ci [] with
  | Ok lt0 =>
      match apply_all 20 c14_ci [("Steps", c14_ci_upper)] lt0 with
      | Ok lt1 => option_map le_loc (lt_get p_ci_upper lt1) = Some (LExt "Steps") /\
                  lt_get p_ci_lower lt1 = None /\
                  validate_refs 20 lt1 [] c14_ci = false
      | _ => False
      end /\
      match apply_all 20 c14_ci c14_ci_apps lt0, apply_all 20 c14_ci (rev c14_ci_apps) lt0 with
      | Ok lt1, Ok lt2 =>
          option_map le_obj (lt_get p_ci_upper lt1) = alookup "Data" c14_ci_upper /\
          option_map le_obj (lt_get p_ci_lower lt1) = alookup "Data" c14_ci_lower /\
          option_map le_obj (lt_get p_ci_upper lt2) = alookup "Data" c14_ci_upper /\
          option_map le_obj (lt_get p_ci_lower lt2) = alookup "Data" c14_ci_lower /\
          option_map le_loc (lt_get p_ci_lower lt2) = Some (LExt "steps") /\
          validate_refs 20 lt1 [] c14_ci = true /\ validate_refs 20 lt2 [] c14_ci = true
      | _, _ => False
      end
  | _ => False
  end.
Proof. vm_compute. repeat split; reflexivity. Qed.
