(* Properties/C10.v — a schema received from a plugin is rejected with an error or fully usable.
   Statements only; proofs in Proofs/C10Total.v (the loader is total), Proofs/C10Shape.v (what holds of its
   result by construction), Proofs/C10UseNoPanic.v / C10UseTerm.v (C04's totality under the part of
   well-formedness that is used, assembled in C10UseMain.v) and Proofs/C10Usable.v, C10UsableExt.v (the composition).  Model: Schema/Describe.v
   (`rebuild` = UnserializeScope, `rebuild_plugin` = UnserializeSchema / Client.ReadSchema, as they are after
   the fixes for D30, D31, D32, D40), tied to the SDK by the family c10mutants on every run.

   Part 1 (C10_total, C10_total_plugin): for EVERY decoded value the loader returns an error or a schema
   satisfying c10_wf — never Panic, never OutOfFuel.
   Part 2 (C10_usable, C10_usable_plugin): "fully usable" = every operation of Schema/Ops.v is total on the
   returned schema in the sense of C04.  c10_wf (established by the link step) and `shape` (established by
   construction of `parse`: distinct keys of every map, map key kinds, one-of key and member kinds, scopes
   hold objects) give `wf_use`, the part of C04's wf_schema the operations use; wf_schema itself is NOT
   established (the loader checks "id = key" for the root object only, C10_wf_schema_not_established) and
   is not needed (C10_wf_relation: wf_schema <-> wf_use /\ ids_ok; no operation reads an object's id).
   The two known-finding classes of C04 (D11 no_inline_cycle, D50 defaults_total) are reachable through the
   loader (C10_inline_cycle_refuted, C10_default_cycle_refuted), so they stay as hypotheses of the
   termination half; the no-panic half has none.
   Part 3 (C10_usable_applied_namespaces): UnserializeScope returns references into other namespaces unlinked
   (and does not check a one-of member that is such a reference); once the caller has applied those namespaces
   (the `e_ext` of the environment) the scope is fully usable in the same sense. *)
From Verif Require Import Base.Prelude Base.Str Base.Float Base.GoVal
  Schema.Regex Schema.Units Schema.Syntax Schema.Ops Schema.Wf Schema.Total Schema.Describe
  Proofs.C04Refuted Proofs.C10Total Proofs.C10Shape Proofs.C10UseNoPanic Proofs.C10UseMain Proofs.C10Usable Proofs.C10UsableExt.
Open Scope string_scope.

(* UnserializeScope: for EVERY decoded value, with every behaviour of the recorded libraries
   (boolean words, unit parser, regexp.Compile, encoding/json) *)
Theorem C10_total :
  forall (words : list (string * bool)) (pu : units -> string -> option fl) (cu : units)
         (rp : string -> option re) (jor : oracles) (d : gval),
  match rebuild words pu cu rp jor d with
  | Panic _ | OutOfFuel => False
  | Err _ => True
  | Ok s => c10_wf jor s = true
  end.
Proof. exact rebuild_total. Qed.
Print Assumptions C10_total.

(* UnserializeSchema / Client.ReadSchema: every step input, output and signal data schema of an accepted
   plugin schema is well-formed and has no reference left unlinked *)
Theorem C10_total_plugin :
  forall (words : list (string * bool)) (pu : units -> string -> option fl) (cu : units)
         (rp : string -> option re) (jor : oracles) (d : gval),
  match rebuild_plugin words pu cu rp jor d with
  | Panic _ | OutOfFuel => False
  | Err _ => True
  | Ok p => forallb (c10_wf jor) (plugin_scopes p) = true /\ existsb foreign_refs (plugin_scopes p) = false
  end.
Proof. exact rebuild_plugin_total. Qed.
Print Assumptions C10_total_plugin.

(* ---- instances: both the accepting and the rejecting branch are inhabited ---- *)
Definition x_words : list (string * bool) := [("true", true); ("false", false)].
Definition x_pu : units -> string -> option fl := fun _ _ => None.
Definition x_cu : units := mkUnits (mkUnit "char" "chars" "character" "characters") [].
Definition x_rp : string -> option re := fun _ => None.
Definition x_jor : oracles := mkOracles (fun txt => if String.eqb txt "5" then Some (vi64 5) else None) (fun _ => false).

Definition x_obj (id : string) (props : list (gval * gval)) : gval :=
  dobj [("id", vstr id); ("properties", dmap props)].
Definition x_prop (t : gval) : gval := dobj [("type", t)].
Definition x_ref (id : string) : gval := dobj [("type_id", vstr "ref"); ("id", vstr id)].
Definition x_scope (root : string) (objs : list (gval * gval)) : gval :=
  dobj [("objects", dmap objs); ("root", vstr root)].

(* a recursive scope with a reference that resolves: accepted, and well-formed *)
Definition x_good : gval :=
  x_scope "A" [(vstr "A", x_obj "A" [(vstr "next", x_prop (x_ref "A")); (vstr "b", x_prop (x_ref "B"))]);
               (vstr "B", x_obj "B" [])].
Example C10_total_accepts :
  match rebuild x_words x_pu x_cu x_rp x_jor x_good with Ok s => c10_wf x_jor s | _ => false end = true.
Proof. vm_compute. reflexivity. Qed.

(* the D32 witnesses: a dangling reference, a root that names no object, an object stored under another
   key than its id, a default that is not JSON, a one-of member without the inlined discriminator —
   each is rejected by the loader ... *)
Definition x_dangling : gval := x_scope "A" [(vstr "A", x_obj "A" [(vstr "a", x_prop (x_ref "Missing"))])].
Definition x_noroot : gval := x_scope "Nope" [(vstr "A", x_obj "A" [])].
Definition x_wrongkey : gval := x_scope "K" [(vstr "K", x_obj "A" [])].
Definition x_baddefault : gval :=
  x_scope "A" [(vstr "A", x_obj "A" [(vstr "a", dobj [("type", dobj [("type_id", vstr "integer")]); ("default", vstr "{")])])].
Definition x_oneof : gval :=
  x_scope "A" [(vstr "A", x_obj "A" [(vstr "a", x_prop (dobj [("type_id", vstr "one_of_string");
                   ("discriminator_field_name", vstr "k"); ("discriminator_inlined", vbool true);
                   ("types", dmap [(vstr "x", x_ref "B")])]))]);
               (vstr "B", x_obj "B" [])].
Example C10_total_rejects :
  forallb (fun d => is_err (rebuild x_words x_pu x_cu x_rp x_jor d))
          [x_dangling; x_noroot; x_wrongkey; x_baddefault; x_oneof; VNil; vstr "garbage"; dmap [(vi64 1, VNil)]] = true.
Proof. vm_compute. reflexivity. Qed.

(* ... and each was accepted by the loader as it was before the fixes (no link step in
   UnserializeScope), yielding a schema that is not well-formed; on the first of them the model of
   Unserialize reaches its Panic branch, which is the panic observed on the unchanged tree (D30/D32). *)
Theorem C10_prefix_refuted :
  forallb (fun d => match rebuild_prefix x_words x_pu x_cu x_rp d with
                    | Ok s => negb (c10_wf x_jor s)
                    | _ => false
                    end)
          [x_dangling; x_noroot; x_wrongkey; x_baddefault; x_oneof] = true
  /\ match rebuild_prefix x_words x_pu x_cu x_rp x_dangling with
     | Ok s => is_panic (unser x_words x_pu 20 (mkEnv [] [] x_jor) s
                           (VMap t_any_map false [(vstr "a", VMap t_any_map false [])]))
     | _ => false
     end = true.
Proof. split; vm_compute; reflexivity. Qed.
Print Assumptions C10_prefix_refuted.

(* ================= Part 2: an accepted schema is fully usable (C10 composed with C04) ================= *)

(* what holds of every schema the loader returns, by construction of `parse` *)
Theorem C10_shape :
  forall (words : list (string * bool)) (pu : units -> string -> option fl) (cu : units)
         (rp : string -> option re) (jor : oracles) (d : gval) (s : schema),
  rebuild words pu cu rp jor d = Ok s -> shape s = true.
Proof. exact shape_rebuild. Qed.
Print Assumptions C10_shape.

(* the link between the loader's well-formedness and C04's: c10_wf, shape and "no reference into another
   namespace" give wf_use ... *)
Theorem C10_link :
  forall (jor : oracles) (s : schema),
  c10_wf jor s = true -> shape s = true -> foreign_refs s = false -> wf_use (mkEnv [] [] jor) s = true.
Proof. exact c10_wf_use. Qed.
Print Assumptions C10_link.

(* ... and wf_use is C04's wf_schema without the one conjunct no operation reads ("every object of a scope
   is stored under its own id"; wf_use keeps "is an object") *)
Theorem C10_wf_relation :
  forall (e : env) (s : schema), wf_schema e s = true <-> wf_use e s = true /\ ids_ok e s = true.
Proof. exact wf_schema_iff_use. Qed.
Print Assumptions C10_wf_relation.

(* UnserializeScope.  `foreign_refs s = false`: the scope has no reference into another namespace —
   UnserializeScope returns those unlinked, for the caller to apply the namespace (C10_scope_foreign_ref_refuted
   below); UnserializeSchema rejects them, so C10_usable_plugin has no such hypothesis. *)
Theorem C10_usable :
  forall (words : list (string * bool)) (pu : units -> string -> option fl) (cu : units)
         (rp : string -> option re) (jor : oracles) (d : gval) (s : schema),
  rebuild words pu cu rp jor d = Ok s -> foreign_refs s = false ->
  (* no operation ever panics: every Go value, every fuel, no further hypothesis *)
  (forall (f : nat) (v : gval) (w : string),
     unser words pu f (mkEnv [] [] jor) s v <> Panic w /\ validate words pu f (mkEnv [] [] jor) s v <> Panic w /\
     serialize words pu f (mkEnv [] [] jor) s v <> Panic w /\ compat words pu f (mkEnv [] [] jor) s v <> Panic w)
  /\
  (* and outside the two known-finding classes of C04 (D11, D50) every operation terminates within fuel_bound *)
  (forall K : nat, no_inline_cycle (mkEnv [] [] jor) s = true -> defaults_total words pu K (mkEnv [] [] jor) s = true ->
     forall (v : gval) (f : nat), (fuel_bound K (mkEnv [] [] jor) s v <= f)%nat ->
       unser words pu f (mkEnv [] [] jor) s v <> OutOfFuel /\ validate words pu f (mkEnv [] [] jor) s v <> OutOfFuel /\
       serialize words pu f (mkEnv [] [] jor) s v <> OutOfFuel /\ compat words pu f (mkEnv [] [] jor) s v <> OutOfFuel).
Proof. exact c10_usable_explicit. Qed.
Print Assumptions C10_usable.

(* UnserializeSchema / Client.ReadSchema: every step input, output and signal data schema of an accepted
   plugin schema *)
Theorem C10_usable_plugin :
  forall (words : list (string * bool)) (pu : units -> string -> option fl) (cu : units)
         (rp : string -> option re) (jor : oracles) (d : gval) (p : dplugin),
  rebuild_plugin words pu cu rp jor d = Ok p ->
  forall s : schema, In s (plugin_scopes p) ->
  (forall (f : nat) (v : gval) (w : string),
     unser words pu f (mkEnv [] [] jor) s v <> Panic w /\ validate words pu f (mkEnv [] [] jor) s v <> Panic w /\
     serialize words pu f (mkEnv [] [] jor) s v <> Panic w /\ compat words pu f (mkEnv [] [] jor) s v <> Panic w)
  /\
  (forall K : nat, no_inline_cycle (mkEnv [] [] jor) s = true -> defaults_total words pu K (mkEnv [] [] jor) s = true ->
     forall (v : gval) (f : nat), (fuel_bound K (mkEnv [] [] jor) s v <= f)%nat ->
       unser words pu f (mkEnv [] [] jor) s v <> OutOfFuel /\ validate words pu f (mkEnv [] [] jor) s v <> OutOfFuel /\
       serialize words pu f (mkEnv [] [] jor) s v <> OutOfFuel /\ compat words pu f (mkEnv [] [] jor) s v <> OutOfFuel).
Proof. exact c10_usable_plugin_explicit. Qed.
Print Assumptions C10_usable_plugin.

(* ---- instances: the hypotheses are satisfiable, on a recursive scope that is accepted and used ---- *)
Definition x_node : gval :=
  u_scope "N" [(vstr "N", u_obj "N" [(vstr "next", u_prop (u_ref "N" "") None);
                                     (vstr "n", u_prop (dobj [("type_id", vstr "integer")]) (Some "5"));
                                     (vstr "kids", u_prop (dobj [("type_id", vstr "list"); ("items", u_ref "M" "")]) None)]);
               (vstr "M", u_obj "M" [(vstr "p", u_prop (dobj [("type_id", vstr "any")]) None)])].
Definition x_node_value : gval :=
  VMap t_any_map false
    [(vstr "next", VMap t_str_map false [(vstr "kids", VSlice t_any_slice false [VMap t_any_map false [(vstr "p", vi64 1)]])])].
Definition x_plugin_desc : gval :=
  dobj [("steps", dmap [(vstr "s", dobj [("id", vstr "s"); ("input", x_node);
                                          ("outputs", dmap [(vstr "ok", dobj [("schema", x_good)])])])])].

Example C10_usable_hypotheses_satisfiable :
  match rebuild x_words x_pu x_cu x_rp x_jor x_node with
  | Ok s =>
      negb (foreign_refs s) && wf_use (mkEnv [] [] x_jor) s
      && no_inline_cycle (mkEnv [] [] x_jor) s && defaults_total x_words x_pu 20 (mkEnv [] [] x_jor) s
      && is_ok (unser x_words x_pu (fuel_bound 20 (mkEnv [] [] x_jor) s x_node_value) (mkEnv [] [] x_jor) s x_node_value)
      && is_err (unser x_words x_pu (fuel_bound 20 (mkEnv [] [] x_jor) s (vstr "foo")) (mkEnv [] [] x_jor) s (vstr "foo"))
  | _ => false
  end = true.
Proof. vm_compute. reflexivity. Qed.

Example C10_usable_plugin_hypotheses_satisfiable :
  match rebuild_plugin x_words x_pu x_cu x_rp x_jor x_plugin_desc with
  | Ok p =>
      (List.length (plugin_scopes p) =? 2)%nat
      && forallb (fun s => no_inline_cycle (mkEnv [] [] x_jor) s && defaults_total x_words x_pu 20 (mkEnv [] [] x_jor) s)
                 (plugin_scopes p)
  | _ => false
  end = true.
Proof. vm_compute. reflexivity. Qed.

(* ---- the hypotheses are needed ---- *)

(* known finding D11 showing through C10: the description of scope(A{x: ref A}) is accepted (by UnserializeScope
   and inside a plugin schema), the result is well-formed, no bound makes no_inline_cycle true, and
   Unserialize("foo") never finishes (a fatal stack overflow in Go) *)
Theorem C10_inline_cycle_refuted :
  forall (words : list (string * bool)) (pu : units -> string -> option fl) (cu : units) (rp : string -> option re),
  exists (jor : oracles) (d : gval) (s : schema) (v : gval),
    rebuild words pu cu rp jor d = Ok s /\ foreign_refs s = false /\ wf_use (mkEnv [] [] jor) s = true /\
    (forall n, no_inline_cycle_n n (mkEnv [] [] jor) s = false) /\
    forall f, unser words pu f (mkEnv [] [] jor) s v = OutOfFuel.
Proof. exact c10_inline_cycle_refuted. Qed.
Print Assumptions C10_inline_cycle_refuted.

(* known finding D50 through C10: scope(A{x: ref A = "{}"; n: any}) *)
Theorem C10_default_cycle_refuted :
  forall (words : list (string * bool)) (pu : units -> string -> option fl) (cu : units) (rp : string -> option re),
  exists (jor : oracles) (d : gval) (s : schema) (v : gval),
    rebuild words pu cu rp jor d = Ok s /\ foreign_refs s = false /\ wf_use (mkEnv [] [] jor) s = true /\
    no_inline_cycle (mkEnv [] [] jor) s = true /\
    (forall K, defaults_total words pu K (mkEnv [] [] jor) s = false) /\
    forall f, unser words pu f (mkEnv [] [] jor) s v = OutOfFuel.
Proof. exact c10_default_cycle_refuted. Qed.
Print Assumptions C10_default_cycle_refuted.

(* UnserializeScope accepts a reference into a namespace it cannot link (the caller is expected to apply that
   namespace, exactly as for a scope built in code); until then the first use reaches the "unlinked reference"
   panic.  UnserializeSchema rejects the same description. *)
Theorem C10_scope_foreign_ref_refuted :
  forall (words : list (string * bool)) (pu : units -> string -> option fl) (cu : units) (rp : string -> option re)
         (jor : oracles),
  exists s, rebuild words pu cu rp jor u_foreign = Ok s /\ foreign_refs s = true /\
            c10_wf jor s = true /\ wf_use (mkEnv [] [] jor) s = false /\
            is_panic (unser words pu 20 (mkEnv [] [] jor) s (VMap t_str_map false [(vstr "x", VMap t_str_map false [])])) = true.
Proof. exact c10_scope_foreign_ref_refuted. Qed.
Print Assumptions C10_scope_foreign_ref_refuted.

Theorem C10_plugin_foreign_ref_rejected :
  forall (words : list (string * bool)) (pu : units -> string -> option fl) (cu : units) (rp : string -> option re)
         (jor : oracles),
  is_err (rebuild_plugin words pu cu rp jor (u_plugin u_foreign)) = true /\
  is_ok (rebuild_plugin words pu cu rp jor (u_plugin u_d11)) = true.
Proof. exact c10_plugin_foreign_ref_rejected. Qed.
Print Assumptions C10_plugin_foreign_ref_rejected.

(* C04's wf_schema is not what the loader establishes: an object that is not the root may be stored under a key
   that differs from its id.  The scope is accepted, is wf_use, and is used like any other. *)
Theorem C10_wf_schema_not_established :
  forall (words : list (string * bool)) (pu : units -> string -> option fl) (cu : units) (rp : string -> option re)
         (jor : oracles),
  exists s, rebuild words pu cu rp jor u_otherkey = Ok s /\ foreign_refs s = false /\
            wf_schema (mkEnv [] [] jor) s = false /\ wf_use (mkEnv [] [] jor) s = true.
Proof. exact wf_schema_too_strong_for_rebuilt. Qed.
Print Assumptions C10_wf_schema_not_established.

(* ================= Part 3: UnserializeScope, then the caller's namespaces ================= *)

(* `ext`: the namespaces the caller has applied (ScopeSchema.ApplyNamespace), each a table of objects.
   all_env use_local: those tables are themselves usable.  all_nodes ext_ok: every reference of s into another
   namespace resolves in ext to an object, and where it is a one-of member it passes the member check that
   ApplyNamespace performs when the namespace is applied (the loader could not check it, C10_foreign_member_accepted).
   With ext = [] and no foreign reference this is C10_usable. *)
Theorem C10_usable_applied_namespaces :
  forall (words : list (string * bool)) (pu : units -> string -> option fl) (cu : units)
         (rp : string -> option re) (jor : oracles) (d : gval) (s : schema) (ext : list (string * objtab)),
  rebuild words pu cu rp jor d = Ok s ->
  all_env use_local (mkEnv [] ext jor) = true -> all_nodes ext_ok (mkEnv [] ext jor) s = true ->
  (forall (f : nat) (v : gval) (w : string),
     unser words pu f (mkEnv [] ext jor) s v <> Panic w /\ validate words pu f (mkEnv [] ext jor) s v <> Panic w /\
     serialize words pu f (mkEnv [] ext jor) s v <> Panic w /\ compat words pu f (mkEnv [] ext jor) s v <> Panic w)
  /\
  (forall K : nat, no_inline_cycle (mkEnv [] ext jor) s = true -> defaults_total words pu K (mkEnv [] ext jor) s = true ->
     forall (v : gval) (f : nat), (fuel_bound K (mkEnv [] ext jor) s v <= f)%nat ->
       unser words pu f (mkEnv [] ext jor) s v <> OutOfFuel /\ validate words pu f (mkEnv [] ext jor) s v <> OutOfFuel /\
       serialize words pu f (mkEnv [] ext jor) s v <> OutOfFuel /\ compat words pu f (mkEnv [] ext jor) s v <> OutOfFuel).
Proof. exact c10_usable_ext. Qed.
Print Assumptions C10_usable_applied_namespaces.

(* the scope of C10_scope_foreign_ref_refuted, and a one-of with a member in another namespace: accepted by
   UnserializeScope, and with the namespace applied every hypothesis holds and values are accepted *)
Example C10_applied_namespaces_satisfiable :
  forallb (fun dv : gval * gval =>
             match rebuild x_words x_pu x_cu x_rp x_jor (fst dv) with
             | Ok s =>
                 foreign_refs s
                 && all_env use_local (mkEnv [] u_other_ns x_jor) && all_nodes ext_ok (mkEnv [] u_other_ns x_jor) s
                 && no_inline_cycle (mkEnv [] u_other_ns x_jor) s
                 && defaults_total x_words x_pu 20 (mkEnv [] u_other_ns x_jor) s
                 && is_ok (unser x_words x_pu (fuel_bound 20 (mkEnv [] u_other_ns x_jor) s (snd dv))
                                 (mkEnv [] u_other_ns x_jor) s (snd dv))
             | _ => false
             end)
          [(u_foreign, VMap t_str_map false [(vstr "x", VMap t_str_map false [(vstr "n", vi64 1)])]);
           (u_foreign_member,
            VMap t_str_map false [(vstr "x", VMap t_str_map false [(vstr "kind", vstr "b"); (vstr "n", vi64 1)])])] = true.
Proof. vm_compute. reflexivity. Qed.

(* the loader does not (cannot) check a one-of member whose namespace is not applied: the same one-of is accepted
   although, once "other" is applied, member "b" declares the discriminator field of a one-of that is not inlined *)
Theorem C10_foreign_member_accepted :
  forall (words : list (string * bool)) (pu : units -> string -> option fl) (cu : units) (rp : string -> option re)
         (jor : oracles),
  exists s, rebuild words pu cu rp jor u_foreign_member = Ok s /\ c10_wf jor s = true /\
            all_nodes ext_ok (mkEnv [] u_other_ns_bad jor) s = false /\
            all_nodes ext_ok (mkEnv [] u_other_ns jor) s = true.
Proof. exact c10_foreign_member_accepted. Qed.
Print Assumptions C10_foreign_member_accepted.

(* ---- unit names are taken literally ----
   The meta-schema puts no constraint on unit names, and the loader accepts any.  The model's unit parser is built
   from `lit name` for each of the eight names (Schema/Units.v mult_part / base_part: what regexp.QuoteMeta achieves
   in updateReCache), so there is no compilation step that could fail on use: C10_usable covers every name.  An
   instance whose names are not valid regular expressions on their own (unbalanced group / class, dangling
   repetition, trailing backslash), in base and multiplier, short and long, singular and plural positions: *)
From Coq Require Import List ZArith String.
Import ListNotations.
Definition c10_meta_units : units :=
  mkUnits (mkUnit "B" "B(" "byte)" "[bytes")
          [(1024%Z, mkUnit "?kB" "k*B" "kilobyte\" "kilobyte(s)(")].
Example C10_unit_names_literal_example :
  wf_units c10_meta_units = true /\
  parse_units_int c10_meta_units "5" = Some 5%Z /\
  parse_units_int c10_meta_units "2kilobyte(s)(" = Some 2048%Z /\
  parse_units_int c10_meta_units "2 kilobyte\ 3[bytes" = Some 2051%Z /\
  parse_units_int c10_meta_units "1k*B 1B(" = Some 1025%Z /\
  parse_units_int c10_meta_units "1?kB1byte)" = Some 1025%Z /\
  parse_units_int c10_meta_units "2kilobytes" = None /\
  parse_units_int c10_meta_units "1kkB" = None.
Proof. vm_compute. repeat split; reflexivity. Qed.
