(* Properties/C10.v — a schema received from a plugin is rejected with an error or fully usable.
   Statements only; proofs in Proofs/C10Total.v.  Model: Schema/Describe.v (`rebuild` = UnserializeScope,
   `rebuild_plugin` = UnserializeSchema / Client.ReadSchema, as they are after the fixes for D30, D31, D32,
   D40), tied to the SDK by the family c10mutants on every run.

   How this composes with C04 (another work package: "wf => every operation is total"): c10_wf is the
   part of well-formedness that a description from the wire can violate — roots, self-namespace
   references, one-of members against the inline flag, decodable defaults — stated over the same
   resolution environment (Syntax.resolve / env_enter) that Ops.v uses, so that the Panic branches of
   Ops.v ("unlinked reference", "root object not found") are unreachable on an accepted schema.  The
   remaining conjuncts of C04's wf (unique keys of the association lists, map key kinds, patterns that
   compile) hold by construction of `parse`: maps are built with replace-or-append, map keys are read by
   parse_key (integer / string only), patterns are accepted only when regexp.Compile succeeds. *)
From Verif Require Import Base.Prelude Base.Str Base.Float Base.GoVal
  Schema.Regex Schema.Units Schema.Syntax Schema.Ops Schema.Describe Proofs.C10Total.
Open Scope string_scope.

(* UnserializeScope: for EVERY decoded value, with every behaviour of the recorded libraries
   (boolean words, unit parser, regexp.Compile, encoding/json) *)
Theorem C10_total :
  forall (words : list (string * bool)) (pu : units -> string -> option fl) (cu : units)
         (rp : string -> option re) (jor : oracles) (d : gval),
  match rebuild words pu cu rp jor d with
  | Panic _ | OutOfFuel => False
  | Err _ => True
  | Ok s => c10_wf jor s = true
  end.
Proof. exact rebuild_total. Qed.
Print Assumptions C10_total.

(* UnserializeSchema / Client.ReadSchema: every step input, output and signal data schema of an accepted
   plugin schema is well-formed and has no reference left unlinked *)
Theorem C10_total_plugin :
  forall (words : list (string * bool)) (pu : units -> string -> option fl) (cu : units)
         (rp : string -> option re) (jor : oracles) (d : gval),
  match rebuild_plugin words pu cu rp jor d with
  | Panic _ | OutOfFuel => False
  | Err _ => True
  | Ok p => forallb (c10_wf jor) (plugin_scopes p) = true /\ existsb foreign_refs (plugin_scopes p) = false
  end.
Proof. exact rebuild_plugin_total. Qed.
Print Assumptions C10_total_plugin.

(* ---- instances: both the accepting and the rejecting branch are inhabited ---- *)
Definition x_words : list (string * bool) := [("true", true); ("false", false)].
Definition x_pu : units -> string -> option fl := fun _ _ => None.
Definition x_cu : units := mkUnits (mkUnit "char" "chars" "character" "characters") [].
Definition x_rp : string -> option re := fun _ => None.
Definition x_jor : oracles := mkOracles (fun txt => if String.eqb txt "5" then Some (vi64 5) else None) (fun _ => false).

Definition x_obj (id : string) (props : list (gval * gval)) : gval :=
  dobj [("id", vstr id); ("properties", dmap props)].
Definition x_prop (t : gval) : gval := dobj [("type", t)].
Definition x_ref (id : string) : gval := dobj [("type_id", vstr "ref"); ("id", vstr id)].
Definition x_scope (root : string) (objs : list (gval * gval)) : gval :=
  dobj [("objects", dmap objs); ("root", vstr root)].

(* a recursive scope with a reference that resolves: accepted, and well-formed *)
Definition x_good : gval :=
  x_scope "A" [(vstr "A", x_obj "A" [(vstr "next", x_prop (x_ref "A")); (vstr "b", x_prop (x_ref "B"))]);
               (vstr "B", x_obj "B" [])].
Example C10_total_accepts :
  match rebuild x_words x_pu x_cu x_rp x_jor x_good with Ok s => c10_wf x_jor s | _ => false end = true.
Proof. vm_compute. reflexivity. Qed.

(* the D32 witnesses: a dangling reference, a root that names no object, an object stored under another
   key than its id, a default that is not JSON, a one-of member without the inlined discriminator —
   each is rejected by the loader ... *)
Definition x_dangling : gval := x_scope "A" [(vstr "A", x_obj "A" [(vstr "a", x_prop (x_ref "Missing"))])].
Definition x_noroot : gval := x_scope "Nope" [(vstr "A", x_obj "A" [])].
Definition x_wrongkey : gval := x_scope "K" [(vstr "K", x_obj "A" [])].
Definition x_baddefault : gval :=
  x_scope "A" [(vstr "A", x_obj "A" [(vstr "a", dobj [("type", dobj [("type_id", vstr "integer")]); ("default", vstr "{")])])].
Definition x_oneof : gval :=
  x_scope "A" [(vstr "A", x_obj "A" [(vstr "a", x_prop (dobj [("type_id", vstr "one_of_string");
                   ("discriminator_field_name", vstr "k"); ("discriminator_inlined", vbool true);
                   ("types", dmap [(vstr "x", x_ref "B")])]))]);
               (vstr "B", x_obj "B" [])].
Example C10_total_rejects :
  forallb (fun d => is_err (rebuild x_words x_pu x_cu x_rp x_jor d))
          [x_dangling; x_noroot; x_wrongkey; x_baddefault; x_oneof; VNil; vstr "garbage"; dmap [(vi64 1, VNil)]] = true.
Proof. vm_compute. reflexivity. Qed.

(* ... and each was accepted by the loader as it was before the fixes (no link step in
   UnserializeScope), yielding a schema that is not well-formed; on the first of them the model of
   Unserialize reaches its Panic branch, which is the panic observed on the unchanged tree (D30/D32). *)
Theorem C10_prefix_refuted :
  forallb (fun d => match rebuild_prefix x_words x_pu x_cu x_rp d with
                    | Ok s => negb (c10_wf x_jor s)
                    | _ => false
                    end)
          [x_dangling; x_noroot; x_wrongkey; x_baddefault; x_oneof] = true
  /\ match rebuild_prefix x_words x_pu x_cu x_rp x_dangling with
     | Ok s => is_panic (unser x_words x_pu 20 (mkEnv [] [] x_jor) s
                           (VMap t_any_map false [(vstr "a", VMap t_any_map false [])]))
     | _ => false
     end = true.
Proof. split; vm_compute; reflexivity. Qed.
Print Assumptions C10_prefix_refuted.
