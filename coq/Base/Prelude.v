(* Base/Prelude.v — outcomes, error descriptors, small list/option helpers.
   Executable model only: no proofs here (proofs live under Proofs/). *)
From Coq Require Export List ZArith Ascii String Bool.
Export ListNotations.
Open Scope Z_scope.

(* What a Go call can do: return a value, return an error, panic, or (model only)
   run out of recursion fuel.  OutOfFuel never denotes a Go behaviour: theorems
   exclude it by exhibiting a sufficient fuel. *)
Inductive eclass :=
| EBound      (* numeric / length / size bound violated *)
| ERepr       (* the value has no reading in the schema's type *)
| EEnum       (* not an enumerated value *)
| EPattern    (* pattern mismatch / invalid pattern *)
| EKey        (* undeclared or non-string key, unknown discriminator *)
| EPresence   (* required / required_if / required_if_not / conflicts *)
| EDisabled   (* disabled property in use *)
| EOther.

Record err := mkErr {
  e_constraint : bool;          (* errors.As(err, *ConstraintError) succeeds *)
  e_path : list string;         (* ConstraintError.Path ([] when not a constraint error) *)
  e_class : eclass }.

Inductive outcome (A : Type) :=
| Ok (a : A) | Err (e : err) | Panic (why : string) | OutOfFuel.
Arguments Ok {A}. Arguments Err {A}. Arguments Panic {A}. Arguments OutOfFuel {A}.

Definition cerr (c : eclass) : err := mkErr true [] c.       (* &ConstraintError{} *)
Definition perr (c : eclass) : err := mkErr false [] c.      (* fmt.Errorf / other error types *)
Definition cerr_at (p : list string) (c : eclass) : err := mkErr true p c.

(* ConstraintErrorAddPathSegment *)
Definition add_seg (seg : string) (e : err) : err :=
  if e_constraint e then mkErr true (seg :: e_path e) (e_class e) else e.

Definition bind {A B} (o : outcome A) (f : A -> outcome B) : outcome B :=
  match o with Ok a => f a | Err e => Err e | Panic w => Panic w | OutOfFuel => OutOfFuel end.
Notation "x <- o ;; k" := (bind o (fun x => k)) (at level 61, o at next level, right associativity).

Definition map_err {A} (f : err -> err) (o : outcome A) : outcome A :=
  match o with Err e => Err (f e) | x => x end.

Definition is_ok {A} (o : outcome A) : bool := match o with Ok _ => true | _ => false end.
Definition is_err {A} (o : outcome A) : bool := match o with Err _ => true | _ => false end.
Definition is_panic {A} (o : outcome A) : bool := match o with Panic _ => true | _ => false end.

Fixpoint mapM {A B} (f : A -> outcome B) (l : list A) : outcome (list B) :=
  match l with
  | [] => Ok []
  | x :: t => y <- f x ;; ys <- mapM f t ;; Ok (y :: ys)
  end.

(* mapM with the element index (for "[i]" path segments) *)
Fixpoint mapMi {A B} (f : Z -> A -> outcome B) (i : Z) (l : list A) : outcome (list B) :=
  match l with
  | [] => Ok []
  | x :: t => y <- f i x ;; ys <- mapMi f (i + 1) t ;; Ok (y :: ys)
  end.

Fixpoint forM_ {A} (f : A -> outcome unit) (l : list A) : outcome unit :=
  match l with
  | [] => Ok tt
  | x :: t => _ <- f x ;; forM_ f t
  end.

Definition ole (a : option Z) (b : Z) : bool := match a with None => true | Some x => x <=? b end.
Definition oge (a : option Z) (b : Z) : bool := match a with None => true | Some x => b <=? x end.

Fixpoint alookup {A} (k : string) (l : list (string * A)) : option A :=
  match l with
  | [] => None
  | (k', v) :: t => if String.eqb k k' then Some v else alookup k t
  end.

Fixpoint zlookup {A} (k : Z) (l : list (Z * A)) : option A :=
  match l with
  | [] => None
  | (k', v) :: t => if Z.eqb k k' then Some v else zlookup k t
  end.

Definition amem {A} (k : string) (l : list (string * A)) : bool :=
  match alookup k l with Some _ => true | None => false end.

Fixpoint str_in (s : string) (l : list string) : bool :=
  match l with [] => false | x :: t => String.eqb s x || str_in s t end.

Fixpoint nodup_str (l : list string) : bool :=
  match l with [] => true | x :: t => negb (str_in x t) && nodup_str t end.

(* int64 / uint64 ranges *)
Definition min_i64 : Z := - 9223372036854775808.
Definition max_i64 : Z := 9223372036854775807.
Definition max_u64 : Z := 18446744073709551615.
Definition two64 : Z := 18446744073709551616.
Definition in_i64 (z : Z) : bool := (min_i64 <=? z) && (z <=? max_i64).

(* two's complement wrap-around of an arbitrary integer into int64 *)
Definition wrap_i64 (z : Z) : Z :=
  let m := z mod two64 in if m <=? max_i64 then m else m - two64.
