(* Base/Float.v — IEEE-754 binary64/binary32 values as exact dyadic rationals, with the few
   operations the SDK performs on them: comparison, int <-> float conversion (amd64
   semantics for out-of-range float -> int64), fmt "%f", and strconv.ParseFloat on the
   decimal subset.  No primitive floats, no real-number axioms. *)
From Verif Require Import Base.Prelude Base.Str.

Inductive fl :=
| FNaN
| FInf (neg : bool)
| FZero (neg : bool)
| FFin (neg : bool) (m : positive) (e : Z).     (* (-1)^neg * m * 2^e *)

(* canonical form: m odd *)
Fixpoint strip_pos (fuel : nat) (m : positive) (e : Z) : positive * Z :=
  match fuel with
  | O => (m, e)
  | S f => match m with xO m' => strip_pos f m' (e + 1) | _ => (m, e) end
  end.
Definition fnorm (x : fl) : fl :=
  match x with
  | FFin s m e => let '(m', e') := strip_pos (Pos.to_nat (Pos.size m)) m e in FFin s m' e'
  | _ => x
  end.

(* exact comparison of finite magnitudes m1*2^e1 ? m2*2^e2 *)
Definition mag_cmp (m1 : positive) (e1 : Z) (m2 : positive) (e2 : Z) : comparison :=
  let e := Z.min e1 e2 in
  Z.compare (Zpos m1 * 2 ^ (e1 - e)) (Zpos m2 * 2 ^ (e2 - e)).

(* IEEE comparison; None = unordered (a NaN is involved). +0 = -0. *)
Definition fcmp (a b : fl) : option comparison :=
  match a, b with
  | FNaN, _ | _, FNaN => None
  | FInf s1, FInf s2 => Some (if Bool.eqb s1 s2 then Eq else if s1 then Lt else Gt)
  | FInf s, _ => Some (if s then Lt else Gt)
  | _, FInf s => Some (if s then Gt else Lt)
  | FZero _, FZero _ => Some Eq
  | FZero _, FFin s _ _ => Some (if s then Gt else Lt)
  | FFin s _ _, FZero _ => Some (if s then Lt else Gt)
  | FFin s1 m1 e1, FFin s2 m2 e2 =>
      Some (match s1, s2 with
            | false, true => Gt
            | true, false => Lt
            | false, false => mag_cmp m1 e1 m2 e2
            | true, true => mag_cmp m2 e2 m1 e1
            end)
  end.
Definition flt (a b : fl) : bool := match fcmp a b with Some Lt => true | _ => false end.   (* a < b *)
Definition fle (a b : fl) : bool := match fcmp a b with Some Lt | Some Eq => true | _ => false end.
Definition feq (a b : fl) : bool := match fcmp a b with Some Eq => true | _ => false end.   (* a == b *)

(* ---- rounding a non-negative dyadic num*2^ex (plus sticky information) to p bits ---- *)

(* binary64: p=53, exponent of the least subnormal = -1074, overflow at 2^1024;
   binary32: p=24, -149, 2^128 *)
Record fmt := mkFmt { f_p : Z; f_emin : Z; f_emax : Z }.
Definition b64 : fmt := mkFmt 53 (-1074) 1024.
Definition b32 : fmt := mkFmt 24 (-149) 128.

(* nearest representable value (ties to even) of (-1)^neg * n * 2^ex, n >= 0; sticky: the
   exact value has further non-zero bits below n*2^ex (callers supply n with more than
   f_p + 2 bits in that case) *)
Definition fround (f : fmt) (neg : bool) (n : Z) (ex : Z) (sticky : bool) : fl :=
  if n <=? 0 then FZero neg
  else
    let sz := Z.log2 n + 1 in
    let q := Z.max (ex + sz - f_p f) (f_emin f) in      (* exponent of the rounding quantum *)
    if q <=? ex then
      if f_emax f <? ex + sz then FInf neg else fnorm (FFin neg (Z.to_pos n) ex)
    else
      let sh := q - ex in
      let qt := Z.shiftr n sh in
      let r := n - Z.shiftl qt sh in
      let half := Z.shiftl 1 (sh - 1) in
      let up := if r <? half then false
                else if half <? r then true
                else if sticky then true else Z.odd qt in
      let m := if up then qt + 1 else qt in
      if m =? 0 then FZero neg
      else if f_emax f <? q + (Z.log2 m + 1) then FInf neg
      else fnorm (FFin neg (Z.to_pos m) q).

(* float64(int64 / uint64) *)
Definition fl_of_Z (f : fmt) (z : Z) : fl :=
  if z =? 0 then FZero false else fround f (z <? 0) (Z.abs z) 0 false.

(* float32 -> float64 and back *)
Definition fl_cast (f : fmt) (x : fl) : fl :=
  match x with FFin s m e => fround f s (Zpos m) e false | _ => x end.

(* exact integer value of an integral finite float *)
Definition fl_int_value (x : fl) : option Z :=
  match fnorm x with
  | FZero _ => Some 0
  | FFin s m e => if 0 <=? e then Some ((if s then -1 else 1) * Zpos m * 2 ^ e) else None
  | _ => None
  end.

(* Go on amd64: int64(f) truncates toward zero; NaN and out-of-range give -2^63 *)
Definition fl_trunc_i64 (x : fl) : Z :=
  match x with
  | FNaN | FInf _ => min_i64
  | FZero _ => 0
  | FFin s m e =>
      let a := if 0 <=? e then Zpos m * 2 ^ e else Z.shiftr (Zpos m) (- e) in
      let v := if s then - a else a in
      if in_i64 v then v else min_i64
  end.

(* the SDK's test `v == float64(int64(v))`: integral and inside [-2^63, 2^63) *)
Definition fl_to_i64_exact (x : fl) : option Z :=
  match fl_int_value x with
  | Some v => if in_i64 v then Some v else None
  | None => None
  end.

(* ---- fmt.Sprintf("%f", x): exact decimal rendering, 6 fraction digits, ties to even ---- *)

Definition pad6 (l : list ascii) : list ascii :=
  repeat "0"%char (6 - List.length l) ++ l.

Definition fmt_f (x : fl) : string :=
  match x with
  | FNaN => "NaN"
  | FInf s => if s then "-Inf" else "+Inf"
  | FZero s => if s then "-0.000000" else "0.000000"
  | FFin s m e =>
      (* v = m*2^e ; scaled = v * 10^6 rounded half-even *)
      let n := Zpos m * 1000000 in
      let q :=
        if 0 <=? e then n * 2 ^ e
        else
          let d := 2 ^ (- e) in
          let q0 := n / d in
          let r := n - q0 * d in
          let c := Z.compare (2 * r) d in
          match c with Lt => q0 | Gt => q0 + 1 | Eq => if Z.odd q0 then q0 + 1 else q0 end in
      let ip := q / 1000000 in
      let fp := q mod 1000000 in
      ((if s then "-" else "") ++ unchars (nat_digits ip) ++ "." ++ unchars (pad6 (nat_digits fp)))%string
  end.

(* ---- strconv.ParseFloat(s, 64), decimal subset:
        [+-]? ( digits [. digits?]? | . digits ) ( [eE] [+-]? digits )?  |  [+-]? (inf|infinity|nan)
   (hexadecimal floats and digit-separating underscores are outside the modelled subset).
   None = error (syntax, or out of range: the result would be +-Inf). ---- *)

Fixpoint take_digits (l : list ascii) : list ascii * list ascii :=
  match l with
  | c :: t => if is_digit c then let '(d, r) := take_digits t in (c :: d, r) else ([], l)
  | [] => ([], [])
  end.

Definition lower_chars (l : list ascii) : list ascii := map lower_ascii l.
Definition chars_eq (a : list ascii) (b : string) : bool := String.eqb (unchars a) b.

(* nearest double of (-1)^neg * d * 10^k *)
Definition dec_to_fl (f : fmt) (neg : bool) (d : Z) (k : Z) : fl :=
  if d =? 0 then FZero neg
  else if 0 <=? k then
    (* huge exponents: anything above 10^400 overflows; cap to keep numbers small *)
    if 400 <? k then FInf neg else fround f neg (d * 10 ^ k) 0 false
  else
    if 800 <? - k - (Z.log2 d + 1) then FZero neg      (* far below the least subnormal *)
    else
      let den := 10 ^ (- k) in
      (* want about 70 significant bits of the quotient *)
      let sh := Z.max 0 (70 + Z.log2 den - Z.log2 d) in
      let num := Z.shiftl d sh in
      let q := num / den in
      let r := num - q * den in
      fround f neg q (- sh) (negb (r =? 0)).

Definition parse_float (s : string) : option fl :=
  let l := chars s in
  let '(neg, l1) :=
    match l with
    | c :: t => if Ascii.eqb c "-"%char then (true, t)
                else if Ascii.eqb c "+"%char then (false, t) else (false, l)
    | [] => (false, [])
    end in
  let low := lower_chars l1 in
  if chars_eq low "inf" || chars_eq low "infinity" then Some (FInf neg)
  else if chars_eq low "nan" then Some FNaN
  else
    let '(ip, r1) := take_digits l1 in
    let '(fp, r2, had_dot) :=
      match r1 with
      | c :: t => if Ascii.eqb c "."%char then let '(fp, r2) := take_digits t in (fp, r2, true)
                  else ([], r1, false)
      | [] => ([], [], false)
      end in
    match ip, fp with
    | [], [] => None
    | _, _ =>
        let mant := digits_val (ip ++ fp) in
        let k0 := - Z.of_nat (List.length fp) in
        let finish (k : Z) :=
          match dec_to_fl b64 neg mant k with
          | FInf _ => None          (* ErrRange *)
          | x => Some x
          end in
        match r2 with
        | [] => finish k0
        | c :: t =>
            if Ascii.eqb (lower_ascii c) "e"%char then
              let '(eneg, t1) :=
                match t with
                | c2 :: t2 => if Ascii.eqb c2 "-"%char then (true, t2)
                              else if Ascii.eqb c2 "+"%char then (false, t2) else (false, t)
                | [] => (false, [])
                end in
              let '(ed, r3) := take_digits t1 in
              match ed, r3 with
              | _ :: _, [] =>
                  let ev := digits_val ed in
                  let ev := if 100000 <? ev then 100000 else ev in
                  finish (k0 + (if eneg then - ev else ev))
              | _, _ => None
              end
            else None
        end
    end.
