(* Base/GoVal.v — the universe of Go values an `any` can hold, as far as the SDK can tell
   them apart, and the fragment of package reflect it uses on them. *)
From Verif Require Import Base.Prelude Base.Str Base.Float.

Inductive ikind := I0 | I8 | I16 | I32 | I64 | U0 | U8 | U16 | U32 | U64.   (* int ... uint64 *)

Inductive gtype :=
| TBool | TInt (k : ikind) | TF32 | TF64 | TStr | TAny
| TNamed (name : string) (under : gtype)          (* type MyStr string, time.Duration, ... *)
| TSlice (e : gtype) | TMap (k v : gtype) | TPtr (e : gtype)
| TStruct (name : string)                         (* struct types, by name *)
| TRegexp                                         (* *regexp.Regexp *)
| TOpaque (desc : string).                        (* chan, func, array, cbor.Tag, big.Int ... *)

Inductive okind := OStruct | OPtr | OChan | OFunc | OArray | OComplex | OUintptr | OUnsafePtr.

Inductive gval :=
| VNil                                             (* the nil interface *)
| VBool (t : gtype) (b : bool)
| VInt (t : gtype) (z : Z)
| VFloat (t : gtype) (f : fl)
| VStr (t : gtype) (s : string)
| VSlice (t : gtype) (isnil : bool) (l : list gval)        (* t: the slice type *)
| VMap (t : gtype) (isnil : bool) (l : list (gval * gval))  (* t: the map type; unique keys *)
| VPtr (t : gtype) (o : option gval)               (* t: the pointer type; None = typed nil *)
| VStruct (t : gtype) (fs : list (string * gval))
| VRegexp (src : string)                           (* non-nil *regexp.Regexp *)
| VOpaque (k : okind) (desc : string).

Fixpoint underlying (t : gtype) : gtype :=
  match t with TNamed _ u => underlying u | _ => t end.

Definition is_named (t : gtype) : bool := match t with TNamed _ _ => true | _ => false end.

Fixpoint gtype_eqb (a b : gtype) : bool :=
  match a, b with
  | TBool, TBool | TF32, TF32 | TF64, TF64 | TStr, TStr | TAny, TAny | TRegexp, TRegexp => true
  | TInt k1, TInt k2 => match k1, k2 with
                        | I0, I0 | I8, I8 | I16, I16 | I32, I32 | I64, I64
                        | U0, U0 | U8, U8 | U16, U16 | U32, U32 | U64, U64 => true
                        | _, _ => false end
  | TNamed n1 u1, TNamed n2 u2 => String.eqb n1 n2 && gtype_eqb u1 u2
  | TSlice e1, TSlice e2 => gtype_eqb e1 e2
  | TMap k1 v1, TMap k2 v2 => gtype_eqb k1 k2 && gtype_eqb v1 v2
  | TPtr e1, TPtr e2 => gtype_eqb e1 e2
  | TStruct n1, TStruct n2 => String.eqb n1 n2
  | TOpaque d1, TOpaque d2 => String.eqb d1 d2
  | _, _ => false
  end.

(* reflect.Kind, as far as the SDK distinguishes *)
Inductive kind :=
| KInvalid | KBool | KInt (k : ikind) | KF32 | KF64 | KString | KSlice | KMap | KPtr | KStruct
| KInterface | KOther.

Definition kind_of_type (t : gtype) : kind :=
  match underlying t with
  | TBool => KBool | TInt k => KInt k | TF32 => KF32 | TF64 => KF64 | TStr => KString
  | TAny => KInterface | TSlice _ => KSlice | TMap _ _ => KMap | TPtr _ => KPtr
  | TStruct _ => KStruct | TRegexp => KPtr | TOpaque _ => KOther | TNamed _ _ => KOther
  end.

Definition kind_of (v : gval) : kind :=
  match v with
  | VNil => KInvalid
  | VBool t _ | VInt t _ | VFloat t _ | VStr t _ | VSlice t _ _ | VMap t _ _ | VPtr t _ | VStruct t _ =>
      kind_of_type t
  | VRegexp _ => KPtr
  | VOpaque OStruct _ => KStruct
  | VOpaque OPtr _ => KPtr
  | VOpaque _ _ => KOther
  end.

Definition type_of (v : gval) : option gtype :=
  match v with
  | VNil => None
  | VBool t _ | VInt t _ | VFloat t _ | VStr t _ | VSlice t _ _ | VMap t _ _ | VPtr t _ | VStruct t _ => Some t
  | VRegexp _ => Some TRegexp
  | VOpaque _ d => Some (TOpaque d)
  end.

Definition is_kint (k : kind) : bool := match k with KInt _ => true | _ => false end.
Definition is_knum (k : kind) : bool := match k with KInt _ | KF32 | KF64 => true | _ => false end.

(* range of an integer kind (int/uint are 64-bit on the platforms the SDK supports) *)
Definition ik_signed (k : ikind) : bool := match k with I0 | I8 | I16 | I32 | I64 => true | _ => false end.
Definition ik_bits (k : ikind) : Z :=
  match k with I8 | U8 => 8 | I16 | U16 => 16 | I32 | U32 => 32 | _ => 64 end.
Definition ik_min (k : ikind) : Z := if ik_signed k then - 2 ^ (ik_bits k - 1) else 0.
Definition ik_max (k : ikind) : Z := if ik_signed k then 2 ^ (ik_bits k - 1) - 1 else 2 ^ (ik_bits k) - 1.
Definition ik_in (k : ikind) (z : Z) : bool := (ik_min k <=? z) && (z <=? ik_max k).

(* the native representations the SDK produces *)
Definition vi64 (z : Z) : gval := VInt (TInt I64) z.
Definition vf64 (f : fl) : gval := VFloat TF64 f.
Definition vstr (s : string) : gval := VStr TStr s.
Definition vbool (b : bool) : gval := VBool TBool b.
Definition t_any_slice : gtype := TSlice TAny.
Definition t_any_map : gtype := TMap TAny TAny.
Definition t_str_map : gtype := TMap TStr TAny.

(* ---- rune -> UTF-8 (reflect's int -> string conversion) ---- *)
Definition utf8_of_rune (r : Z) : list ascii :=
  let bad := [chrz 239; chrz 191; chrz 189] in        (* U+FFFD *)
  if (r <? 0) || (1114111 <? r) || ((55296 <=? r) && (r <=? 57343)) then bad
  else if r <? 128 then [chrz r]
  else if r <? 2048 then [chrz (192 + r / 64); chrz (128 + r mod 64)]
  else if r <? 65536 then [chrz (224 + r / 4096); chrz (128 + (r / 64) mod 64); chrz (128 + r mod 64)]
  else [chrz (240 + r / 262144); chrz (128 + (r / 4096) mod 64); chrz (128 + (r / 64) mod 64); chrz (128 + r mod 64)].

(* ---- reflect.Value.Convert to int64 / float64 / string / bool, with CanConvert ---- *)

(* v.CanConvert(int64) && v.Convert(int64).Int() *)
Definition conv_int64 (v : gval) : option Z :=
  match v with
  | VInt _ z => Some (wrap_i64 z)
  | VFloat _ f => Some (fl_trunc_i64 f)
  | _ => None
  end.

Definition conv_float64 (v : gval) : option fl :=
  match v with
  | VInt _ z => Some (fl_of_Z b64 z)
  | VFloat _ f => Some f                                  (* float32 -> float64 is exact *)
  | _ => None
  end.

Definition elem_is (t : gtype) (k : ikind) : bool :=
  match underlying t with TSlice (TInt k') => match k, k' with U8, U8 | I32, I32 => true | _, _ => false end | _ => false end.

Definition conv_string (v : gval) : option string :=
  match v with
  | VStr _ s => Some s
  | VInt t z =>
      (* string(rune(z)) when z fits a rune, else U+FFFD — utf8_of_rune covers both *)
      Some (unchars (utf8_of_rune z))
  | VSlice t _ l =>
      if elem_is t U8 then
        Some (unchars (map (fun x => match x with VInt _ z => chrz z | _ => chrz 0 end) l))
      else if elem_is t I32 then
        Some (unchars (flat_map (fun x => match x with VInt _ z => utf8_of_rune z | _ => [] end) l))
      else None
  | _ => None
  end.

Definition conv_bool (v : gval) : option bool :=
  match v with VBool _ b => Some b | _ => None end.

(* ---- equality of native values up to map-entry order (for the round-trip statements) ---- *)

Definition fl_same (a b : fl) : bool :=
  match a, b with
  | FNaN, FNaN => true
  | FInf s1, FInf s2 => Bool.eqb s1 s2
  | FZero s1, FZero s2 => Bool.eqb s1 s2
  | FFin s1 m1 e1, FFin s2 m2 e2 =>
      Bool.eqb s1 s2 && match mag_cmp m1 e1 m2 e2 with Eq => true | _ => false end
  | _, _ => false
  end.
