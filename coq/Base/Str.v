(* Base/Str.v — byte strings, decimal rendering and strconv.ParseInt(s, 10, 64). *)
From Verif Require Import Base.Prelude.

Definition chars (s : string) : list ascii := list_ascii_of_string s.
Definition unchars (l : list ascii) : string := string_of_list_ascii l.

Definition zchr (c : ascii) : Z := Z.of_N (N_of_ascii c).
Definition chrz (z : Z) : ascii := ascii_of_N (Z.to_N z).

Definition is_digit (c : ascii) : bool := let n := zchr c in (48 <=? n) && (n <=? 57).
Definition digit_val (c : ascii) : Z := zchr c - 48.
Definition digit_chr (d : Z) : ascii := chrz (48 + d).

(* Go regexp \s in the default (non-Unicode) mode: [\t\n\f\r ] *)
Definition is_re_space (c : ascii) : bool :=
  let n := zchr c in (n =? 32) || (n =? 9) || (n =? 10) || (n =? 12) || (n =? 13).
(* strings.TrimSpace on ASCII input: \t \n \v \f \r and space *)
Definition is_trim_space (c : ascii) : bool :=
  let n := zchr c in (n =? 32) || ((9 <=? n) && (n <=? 13)).

Definition lower_ascii (c : ascii) : ascii :=
  let n := zchr c in if (65 <=? n) && (n <=? 90) then chrz (n + 32) else c.
Definition to_lower (s : string) : string := unchars (map lower_ascii (chars s)).

(* decimal digits of a non-negative integer, most significant first.
   fuel: number of digits is at most log10 n + 1 <= Z.log2 n + 1 *)
Fixpoint digits_fuel (fuel : nat) (n : Z) (acc : list ascii) : list ascii :=
  match fuel with
  | O => acc
  | S f => let d := digit_chr (n mod 10) in
           if n <? 10 then d :: acc else digits_fuel f (n / 10) (d :: acc)
  end.
Definition nat_digits (n : Z) : list ascii :=
  digits_fuel (S (Z.to_nat (Z.log2 n + 1))) n [].

(* fmt.Sprintf("%d", n) *)
Definition z_to_dec (n : Z) : string :=
  if n <? 0 then String "-"%char (unchars (nat_digits (- n))) else unchars (nat_digits n).

Fixpoint all_digits (l : list ascii) : bool :=
  match l with [] => true | c :: t => is_digit c && all_digits t end.

Definition digits_val (l : list ascii) : Z :=
  fold_left (fun acc c => acc * 10 + digit_val c) l 0.

(* strconv.ParseInt(s, 10, 64): optional sign, at least one digit, digits only,
   result must fit int64.  None = *strconv.NumError. *)
Definition parse_int (s : string) : option Z :=
  let l := chars s in
  let '(neg, ds) :=
    match l with
    | c :: t => if Ascii.eqb c "-"%char then (true, t)
                else if Ascii.eqb c "+"%char then (false, t) else (false, l)
    | [] => (false, [])
    end in
  match ds with
  | [] => None
  | _ => if all_digits ds then
           let v := digits_val ds in
           let r := if neg then - v else v in
           if in_i64 r then Some r else None
         else None
  end.

Fixpoint drop_while (p : ascii -> bool) (l : list ascii) : list ascii :=
  match l with [] => [] | c :: t => if p c then drop_while p t else l end.
(* strings.TrimSpace trims UNICODE white space (unicode.IsSpace) off a UTF-8 byte string, decoding one
   character at a time from the left (utf8.DecodeRuneInString) and then from the right
   (utf8.DecodeLastRuneInString); an invalid or truncated sequence decodes as RuneError, which is not white
   space.  The white-space characters are the six ASCII ones of is_trim_space and
     U+0085 U+00A0                      = C2 85, C2 A0
     U+1680                             = E1 9A 80
     U+2000..U+200A U+2028 U+2029 U+202F = E2 80 80..8A, E2 80 A8, E2 80 A9, E2 80 AF
     U+205F                             = E2 81 9F
     U+3000                             = E3 80 80
   and Go's decoder accepts exactly these (shortest-form) encodings for them, so "the text starts (ends) with
   a white-space character" is "one of these byte sequences is a prefix (suffix)" - checked exhaustively
   against strings.TrimSpace on all byte strings of length <= 3 (in several contexts) and on every code point
   (work package s8u).  NOTE the regular expression's \s (is_re_space) stays ASCII-only and has no \v: an
   OUTER \v / NEL / NBSP / U+3000 is trimmed, an INNER one (between count and unit) is refused. *)
Definition usp2 (c d : ascii) : bool :=
  (zchr c =? 194) && ((zchr d =? 133) || (zchr d =? 160)).
Definition usp3 (c d e : ascii) : bool :=
  let x := zchr c in let y := zchr d in let z := zchr e in
  ((x =? 225) && (y =? 154) && (z =? 128))
  || ((x =? 226) && (((y =? 128) && (((128 <=? z) && (z <=? 138)) || (z =? 168) || (z =? 169) || (z =? 175)))
                     || ((y =? 129) && (z =? 159))))
  || ((x =? 227) && (y =? 128) && (z =? 128)).
(* the same tests with the bytes in REVERSED order (c is the LAST byte of the text) *)
Definition usp2r (c d : ascii) : bool := usp2 d c.
Definition usp3r (c d e : ascii) : bool := usp3 e d c.

(* does l start with a white-space character (q2 / q3: the two- and three-byte tests) *)
Definition head_sp (q2 : ascii -> ascii -> bool) (q3 : ascii -> ascii -> ascii -> bool) (l : list ascii) : bool :=
  match l with
  | [] => false
  | c :: t =>
    if is_trim_space c then true else
    match t with
    | [] => false
    | d :: t1 =>
      if q2 c d then true else
      match t1 with [] => false | e :: _ => q3 c d e end
    end
  end.
(* strings.TrimLeftFunc(l, unicode.IsSpace) *)
Fixpoint strip_sp (q2 : ascii -> ascii -> bool) (q3 : ascii -> ascii -> ascii -> bool) (l : list ascii) : list ascii :=
  match l with
  | [] => []
  | c :: t =>
    if is_trim_space c then strip_sp q2 q3 t else
    match t with
    | [] => l
    | d :: t1 =>
      if q2 c d then strip_sp q2 q3 t1 else
      match t1 with
      | [] => l
      | e :: t2 => if q3 c d e then strip_sp q2 q3 t2 else l
      end
    end
  end.
(* one white-space character, encoded *)
Definition is_sp_enc (q2 : ascii -> ascii -> bool) (q3 : ascii -> ascii -> ascii -> bool) (r : list ascii) : bool :=
  match r with
  | [c] => is_trim_space c
  | [c; d] => q2 c d
  | [c; d; e] => q3 c d e
  | _ => false
  end.
Definition is_uspace_enc : list ascii -> bool := is_sp_enc usp2 usp3.

Definition trim_space (s : string) : string :=
  unchars (rev (strip_sp usp2r usp3r (rev (strip_sp usp2 usp3 (chars s))))).

(* strings.TrimRight(s, cutset) *)
Definition trim_right (cut : ascii -> bool) (l : list ascii) : list ascii :=
  rev (drop_while cut (rev l)).

Fixpoint contains_chr (c : ascii) (l : list ascii) : bool :=
  match l with [] => false | x :: t => Ascii.eqb x c || contains_chr c t end.

Fixpoint concat_str (l : list string) : string :=
  match l with [] => EmptyString | x :: t => (x ++ concat_str t)%string end.

Fixpoint join_str (sep : string) (l : list string) : string :=
  match l with
  | [] => EmptyString
  | [x] => x
  | x :: t => (x ++ sep ++ join_str sep t)%string
  end.

Fixpoint is_prefix (p l : list ascii) : bool :=
  match p, l with
  | [], _ => true
  | a :: p', b :: l' => Ascii.eqb a b && is_prefix p' l'
  | _ :: _, [] => false
  end.

(* lexicographic byte order on strings (Go's < on strings) *)
Fixpoint str_ltb_l (a b : list ascii) : bool :=
  match a, b with
  | [], [] => false
  | [], _ :: _ => true
  | _ :: _, [] => false
  | x :: a', y :: b' =>
      if zchr x <? zchr y then true else if zchr y <? zchr x then false else str_ltb_l a' b'
  end.
Definition str_ltb (a b : string) : bool := str_ltb_l (chars a) (chars b).
