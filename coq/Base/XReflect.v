(* Base/XReflect.v — the fragment of package reflect the struct-mapped object code uses on
   struct values: zero values, Value.Convert (with the panics that unserializeToStruct
   recovers), FieldByIndex with and without allocation of embedded pointers, DeepEqual.
   Add-only companion of GoVal.v. *)
From Verif Require Import Base.Prelude Base.Str Base.Float Base.GoVal.
Open Scope string_scope.
Open Scope Z_scope.

(* struct type table: exported fields in declaration order *)
Definition xsfields := list (string * gtype).
Definition xstab := list (string * xsfields).

(* reflect.Zero / reflect.New(t).Elem() *)
Fixpoint zero_of (fuel : nat) (st : xstab) (t : gtype) {struct fuel} : gval :=
  match fuel with
  | O => VNil
  | S f =>
    match underlying t with
    | TBool => VBool t false
    | TInt _ => VInt t 0
    | TF32 | TF64 => VFloat t (FZero false)
    | TStr => VStr t ""
    | TAny => VNil
    | TSlice _ => VSlice t true []
    | TMap _ _ => VMap t true []
    | TPtr _ => VPtr t None
    | TRegexp => VPtr TRegexp None
    | TStruct n =>
        match alookup n st with
        | Some fs => VStruct t (map (fun nt => (fst nt, zero_of f st (snd nt))) fs)
        | None => VStruct t []
        end
    | TOpaque d => VOpaque OStruct d
    | TNamed _ _ => VNil
    end
  end.

Definition retag (v : gval) (t : gtype) : gval :=
  match v with
  | VBool _ b => VBool t b | VInt _ z => VInt t z | VFloat _ x => VFloat t x | VStr _ s => VStr t s
  | VSlice _ n l => VSlice t n l | VMap _ n l => VMap t n l | VPtr _ o => VPtr t o | VStruct _ fs => VStruct t fs
  | x => x
  end.

(* conversion of an integer to an integer kind: two's complement truncation *)
Definition wrap_kind (k : ikind) (z : Z) : Z :=
  let m := z mod 2 ^ (ik_bits k) in
  if ik_signed k then (if m <=? ik_max k then m else m - 2 ^ (ik_bits k)) else m.

(* reflect.Value.Convert(t); None = it panics (the value's type is not convertible to t).
   Named struct types are convertible only to themselves here (the struct family has no two
   struct types with identical field lists). *)
Definition xconvert (v : gval) (t : gtype) : option gval :=
  match type_of v with
  | None => None                                   (* the zero Value *)
  | Some tv =>
    if gtype_eqb tv t then Some v else
    match underlying t with
    | TAny => Some v
    | TInt k => match v with
                | VInt _ z => Some (VInt t (wrap_kind k z))
                | VFloat _ x => Some (VInt t (wrap_kind k (fl_trunc_i64 x)))
                | _ => None end
    | TF64 => match v with
              | VInt _ z => Some (VFloat t (fl_of_Z b64 z))
              | VFloat _ x => Some (VFloat t x)
              | _ => None end
    | TF32 => match v with
              | VInt _ z => Some (VFloat t (fl_of_Z b32 z))
              | VFloat _ x => Some (VFloat t (fl_cast b32 x))
              | _ => None end
    | TStr => match v with
              | VStr _ s => Some (VStr t s)
              | VInt _ z => Some (VStr t (unchars (utf8_of_rune z)))
              | VSlice _ _ _ => option_map (VStr t) (conv_string v)
              | _ => None end
    | TBool => match v with VBool _ b => Some (VBool t b) | _ => None end
    | TPtr a => match underlying tv with
                | TPtr b => if gtype_eqb (underlying a) (underlying b) && negb (is_named tv && is_named t)
                            then Some (retag v t) else None
                | _ => None end
    | _ => if gtype_eqb (underlying tv) (underlying t) then Some (retag v t) else None
    end
  end.

Definition elem_type (t : gtype) : gtype := match underlying t with TPtr e => e | _ => t end.
Definition is_ptr_type (t : gtype) : bool := match kind_of_type t with KPtr => true | _ => false end.

(* ---- struct fields by index path ---- *)

Fixpoint nth_field (fs : list (string * gval)) (i : nat) : option gval :=
  match fs, i with
  | (_, v) :: _, O => Some v
  | _ :: t, S j => nth_field t j
  | [], _ => None
  end.
Fixpoint set_nth_field (fs : list (string * gval)) (i : nat) (x : gval) : list (string * gval) :=
  match fs, i with
  | (n, _) :: t, O => (n, x) :: t
  | h :: t, S j => h :: set_nth_field t j x
  | [], _ => []
  end.

(* Value.FieldByIndexErr: a nil embedded pointer on the way is an error (None) *)
Fixpoint get_path (v : gval) (idx : list nat) (first : bool) : option gval :=
  match idx with
  | [] => Some v
  | i :: rest =>
      let sv := if first then Some v
                else match v with VPtr _ None => None | VPtr _ (Some x) => Some x | _ => Some v end in
      match sv with
      | Some (VStruct _ fs) => match nth_field fs i with Some fv => get_path fv rest false | None => None end
      | _ => None
      end
  end.

(* fieldByIndexAlloc + Set: replace the field at the path by (upd old); nil embedded struct pointers on
   the way are allocated *)
Fixpoint set_path (fz : nat) (st : xstab) (v : gval) (idx : list nat) (first : bool) (upd : gval -> option gval) : option gval :=
  match idx with
  | [] => upd v
  | i :: rest =>
      let step (sv : gval) :=
        match sv with
        | VStruct t fs =>
            match nth_field fs i with
            | Some fv => match set_path fz st fv rest false upd with
                         | Some fv' => Some (VStruct t (set_nth_field fs i fv'))
                         | None => None end
            | None => None
            end
        | _ => None
        end in
      if first then step v
      else match v with
           | VPtr t None => option_map (fun s => VPtr t (Some s)) (step (zero_of fz st (elem_type t)))
           | VPtr t (Some x) => option_map (fun s => VPtr t (Some s)) (step x)
           | _ => step v
           end
  end.

(* ---- reflect.DeepEqual ---- *)
Fixpoint deep_equal (fuel : nat) (a b : gval) {struct fuel} : bool :=
  match fuel with
  | O => false
  | S f =>
    match a, b with
    | VNil, VNil => true
    | VBool t1 x, VBool t2 y => gtype_eqb t1 t2 && Bool.eqb x y
    | VInt t1 x, VInt t2 y => gtype_eqb t1 t2 && (x =? y)
    | VFloat t1 x, VFloat t2 y => gtype_eqb t1 t2 && feq x y
    | VStr t1 x, VStr t2 y => gtype_eqb t1 t2 && String.eqb x y
    | VSlice t1 n1 l1, VSlice t2 n2 l2 =>
        gtype_eqb t1 t2 && Bool.eqb n1 n2 && (Nat.eqb (List.length l1) (List.length l2))
        && forallb (fun xy => deep_equal f (fst xy) (snd xy)) (combine l1 l2)
    | VMap t1 n1 l1, VMap t2 n2 l2 =>
        gtype_eqb t1 t2 && Bool.eqb n1 n2 && (Nat.eqb (List.length l1) (List.length l2))
        && forallb (fun kv => existsb (fun kv' => deep_equal f (fst kv) (fst kv') && deep_equal f (snd kv) (snd kv')) l2) l1
    | VPtr t1 None, VPtr t2 None => gtype_eqb t1 t2
    | VPtr t1 (Some x), VPtr t2 (Some y) => gtype_eqb t1 t2 && deep_equal f x y
    | VStruct t1 fs1, VStruct t2 fs2 =>
        gtype_eqb t1 t2 && (Nat.eqb (List.length fs1) (List.length fs2))
        && forallb (fun xy => deep_equal f (snd (fst xy)) (snd (snd xy))) (combine fs1 fs2)
    | VRegexp x, VRegexp y => String.eqb x y
    | _, _ => false
    end
  end.
