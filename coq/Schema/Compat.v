(* Schema/Compat.v — ValidateCompatibility when the argument is a SCHEMA (C15).

   Follows schema/{int,float,string,bool,pattern,enum,list,map,object,property,ref,scope,
   oneof,any}.go path by path, at the tree after the fixes
     D01 (range checks guard the pointers they dereference: int, float, string, map),
     D02 (enum compatibility examines every value),
     D60 (enum compatibility compares the value types of the two enums first),
     D04 (list compatibility compares the size ranges).
   The behaviour before D01 / D02 / D60 is kept as `..._prefix` definitions for the
   `_refuted` witnesses in Proofs/Compat.v.

   The receiver (`s`, with its environment `e1`) is the consumer, the argument (`t`, `e2`)
   the producer: s.ValidateCompatibility(t).  Each side resolves its references in its own
   environment.  Every recursive call moves one level down the unfolding of `s`; the fuel
   bounds exactly that. *)
From Verif Require Import Base.Prelude Base.Str Base.Float Base.GoVal
  Schema.Regex Schema.Units Schema.Syntax Schema.Ops.
Open Scope string_scope.
Open Scope Z_scope.

(* a *XxxSchema handed over as DATA (object.validateRawCompatibility -> Unserialize) *)
Definition c15_schema_ptr : gval := VOpaque OPtr "schema".

(* ---------- range overlap ---------- *)

(* (self.Max != nil && other.Min != nil && *other.Min > *self.Max) ||
   (self.Min != nil && other.Max != nil && *other.Max < *self.Min)          — after D01 *)
Definition c15_excl_Z (smn smx omn omx : option Z) : bool :=
  (match smx, omn with Some sx, Some on => sx <? on | _, _ => false end) ||
  (match smn, omx with Some sn, Some ox => ox <? sn | _, _ => false end).
(* float64 comparisons: false whenever a NaN is involved *)
Definition c15_excl_F (smn smx omn omx : option fl) : bool :=
  (match smx, omn with Some sx, Some on => flt sx on | _, _ => false end) ||
  (match smn, omx with Some sn, Some ox => flt ox sn | _, _ => false end).

(* before D01: the first clause tests self.Min and other.Max and then reads other.Min and
   self.Max; the second tests self.Max and other.Min and reads other.Max and self.Min *)
Definition c15_excl_Z_prefix (smn smx omn omx : option Z) : outcome bool :=
  c1 <- match smn, omx with
        | Some _, Some _ => match omn, smx with
                            | Some on, Some sx => Ok (sx <? on)
                            | _, _ => Panic "nil pointer dereference"
                            end
        | _, _ => Ok false
        end ;;
  if (c1 : bool) then Ok true
  else match smx, omn with
       | Some _, Some _ => match omx, smn with
                           | Some ox, Some sn => Ok (ox <? sn)
                           | _, _ => Panic "nil pointer dereference"
                           end
       | _, _ => Ok false
       end.

(* ---------- enums ---------- *)
Definition c15_dname (d : option display) : option string :=
  match d with Some x => d_name x | None => None end.
(* the switch on the two display values: compatible iff neither names the value or both give
   the same name *)
Definition c15_disp_ok (sd od : option display) : bool :=
  match c15_dname sd, c15_dname od with
  | None, None => true
  | Some a, Some b => String.eqb a b
  | _, _ => false
  end.

Definition c15_enum_int (svals ovals : list (Z * option display)) : outcome unit :=
  forM_ (fun kv => match zlookup (fst kv) svals with
                   | None => Err (cerr EEnum)
                   | Some sd => if c15_disp_ok sd (snd kv) then Ok tt else Err (cerr EEnum)
                   end) ovals.
Definition c15_enum_str (svals ovals : list (string * option display)) : outcome unit :=
  forM_ (fun kv => match alookup (fst kv) svals with
                   | None => Err (cerr EEnum)
                   | Some sd => if c15_disp_ok sd (snd kv) then Ok tt else Err (cerr EEnum)
                   end) ovals.

(* before D02: `return nil` on the first value neither side names *)
Fixpoint c15_enum_str_prefix (svals ovals : list (string * option display)) : outcome unit :=
  match ovals with
  | [] => Ok tt
  | kv :: rest =>
      match alookup (fst kv) svals with
      | None => Err (cerr EEnum)
      | Some sd =>
          match c15_dname sd, c15_dname (snd kv) with
          | None, None => Ok tt                                   (* D02: the rest is never examined *)
          | Some a, Some b => if String.eqb a b then c15_enum_str_prefix svals rest else Err (cerr EEnum)
          | _, _ => Err (cerr EEnum)
          end
      end
  end.
(* before D60: a string enum converts the other enum's integer values to strings (code points) *)
Definition c15_enum_str_of_int_prefix (svals : list (string * option display))
           (ovals : list (Z * option display)) : outcome unit :=
  c15_enum_str svals (map (fun kv => (unchars (utf8_of_rune (fst kv)), snd kv)) ovals).

(* ---------- any: schema.ReflectedType() must not panic ---------- *)
Fixpoint c15_rt_ok (e : env) (t : schema) : bool :=
  match t with
  | SList it _ _ => c15_rt_ok e it
  | SMap k v _ _ => c15_rt_ok e k && c15_rt_ok e v
  | SRef id ns _ => match resolve e id ns with Some _ => true | None => false end
  | SScope objs root => match alookup root objs with Some _ => true | None => false end
  | _ => true
  end.

Definition c15_any (e2 : env) (t : schema) : outcome unit :=
  if c15_rt_ok e2 t then
    match t with
    | SPattern => Err (cerr ERepr)          (* *regexp.Regexp: not in the whitelist *)
    | _ => Ok tt                            (* numbers, strings, bools, slices, maps; any, one-of, object *)
    end
  else Panic "ReflectedType of an unlinked reference".

(* ---------- ConvertToObjectSchema on a schema argument ---------- *)
Inductive c15_conv := CvObj (o : schema) (e : env) | CvNot | CvPanic.
Definition c15_to_object (e : env) (t : schema) : c15_conv :=
  match t with
  | SObject _ _ _ => CvObj t e
  | SRef id ns _ => match resolve e id ns with Some (o, e') => CvObj o e' | None => CvPanic end
  | SScope objs root => match alookup root objs with Some o => CvObj o (env_enter e objs) | None => CvPanic end
  | _ => CvNot
  end.

Section WithTables.
Variable words : list (string * bool).
Variable pu : units -> string -> option fl.

Fixpoint compat_schema (fuel : nat) (e1 : env) (s : schema) (e2 : env) (t : schema) {struct fuel} : outcome unit :=
  match fuel with
  | O => OutOfFuel
  | S f =>
    match s with
    | SInt mn mx _ =>
        match t with
        | SEnumInt _ _ => Ok tt                                  (* "just accept the enums" *)
        | SInt omn omx _ => if c15_excl_Z mn mx omn omx then Err (cerr EBound) else Ok tt
        | _ => Err (cerr ERepr)
        end
    | SFloat mn mx _ =>
        match t with
        | SFloat omn omx _ => if c15_excl_F mn mx omn omx then Err (cerr EBound) else Ok tt
        | _ => Err (cerr ERepr)
        end
    | SString mn mx _ =>
        match t with
        | SEnumStr _ _ => Ok tt
        | SString omn omx _ => if c15_excl_Z mn mx omn omx then Err (cerr EBound) else Ok tt
        | _ => Err (cerr ERepr)
        end
    | SBool => match t with SBool => Ok tt | _ => Err (cerr ERepr) end
    | SPattern => match t with SPattern => Ok tt | _ => Err (cerr ERepr) end
    | SAny => c15_any e2 t
    | SEnumInt vals _ =>
        match t with
        | SEnumInt ovals _ => c15_enum_int vals ovals
        | SEnumStr _ _ => Err (cerr ERepr)                       (* D60: value types differ *)
        | _ => Err (cerr ERepr)                                  (* no EnumSchema field: validated as data *)
        end
    | SEnumStr _ vals =>
        match t with
        | SEnumStr _ ovals => c15_enum_str vals ovals
        | SEnumInt _ _ => Err (cerr ERepr)                       (* D60 *)
        | _ => Err (cerr ERepr)
        end
    | SList it mn mx =>
        match t with
        | SList oit omn omx =>
            if c15_excl_Z mn mx omn omx then Err (cerr EBound)    (* D04 *)
            else compat_schema f e1 it e2 oit
        | _ => Err (cerr ERepr)
        end
    | SMap k v mn mx =>
        match t with
        | SMap ok ov omn omx =>
            _ <- rewrap true (compat_schema f e1 k e2 ok) ;;
            _ <- rewrap true (compat_schema f e1 v e2 ov) ;;
            if c15_excl_Z mn mx omn omx then Err (cerr EBound) else Ok tt
        | _ => Err (cerr ERepr)
        end
    | SObject id unenf props =>
        match c15_to_object e2 t with
        | CvPanic => Panic "unlinked reference / missing root in the argument"
        | CvNot =>
            (* validateRawCompatibility: not a map[string]any, so Unserialize(the schema pointer) *)
            _ <- rewrap true (unser words pu f e1 s c15_schema_ptr) ;; Ok tt
        | CvObj (SObject oid ounenf oprops) eo =>
            if negb ounenf && negb unenf && negb (String.eqb oid id) then Err (cerr EOther)
            else
              (* validateMapTypesCompatibility over the other object's properties *)
              _ <- forM_ (fun np => match alookup (fst np) props with
                                    | None => Err (cerr EKey)
                                    | Some p => seg (fst np) (compat_schema f e1 (p_type p) eo (p_type (snd np)))
                                    end) oprops ;;
              forM_ (fun np => if p_required (snd np) && negb (amem (fst np) oprops)
                               then Err (cerr EPresence) else Ok tt) props
        | CvObj _ _ => Panic "object table entry is not an object"
        end
    | SOneOf types ik field _ =>
        match t with
        | SOneOf otypes oik ofield _ =>
            if negb (Bool.eqb ik oik) then Err (cerr ERepr)       (* OneOfSchema[int64] vs OneOfSchema[string] *)
            else if negb (String.eqb ofield field) then Err (cerr EOther)
            else forM_ (fun km => match find (fun ks => okey_eqb (fst ks) (fst km)) otypes with
                                  | None => Err (cerr EKey)
                                  | Some (_, om) => rewrap true (compat_schema f e1 (snd km) e2 om)
                                  end) types
        | _ => Err (cerr ERepr)
        end
    | SRef id ns _ =>
        match resolve e1 id ns with
        | None => Panic "unlinked reference"
        | Some (o, e1') =>
            match t with
            | SRef id2 ns2 _ =>
                match resolve e2 id2 ns2 with
                | Some (o2, e2') => compat_schema f e1' o e2' o2
                | None => compat words pu f e1' o VNil              (* the nil referencedObjectCache, as data *)
                end
            | _ => compat_schema f e1' o e2 t
            end
        end
    | SScope objs root =>
        match alookup root objs with
        | None => Panic "root object not found"
        | Some o =>
            match t with
            | SScope objs2 root2 =>
                match alookup root2 objs2 with
                | Some o2 => compat_schema f (env_enter e1 objs) o (env_enter e2 objs2) o2
                | None => Panic "nil *ObjectSchema"
                end
            | _ => compat_schema f (env_enter e1 objs) o e2 t
            end
        end
    end
  end.

End WithTables.

(* ---------- well-formedness used by the C15 theorems (boolean, computable) ---------- *)

Definition is_object (s : schema) : bool := match s with SObject _ _ _ => true | _ => false end.
Definition is_objectlike (s : schema) : bool :=
  match s with SObject _ _ _ | SRef _ _ _ | SScope _ _ => true | _ => false end.

Fixpoint nodup_z (l : list Z) : bool :=
  match l with [] => true | x :: t => negb (existsb (Z.eqb x) t) && nodup_z t end.
Fixpoint nodup_okey (l : list okey) : bool :=
  match l with [] => true | x :: t => negb (existsb (okey_eqb x) t) && nodup_okey t end.

Definition range_ok_Z (mn mx : option Z) : bool :=
  match mn, mx with Some a, Some b => a <=? b | _, _ => true end.
Definition range_ok_F (mn mx : option fl) : bool :=
  match mn, mx with Some a, Some b => negb (flt b a) | _, _ => true end.

(* `c15_wf n e s`: the schema unfolds completely within n levels (so: no reference cycle is
   reachable, every reference is linked to an object, every scope has its root), association
   lists have unique keys (they are Go maps), one-of members are object-like and of the one-of's
   key kind, and no range is empty (min <= max). *)
Fixpoint c15_wf (n : nat) (e : env) (s : schema) {struct n} : bool :=
  match n with
  | O => false
  | S m =>
    match s with
    | SInt mn mx _ => range_ok_Z mn mx
    | SFloat mn mx _ => range_ok_F mn mx
    | SString mn mx _ => range_ok_Z mn mx
    | SBool | SPattern | SAny => true
    | SEnumInt vals _ => nodup_z (map fst vals)
    | SEnumStr _ vals => nodup_str (map fst vals)
    | SList it mn mx => range_ok_Z mn mx && c15_wf m e it
    | SMap k v mn mx => range_ok_Z mn mx && c15_wf m e k && c15_wf m e v
    | SObject _ _ props => nodup_str (map fst props) && forallb (fun np => c15_wf m e (p_type (snd np))) props
    | SOneOf types ik _ _ =>
        nodup_okey (map fst types) &&
        forallb (fun km => is_objectlike (snd km) && c15_wf m e (snd km)) types
    | SRef id ns _ => match resolve e id ns with
                      | Some (o, e') => is_object o && c15_wf m e' o
                      | None => false
                      end
    | SScope objs root => match alookup root objs with
                          | Some o => is_object o && c15_wf m (env_enter e objs) o
                          | None => false
                          end
    end
  end.

(* the same without the range condition: enough for totality *)
Fixpoint c15_unfolds (n : nat) (e : env) (s : schema) {struct n} : bool :=
  match n with
  | O => false
  | S m =>
    match s with
    | SList it _ _ => c15_unfolds m e it
    | SMap k v _ _ => c15_unfolds m e k && c15_unfolds m e v
    | SObject _ _ props => forallb (fun np => c15_unfolds m e (p_type (snd np))) props
    | SOneOf types _ _ _ => forallb (fun km => c15_unfolds m e (snd km)) types
    | SRef id ns _ => match resolve e id ns with
                      | Some (o, e') => is_object o && c15_unfolds m e' o
                      | None => false
                      end
    | SScope objs root => match alookup root objs with
                          | Some o => is_object o && c15_unfolds m (env_enter e objs) o
                          | None => false
                          end
    | _ => true
    end
  end.
