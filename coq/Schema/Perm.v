(* Schema/Perm.v — the vocabulary of C12 (purity): values and schemas up to the order of their
   association lists (Go's map iteration order), and the boolean class of known finding D19 (two keys
   of one map that read the same after conversion). *)
From Coq Require Import Permutation.
From Verif Require Import Base.Prelude Base.Str Base.Float Base.GoVal
  Schema.Regex Schema.Units Schema.Syntax Schema.Ops.
Open Scope string_scope.

(* the text a map key can be converted through by SOME keyed schema (int -> decimal, string, bool and
   integral float -> the integer the int mapper reads); an over-approximation of "collide after
   conversion": the class predicate of D19 *)
Definition key_txt (k : gval) : option string :=
  match k with
  | VInt _ z => Some (z_to_dec z)
  | VStr _ s => Some s
  | VBool _ b => Some (if b then "1" else "0")          (* int_mapper reads true / false as 1 / 0 *)
  | VFloat _ x => match fl_to_i64_exact x with            (* ... and an integral float as that integer *)
                  | Some z => Some (z_to_dec z)
                  | None => None
                  end
  | _ => None
  end.

Fixpoint dup_txt (l : list (option string)) : bool :=
  match l with
  | [] => false
  | None :: t => dup_txt t
  | Some x :: t => existsb (fun y => match y with Some y' => String.eqb x y' | None => false end) t || dup_txt t
  end.

Fixpoint has_key_collision (v : gval) : bool :=
  match v with
  | VSlice _ _ l => existsb has_key_collision l
  | VMap _ _ kvs =>
      dup_txt (map (fun kv => key_txt (fst kv)) kvs)
      || existsb (fun kv => has_key_collision (fst kv) || has_key_collision (snd kv)) kvs
  | VPtr _ (Some x) => has_key_collision x
  | VStruct _ fs => existsb (fun nv => has_key_collision (snd nv)) fs
  | _ => false
  end.
Definition no_key_collision (v : gval) : bool := negb (has_key_collision v).

(* values up to the order of map entries *)
Inductive perm_val : gval -> gval -> Prop :=
| pv_refl v : perm_val v v
| pv_slice t b l l' : Forall2 perm_val l l' -> perm_val (VSlice t b l) (VSlice t b l')
| pv_map t b kvs kvs' kvs'' :
    Forall2 (fun a b => perm_val (fst a) (fst b) /\ perm_val (snd a) (snd b)) kvs kvs' ->
    Permutation kvs' kvs'' -> perm_val (VMap t b kvs) (VMap t b kvs'')
| pv_ptr t x x' : perm_val x x' -> perm_val (VPtr t (Some x)) (VPtr t (Some x'))
| pv_struct t fs fs' :
    Forall2 (fun a b => fst a = fst b /\ perm_val (snd a) (snd b)) fs fs' -> perm_val (VStruct t fs) (VStruct t fs').

(* schemas up to the order of properties / enum values / one-of members / scope objects: one rule per
   constructor (reflexivity is a lemma, Proofs/C12Schema.v), association lists related entry by entry and
   then permuted *)
Inductive perm_schema : schema -> schema -> Prop :=
| ps_int mn mx u : perm_schema (SInt mn mx u) (SInt mn mx u)
| ps_float mn mx u : perm_schema (SFloat mn mx u) (SFloat mn mx u)
| ps_string mn mx p : perm_schema (SString mn mx p) (SString mn mx p)
| ps_bool : perm_schema SBool SBool
| ps_pattern : perm_schema SPattern SPattern
| ps_any : perm_schema SAny SAny
| ps_enum_int vals vals' u : Permutation vals vals' -> perm_schema (SEnumInt vals u) (SEnumInt vals' u)
| ps_enum_str n vals vals' : Permutation vals vals' -> perm_schema (SEnumStr n vals) (SEnumStr n vals')
| ps_list a b mn mx : perm_schema a b -> perm_schema (SList a mn mx) (SList b mn mx)
| ps_map k k' v v' mn mx : perm_schema k k' -> perm_schema v v' -> perm_schema (SMap k v mn mx) (SMap k' v' mn mx)
| ps_object id u ps ps1 ps' :
    Forall2 (fun a b => fst a = fst b /\ perm_prop (snd a) (snd b)) ps ps1 -> Permutation ps1 ps' ->
    perm_schema (SObject id u ps) (SObject id u ps')
| ps_oneof ts ts1 ts' ik f i :
    Forall2 (fun a b => fst a = fst b /\ perm_schema (snd a) (snd b)) ts ts1 -> Permutation ts1 ts' ->
    perm_schema (SOneOf ts ik f i) (SOneOf ts' ik f i)
| ps_ref id ns d : perm_schema (SRef id ns d) (SRef id ns d)
| ps_scope os os1 os' root :
    Forall2 (fun a b => fst a = fst b /\ perm_schema (snd a) (snd b)) os os1 -> Permutation os1 os' ->
    perm_schema (SScope os root) (SScope os' root)
with perm_prop : property -> property -> Prop :=
| pp_intro t t' d r ri rin c df ex em dis reason :
    perm_schema t t' ->
    perm_prop (mkProp t d r ri rin c df ex em dis reason) (mkProp t' d r ri rin c df ex em dis reason).

(* object tables and environments up to the order of their entries *)
Definition perm_tab (t t' : objtab) : Prop :=
  exists t1, Forall2 (fun a b => fst a = fst b /\ perm_schema (snd a) (snd b)) t t1 /\ Permutation t1 t'.

Definition perm_env (e e' : env) : Prop :=
  perm_tab (e_self e) (e_self e') /\
  Forall2 (fun a b => fst a = fst b /\ perm_tab (snd a) (snd b)) (e_ext e) (e_ext e') /\
  e_or e = e_or e'.

(* the object tables of an environment have unique ids (Go maps) *)
Definition nodup_env (e : env) : bool :=
  nodup_str (map fst (e_self e)) && forallb (fun nt => nodup_str (map fst (snd nt))) (e_ext e).
