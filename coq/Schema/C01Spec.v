(* Schema/C01Spec.v — vocabulary of the full round-trip theorem C01_roundtrip (all schema kinds):
     swire          the serialized form, exactly: nil-free trees of int64 (in range) / float64 / string / bool /
                    []any / map[any]any / map[string]any with plain string keys (implies SpecRT.wire and
                    CborNorm.decodable);
     distinct_in    "no two entries of one raw map denote the same key": at every map node the keys, read through
                    the key schema, are pairwise different; at every object node the string keys are different
                    (the schema-directed form of the hypothesis no_key_collision: D19);
     any_clean      what ValidateCompatibility additionally demands of `any` data (homogeneous []any, map[any]any
                    keyed by int64 only or by string only) - needed under a one-of only, because OneOf.Validate /
                    Serialize run the member's ValidateCompatibility on the data;
     c01_scope      the schemas the theorem covers: every kind; one-of only with a non-inlined discriminator
                    (flag true) or not at all (flag false). *)
From Verif Require Import Base.Prelude Base.Str Base.Float Base.GoVal
  Schema.Regex Schema.Units Schema.Syntax Schema.Ops Schema.Cbor Schema.Wf.
Open Scope string_scope.

Definition is_pstr (v : gval) : bool := match v with VStr TStr _ => true | _ => false end.

Fixpoint swire (v : gval) : bool :=
  match v with
  | VInt (TInt I64) z => in_i64 z
  | VFloat TF64 _ => true
  | VStr TStr _ => true
  | VBool TBool _ => true
  | VSlice (TSlice TAny) false l => forallb swire l
  | VMap (TMap TAny TAny) false kvs => forallb (fun kv => match kv with (k, x) => swire k && swire x end) kvs
  | VMap (TMap TStr TAny) false kvs => forallb (fun kv => match kv with (k, x) => is_pstr k && swire x end) kvs
  | _ => false
  end.

(* keys pairwise different under Ops.key_eqb (each key against the earlier ones, as map_set compares) *)
Fixpoint nodupkb (l : list gval) : bool :=
  match l with
  | [] => true
  | k :: t => forallb (fun k2 => negb (key_eqb k2 k)) t && nodupkb t
  end.

(* kinds of two list items as validateAnyList compares them *)
Definition kind_same (a b : kind) : bool :=
  match a, b with
  | KInvalid, KInvalid | KBool, KBool | KF32, KF32 | KF64, KF64
  | KString, KString | KSlice, KSlice | KMap, KMap | KPtr, KPtr
  | KStruct, KStruct | KInterface, KInterface | KOther, KOther => true
  | KInt a, KInt b => gtype_eqb (TInt a) (TInt b)
  | _, _ => false
  end.

Definition homog_list (l : list gval) : bool :=
  match l with
  | [] => true
  | x0 :: t0 => forallb (fun x => kind_same (kind_of x0) (kind_of x)) t0
  end.

Definition anymap_keys_ok (kvs : list (gval * gval)) : bool :=
  match kvs with
  | [] => true
  | (k0, _) :: _ =>
      forallb (fun kv : gval * gval =>
                 match kind_of (fst kv) with
                 | KInt I64 | KString =>
                     match kind_of k0, kind_of (fst kv) with
                     | KInt I64, KInt I64 | KString, KString => true
                     | _, _ => false
                     end
                 | _ => false
                 end) kvs
  end.

Fixpoint any_clean (v : gval) : bool :=
  match v with
  | VSlice t _ l =>
      forallb any_clean l && (if gtype_eqb t t_any_slice then homog_list l else true)
  | VMap t _ kvs =>
      forallb (fun kv => match kv with (k, x) => any_clean k && any_clean x end) kvs
      && (if gtype_eqb t t_any_map then anymap_keys_ok kvs else true)
  | _ => true
  end.

Section Distinct.
Variable words : list (string * bool).
Variable pu : units -> string -> option fl.

Fixpoint distinct_in (fuel : nat) (e : env) (s : schema) (v : gval) {struct fuel} : bool :=
  match fuel with
  | O => true
  | S f =>
    match s with
    | SList it _ _ =>
        match v with VSlice _ _ l => forallb (distinct_in f e it) l | _ => true end
    | SMap ks vs _ _ =>
        match v with
        | VMap _ _ kvs =>
            nodupkb (flat_map (fun kv : gval * gval =>
                                 match unser words pu f e ks (fst kv) with Ok k' => [k'] | _ => [] end) kvs)
            && forallb (fun kv : gval * gval => distinct_in f e ks (fst kv) && distinct_in f e vs (snd kv)) kvs
        | _ => true
        end
    | SObject _ _ props =>
        match v with
        | VMap _ _ kvs =>
            let r0 := raw_of_entries kvs in
            nodup_str (map fst r0) &&
            let r1 := fold_left (fun a np =>
                        if amem (fst np) a then a
                        else match p_default (snd np) with
                             | Some txt => match decode_default (e_or e) (snd np) txt with
                                           | Some d => (a ++ [(fst np, d)])%list
                                           | None => a
                                           end
                             | None => a
                             end) props r0 in
            forallb (fun np : string * property =>
                       match alookup (fst np) r1 with
                       | Some d => distinct_in f e (p_type (snd np)) d
                       | None => true
                       end) props
        | _ => match props with [(_, p)] => distinct_in f e (p_type p) v | _ => true end
        end
    | SOneOf types ik field inlined =>
        match v with
        | VMap _ _ kvs =>
            match smap_get field kvs with
            | Some d =>
                match (if ik then option_map KI (int_mapper None d) else option_map KS (string_mapper d)) with
                | Some key =>
                    match find (fun ks => okey_eqb (fst ks) key) types with
                    | Some (_, member) =>
                        distinct_in f e member (VMap t_str_map false (if inlined then kvs else smap_del field kvs))
                    | None => true
                    end
                | None => true
                end
            | None => true
            end
        | _ => true
        end
    | SRef id ns _ =>
        match resolve e id ns with Some (o, e') => distinct_in f e' o v | None => true end
    | SScope objs root =>
        match alookup root objs with Some o => distinct_in f (env_enter e objs) o v | None => true end
    | _ => true
    end
  end.
End Distinct.

(* the conclusion of the round trip for an unserialized value n, from fuel f0 on (SpecRT.roundtrips with the strong
   wire form): n passes Validate, Serialize gives a wire value w, Unserialize of w - directly or after CBOR
   normalisation to any depth - gives n back, and Serialize of the re-unserialized value is w again *)
Definition roundtrips_strong (words : list (string * bool)) (pu : units -> string -> option fl)
    (e : env) (s : schema) (n : gval) (f0 : nat) : Prop :=
  exists w, swire w = true /\
    forall f', (f0 <= f')%nat ->
      validate words pu f' e s n = Ok tt
      /\ serialize words pu f' e s n = Ok w
      /\ unser words pu f' e s w = Ok n
      /\ (forall D, unser words pu f' e s (cbor_norm D w) = Ok n)
      /\ (forall n2, unser words pu f' e s w = Ok n2 -> serialize words pu f' e s n2 = Ok w).

(* an inlined discriminator property whose type reads the raw discriminator exactly as the one-of itself does
   (intInputMapper / stringInputMapper without units) and returns it as a plain int64 / string *)
Definition disc_plain (t : schema) : bool :=
  match t with
  | SInt _ _ None | SEnumInt _ None | SString _ _ _ | SEnumStr None _ => true
  | _ => false
  end.
Definition c01_member_plain (e : env) (field : string) (km : okey * schema) : bool :=
  match member_props e (snd km) with
  | Some ps => match alookup field ps with Some p => disc_plain (p_type p) | None => false end
  | None => false
  end.

(* the schemas covered: with oneofs = false no one-of node anywhere (schema, scope objects, namespaces);
   with oneofs = true one-of nodes whose discriminator is not inlined, or inlined with a plain type in every member *)
Definition c01_local (oneofs : bool) (e : env) (s : schema) : bool :=
  match s with
  | SOneOf types _ field inlined => oneofs && (negb inlined || forallb (c01_member_plain e field) types)
  | _ => true
  end.
Definition c01_scope (oneofs : bool) (e : env) (s : schema) : bool :=
  all_env (c01_local oneofs) e && all_nodes (c01_local oneofs) e s.
