(* Schema/MetaTable.v — the SDK's meta-schema table as a `schema` of the shared syntax (DESIGN 2.4, C09).

   Generated/MetaDesc.v holds `DescribeScope().SelfSerialize()` (and the Schema / StepOutput scopes) of the
   SDK built from the tree under test, re-dumped on every run: the 1300-line table of schema/schema_schema.go
   in the wire format of descriptions.  Here the model's own reader (`rebuild`, Schema/Describe.v) turns that
   DATA into terms of `schema` - the map-based erasure of the struct-mapped meta objects - evaluated once by
   vm_compute.  The oracles `rebuild` needs are finite and dumped alongside: regexp/syntax's parse of every
   pattern text of the table (`meta_patterns`), encoding/json on every default text (`meta_json`).

   Not extracted.  The theorems about these terms are in Proofs/C09Acc*.v and Properties/C09.v
   (C09_accepted_partial, C09_table_agrees_with_reader_partial, ...). *)
From Verif Require Import Base.Prelude Base.Str Base.Float Base.GoVal
  Schema.Regex Schema.Units Schema.FloatUnits Schema.Syntax Schema.Ops Schema.Describe
  Generated.Tables Generated.MetaDesc.
Open Scope string_scope.

Definition meta_rp : string -> option re := fun src => alookup src meta_patterns.
Definition meta_jor : oracles :=
  mkOracles (fun txt => match alookup txt meta_json with Some r => r | None => None end)
            (fun src => match meta_rp src with Some _ => true | None => false end).

Definition meta_rebuild : gval -> outcome schema :=
  rebuild bool_words parse_units_float unit_characters meta_rp meta_jor.

Definition meta_scope : schema :=
  Eval vm_compute in match meta_rebuild meta_scope_description with Ok s => s | _ => SAny end.
Definition meta_schema_scope : schema :=
  Eval vm_compute in match meta_rebuild meta_schema_description with Ok s => s | _ => SAny end.
Definition meta_stepoutput_scope : schema :=
  Eval vm_compute in match meta_rebuild meta_stepoutput_description with Ok s => s | _ => SAny end.

(* the reader accepted all three self-descriptions of the meta-schema, link step included *)
Example meta_scope_rebuilt : meta_rebuild meta_scope_description = Ok meta_scope.
Proof. vm_compute. reflexivity. Qed.
Example meta_schema_rebuilt : meta_rebuild meta_schema_description = Ok meta_schema_scope.
Proof. vm_compute. reflexivity. Qed.
Example meta_stepoutput_rebuilt : meta_rebuild meta_stepoutput_description = Ok meta_stepoutput_scope.
Proof. vm_compute. reflexivity. Qed.

(* the object table of the Scope meta-scope, and the properties of one meta object *)
Definition meta_objs : objtab :=
  Eval vm_compute in match meta_scope with SScope objs _ => objs | _ => [] end.
Definition meta_root : string :=
  Eval vm_compute in match meta_scope with SScope _ root => root | _ => "" end.
Lemma meta_scope_eq : meta_scope = SScope meta_objs meta_root.
Proof. reflexivity. Qed.

Definition meta_props (id : string) : list (string * property) :=
  match alookup id meta_objs with Some (SObject _ _ ps) => ps | _ => [] end.
Definition meta_ptype (id field : string) : schema :=
  match alookup field (meta_props id) with Some p => p_type p | None => SAny end.
