(* Schema/Regex.v — a backtracking matcher with Go/Perl leftmost-first semantics for the
   regular-expression subset the SDK builds itself (the units template) and the subset the
   generator uses for user patterns.  CPS, explicit fuel. *)
From Verif Require Import Base.Prelude Base.Str.

Inductive re :=
| Eps
| Chr (c : ascii)
| AnyC                                  (* .  : any byte except \n *)
| Cls (neg : bool) (rs : list (ascii * ascii))  (* [a-z0-9] / [^...] *)
| Cat (a b : re)
| Alt (a b : re)                        (* a|b, a preferred *)
| Star (a : re)                         (* greedy a* *)
| Grp (n : Z) (a : re)                  (* capturing group, identified by n *)
| Bol | Eol.                            (* ^ and $ (no multi-line mode) *)

Definition caps := list (Z * list ascii).

Definition in_range (c : ascii) (r : ascii * ascii) : bool :=
  (zchr (fst r) <=? zchr c) && (zchr c <=? zchr (snd r)).
Definition cls_match (neg : bool) (rs : list (ascii * ascii)) (c : ascii) : bool :=
  xorb neg (existsb (in_range c) rs).

Definition digit_cls : re := Cls false [("0"%char, "9"%char)].
Definition space_cls : re :=
  Cls false [(" "%char, " "%char); (chrz 9, chrz 10); (chrz 12, chrz 13)].

(* mt fuel whole r s cs k : match r at the front of s (whole = complete subject, for ^),
   pass the rest and the captures to the continuation. *)
Fixpoint mt (fuel : nat) (whole : nat) (r : re) (s : list ascii) (cs : caps)
            (k : list ascii -> caps -> option caps) {struct fuel} : option caps :=
  match fuel with
  | O => None
  | S fuel =>
    match r with
    | Eps => k s cs
    | Chr c => match s with x :: t => if Ascii.eqb x c then k t cs else None | [] => None end
    | AnyC => match s with x :: t => if zchr x =? 10 then None else k t cs | [] => None end
    | Cls neg rs => match s with x :: t => if cls_match neg rs x then k t cs else None | [] => None end
    | Cat a b => mt fuel whole a s cs (fun s' cs' => mt fuel whole b s' cs' k)
    | Alt a b => match mt fuel whole a s cs k with Some r => Some r | None => mt fuel whole b s cs k end
    | Star a =>
        match mt fuel whole a s cs
                (fun s' cs' => if Nat.eqb (List.length s') (List.length s) then None
                               else mt fuel whole (Star a) s' cs' k) with
        | Some r => Some r
        | None => k s cs
        end
    | Grp n a => mt fuel whole a s cs
                   (fun s' cs' => k s' ((n, firstn (List.length s - List.length s') s) :: cs'))
    | Bol => if Nat.eqb (List.length s) whole then k s cs else None
    | Eol => match s with [] => k s cs | _ => None end
    end
  end.

Definition plus (a : re) : re := Cat a (Star a).
Definition opt (a : re) : re := Alt a Eps.
Definition lit_l (l : list ascii) : re := fold_right (fun c acc => Cat (Chr c) acc) Eps l.
Definition lit (s : string) : re := lit_l (chars s).
Fixpoint alts (l : list re) : re :=
  match l with [] => Eps | [x] => x | x :: t => Alt x (alts t) end.

Fixpoint re_size (r : re) : nat :=
  match r with
  | Cat a b | Alt a b => S (re_size a + re_size b)
  | Star a | Grp _ a => S (re_size a)
  | _ => 1%nat
  end.

(* enough for every subject the harness sends: each Star iteration consumes a byte *)
Definition re_fuel (r : re) (s : list ascii) : nat := ((re_size r + 2) * (List.length s + 2) + 8)%nat.

(* match anchored at the start of s (the expression carries its own ^ / $) *)
Definition re_match_at (r : re) (whole : nat) (s : list ascii) : option caps :=
  mt (re_fuel r s) whole r s [] (fun _ cs => Some cs).

(* regexp.MatchString: unanchored search *)
Fixpoint search_from (r : re) (whole : nat) (s : list ascii) (n : nat) : bool :=
  match re_match_at r whole s with
  | Some _ => true
  | None => match n, s with
            | S n', _ :: t => search_from r whole t n'
            | _, _ => false
            end
  end.
Definition re_match_string (r : re) (s : string) : bool :=
  let l := chars s in search_from r (List.length l) l (List.length l).

Definition cap_get (n : Z) (cs : caps) : list ascii :=
  match zlookup n cs with Some l => l | None => [] end.
