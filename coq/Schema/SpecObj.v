(* Schema/SpecObj.v — declarative reference semantics of objects and one-of values, written from
   the TEXT of property C03 (not from the code): which raw values an object schema accepts and
   what it returns, how a one-of value is routed, and the predicate Validate / Serialize enforce
   on native values.  Relational style; nothing here is executed or extracted.

   The way a property TYPE reads a value is a parameter (`uns`, `child_ok`): C03 is about the
   object / one-of layer, the kinds below it are C02's. *)
From Coq Require Import Permutation.
From Verif Require Import Base.Prelude Base.Str Base.Float Base.GoVal
  Schema.Regex Schema.Units Schema.Syntax Schema.Ops.
Open Scope string_scope.

Definition is_map (v : gval) : bool := match v with VMap _ _ _ => true | _ => false end.

(* keys of a raw Go map are unique (a Go map cannot hold the same key twice) *)
Definition raw_keys_unique (v : gval) : bool :=
  match v with VMap _ _ kvs => nodup_str (map fst (raw_of_entries kvs)) | _ => true end.

(* what the caller supplied, as (property name, raw value) pairs: a map whose keys are all
   strings, or a lone non-map value standing for the single property of a one-property object *)
Inductive supplied (props : list (string * property)) : gval -> raw -> Prop :=
| sup_map : forall t nl kvs r0,
    Forall2 (fun (kv : gval * gval) (e : string * gval) => fst kv = VStr TStr (fst e) /\ snd kv = snd e) kvs r0 ->
    supplied props (VMap t nl kvs) r0
| sup_short : forall v name p,
    is_map v = false -> props = [(name, p)] -> supplied props v [(name, v)].

(* the decoded default of a property *)
Definition default_value (orc : oracles) (p : property) : option gval :=
  match p_default p with Some txt => decode_default orc p txt | None => None end.

(* the raw value a property receives: the supplied one (never replaced), else its default *)
Definition input_of (orc : oracles) (r0 : raw) (name : string) (p : property) : option gval :=
  match alookup name r0 with Some d => Some d | None => default_value orc p end.

(* required / required_if / required_if_not / conflicts for one property, given which
   properties are set after defaulting *)
Definition rule_holds (set : string -> bool) (name : string) (p : property) : Prop :=
  if set name
  then forall c, In c (p_conflicts p) -> set c = false
  else p_required p = false
       /\ (forall r, In r (p_required_if p) -> set r = false)
       /\ (p_required_if_not p <> [] -> exists r, In r (p_required_if_not p) /\ set r = true).

Section Spec.
Variable uns : schema -> gval -> outcome gval.     (* how a property type reads a raw value *)
Variable orc : oracles.

(* object_accepts props v n: the object with properties `props` accepts the raw value v and
   returns the map n *)
Definition object_accepts (props : list (string * property)) (v n : gval) : Prop :=
  exists (r0 r2 : raw),
    supplied props v r0
    /\ (forall k, amem k r0 = true -> amem k props = true)                       (* no undeclared key *)
    /\ n = raw_to_val r2 /\ NoDup (map fst r2)                                    (* n is a map[string]any ... *)
    /\ (forall k x, alookup k r2 = Some x <->                                     (* ... holding exactly: *)
          exists p d, alookup k props = Some p /\ input_of orc r0 k p = Some d    (*   supplied value or default *)
                      /\ p_disabled p = false /\ uns (p_type p) d = Ok x)         (*   read by the property type *)
    /\ (forall k p d, alookup k props = Some p -> input_of orc r0 k p = Some d -> (* every property in use is enabled *)
          p_disabled p = false /\ exists x, uns (p_type p) d = Ok x)              (*   and accepted by its type *)
    /\ (forall name p, In (name, p) props -> rule_holds (fun k => amem k r2) name p).

(* equality of two returned maps up to the order of entries *)
Definition same_entries (n n' : gval) : Prop :=
  exists r r' : raw, n = raw_to_val r /\ n' = raw_to_val r' /\ NoDup (map fst r) /\ NoDup (map fst r')
                     /\ forall k, alookup k r = alookup k r'.

(* ---- one-of ---- *)

(* the discriminator value denotes the typed key `key` (the fixed lenient readings of C02) *)
Definition discr_denotes (ik : bool) (d : gval) (key : okey) : Prop :=
  if ik then exists z, int_mapper None d = Some z /\ key = KI z
  else exists s, string_mapper d = Some s /\ key = KS s.

Definition okey_val (key : okey) : gval := match key with KI z => vi64 z | KS s => vstr s end.

(* oneof_routes types ik field inlined v n: v is a map with string keys, its discriminator entry
   alone selects the member, the member gets the entries (without the discriminator unless it
   is inlined), and n is what the member returns, carrying the typed discriminator *)
Definition oneof_routes (types : list (okey * schema)) (ik : bool) (field : string) (inlined : bool)
                        (v n : gval) : Prop :=
  exists t nl kvs d key k0 member x,
    v = VMap t nl kvs
    /\ (forall kv, In kv kvs -> exists k, fst kv = VStr TStr k)
    /\ smap_get field kvs = Some d
    /\ discr_denotes ik d key
    /\ find (fun ks => okey_eqb (fst ks) key) types = Some (k0, member)
    /\ uns member (VMap t_str_map false (if inlined then kvs else smap_del field kvs)) = Ok x
    /\ n = match is_str_any_map x with
           | Some xs => if inlined then x else VMap t_str_map false (map_set (vstr field) (okey_val key) xs)
           | None => x
           end.
End Spec.

(* ---- native values: the predicate Validate and Serialize enforce ---- *)
Section Native.
Variable child_ok : schema -> gval -> Prop.       (* the path's own acceptance of a property value *)

(* exactly map[string]any, every key declared, every value accepted by its property type, and the
   presence rules hold on the set of keys *)
Definition obj_native_ok (props : list (string * property)) (v : gval) : Prop :=
  exists kvs, is_str_any_map v = Some kvs
    /\ (forall name p, In (name, p) props -> rule_holds (fun k => amem k (raw_of_entries kvs)) name p)
    /\ (forall k x, In (k, x) (raw_of_entries kvs) -> exists p, alookup k props = Some p /\ child_ok (p_type p) x).
End Native.

(* the typed discriminator of a native one-of value: exactly int64 / string *)
Definition typed_discr (ik : bool) (d : gval) : option okey :=
  if ik then match d with VInt (TInt I64) z => Some (KI z) | _ => None end
  else match d with VStr TStr s => Some (KS s) | _ => None end.

(* dispatch of a native one-of value: the typed discriminator selects the member; the member is
   handed the map without the discriminator unless it is inlined; `precheck` is the member's
   data-compatibility pre-check that the code runs as part of the dispatch *)
Definition oneof_native_routes (precheck : schema -> gval -> Prop) (types : list (okey * schema)) (ik : bool)
    (field : string) (inlined : bool) (v : gval) (key : okey) (member : schema) (data' : gval) : Prop :=
  exists kvs d k0,
    is_str_any_map v = Some kvs /\ smap_get field kvs = Some d /\ d <> VNil
    /\ typed_discr ik d = Some key
    /\ find (fun ks => okey_eqb (fst ks) key) types = Some (k0, member)
    /\ data' = VMap t_str_map false (if inlined then kvs else smap_del field kvs)
    /\ precheck member data'.
