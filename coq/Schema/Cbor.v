(* Schema/Cbor.v — what a CBOR encode (fxamacker/cbor default options) followed by a decode
   into `any` does to a value the SDK serialized (a "wire" value). *)
From Verif Require Import Base.Prelude Base.Str Base.Float Base.GoVal.

Fixpoint cbor_norm (fuel : nat) (v : gval) : gval :=
  match fuel with
  | O => v
  | S f =>
    match v with
    | VInt _ z => if 0 <=? z then VInt (TInt U64) z else VInt (TInt I64) z
    | VFloat _ x => VFloat TF64 x
    | VStr _ s => VStr TStr s
    | VBool _ b => VBool TBool b
    | VSlice _ _ l => VSlice t_any_slice false (map (cbor_norm f) l)
    | VMap _ _ kvs => VMap t_any_map false (map (fun kv => (cbor_norm f (fst kv), cbor_norm f (snd kv))) kvs)
    | x => x
    end
  end.
