(* Schema/XSyntax.v — schemas with struct-mapped objects (NewStructMappedObjectSchema[T],
   NewTypedObject[T], typed scopes): every constructor of Syntax.schema, objects carrying
   optional struct information.  `embed` / `erase` relate the two; Proofs/XEmbed.v shows the
   extension conservative, so every theorem about Ops.v transfers. *)
From Verif Require Import Base.Prelude Base.Str Base.Float Base.GoVal Base.XReflect Schema.Regex Schema.Units Schema.Syntax.
Open Scope string_scope.

(* the struct field a property is mapped to, as buildObjectFieldCache resolved it *)
Record fieldref := mkFieldRef {
  fr_name : string;          (* StructField.Name *)
  fr_idx : list nat;         (* StructField.Index: the path FieldByIndex walks (Unserialize side) *)
  fr_nidx : list nat;        (* the path FieldByName(fr_name) resolves to (Validate / Serialize side) *)
  fr_type : gtype }.         (* StructField.Type *)

Record structinfo := mkStructInfo {
  si_name : string;                        (* the Go struct type S *)
  si_ptr : bool;                           (* the type parameter T is *S rather than S *)
  si_fields : list (string * fieldref) }.  (* property id -> field *)

Definition si_type (si : structinfo) : gtype :=
  if si_ptr si then TPtr (TStruct (si_name si)) else TStruct (si_name si).

(* struct type table: exported fields in declaration order; an embedded field is named after its type *)
Definition stab := xstab.

Inductive xschema :=
| XInt (mn mx : option Z) (u : option units)
| XFloat (mn mx : option fl) (u : option units)
| XString (mn mx : option Z) (pat : option (string * re))
| XBool
| XPattern
| XAny
| XEnumInt (vals : list (Z * option display)) (u : option units)
| XEnumStr (named : option string) (vals : list (string * option display))
| XList (item : xschema) (mn mx : option Z)
| XMap (k v : xschema) (mn mx : option Z)
| XObject (id : string) (unenforced : bool) (props : list (string * property_ xschema)) (mapped : option structinfo)
| XOneOf (types : list (okey * xschema)) (int_keys : bool) (field : string) (inlined : bool)
| XRef (id ns : string) (d : option display)
| XScope (objs : list (string * xschema)) (root : string).

Definition xproperty := property_ xschema.
Definition xobjtab := list (string * xschema).

Definition map_prop {A B} (f : A -> B) (p : property_ A) : property_ B :=
  mkProp (f (p_type p)) (p_display p) (p_required p) (p_required_if p) (p_required_if_not p) (p_conflicts p)
         (p_default p) (p_examples p) (p_empty_is_default p) (p_disabled p) (p_disabled_reason p).

Fixpoint embed (s : schema) : xschema :=
  match s with
  | SInt mn mx u => XInt mn mx u
  | SFloat mn mx u => XFloat mn mx u
  | SString mn mx pat => XString mn mx pat
  | SBool => XBool
  | SPattern => XPattern
  | SAny => XAny
  | SEnumInt vals u => XEnumInt vals u
  | SEnumStr named vals => XEnumStr named vals
  | SList it mn mx => XList (embed it) mn mx
  | SMap k v mn mx => XMap (embed k) (embed v) mn mx
  | SObject id un props => XObject id un (map (fun np => (fst np, map_prop embed (snd np))) props) None
  | SOneOf types ik field inlined => XOneOf (map (fun ks => (fst ks, embed (snd ks))) types) ik field inlined
  | SRef id ns d => XRef id ns d
  | SScope objs root => XScope (map (fun io => (fst io, embed (snd io))) objs) root
  end.

(* the same schema rebuilt map-based *)
Fixpoint erase (s : xschema) : schema :=
  match s with
  | XInt mn mx u => SInt mn mx u
  | XFloat mn mx u => SFloat mn mx u
  | XString mn mx pat => SString mn mx pat
  | XBool => SBool
  | XPattern => SPattern
  | XAny => SAny
  | XEnumInt vals u => SEnumInt vals u
  | XEnumStr named vals => SEnumStr named vals
  | XList it mn mx => SList (erase it) mn mx
  | XMap k v mn mx => SMap (erase k) (erase v) mn mx
  | XObject id un props _ => SObject id un (map (fun np => (fst np, map_prop erase (snd np))) props)
  | XOneOf types ik field inlined => SOneOf (map (fun ks => (fst ks, erase (snd ks))) types) ik field inlined
  | XRef id ns d => SRef id ns d
  | XScope objs root => SScope (map (fun io => (fst io, erase (snd io))) objs) root
  end.

Definition embed_tab (t : objtab) : xobjtab := map (fun io => (fst io, embed (snd io))) t.
Definition erase_tab (t : xobjtab) : objtab := map (fun io => (fst io, erase (snd io))) t.

Record xenv := mkXEnv {
  xe_self : xobjtab;
  xe_ext : list (string * xobjtab);
  xe_or : oracles;
  xe_structs : stab }.

Definition xenv_enter (e : xenv) (objs : xobjtab) : xenv := mkXEnv objs (xe_ext e) (xe_or e) (xe_structs e).

Definition embed_env (st : stab) (e : env) : xenv :=
  mkXEnv (embed_tab (e_self e)) (map (fun nt => (fst nt, embed_tab (snd nt))) (e_ext e)) (e_or e) st.
Definition erase_env (e : xenv) : env :=
  mkEnv (erase_tab (xe_self e)) (map (fun nt => (fst nt, erase_tab (snd nt))) (xe_ext e)) (xe_or e).

Definition xresolve (e : xenv) (id ns : string) : option (xschema * xenv) :=
  if String.eqb ns "" then
    match alookup id (xe_self e) with Some o => Some (o, e) | None => None end
  else
    match alookup ns (xe_ext e) with
    | Some tab => match alookup id tab with Some o => Some (o, xenv_enter e tab) | None => None end
    | None => None
    end.

Definition xtype_id_of (s : xschema) : type_id :=
  match s with
  | XInt _ _ _ => IdInt | XFloat _ _ _ => IdFloat | XString _ _ _ => IdString | XBool => IdBool
  | XPattern => IdPattern | XAny => IdAny | XEnumInt _ _ => IdEnumInt | XEnumStr _ _ => IdEnumStr
  | XList _ _ _ => IdList | XMap _ _ _ _ => IdMap | XObject _ _ _ _ => IdObject
  | XOneOf _ ik _ _ => if ik then IdOneOfInt else IdOneOfStr
  | XRef _ _ _ => IdRef | XScope _ _ => IdScope
  end.

(* ReflectedType of an object-like target (one level: a reference's target and a scope's root are objects) *)
Definition xobj_rtype (o : xschema) : gtype :=
  match o with
  | XObject _ _ _ (Some si) => si_type si
  | _ => t_str_map
  end.

(* ReflectedType *)
Fixpoint xrtype (e : xenv) (s : xschema) : gtype :=
  match s with
  | XInt _ _ _ | XEnumInt _ _ => TInt I64
  | XFloat _ _ _ => TF64
  | XString _ _ _ => TStr
  | XBool => TBool
  | XPattern => TRegexp
  | XAny => TAny
  | XEnumStr None _ => TStr
  | XEnumStr (Some n) _ => TNamed n TStr
  | XList it _ _ => TSlice (xrtype e it)
  | XMap k v _ _ => TMap (xrtype e k) (xrtype e v)
  | XObject _ _ _ (Some si) => si_type si
  | XObject _ _ _ None => t_str_map
  | XRef id ns _ => match xresolve e id ns with Some (o, _) => xobj_rtype o | None => t_str_map end
  | XScope objs root => match alookup root objs with Some o => xobj_rtype o | None => t_str_map end
  | XOneOf _ _ _ _ => TAny
  end.
