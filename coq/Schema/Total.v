(* Schema/Total.v — the quantities the totality theorems (C04) are stated with: depth of a value,
   the boolean "every declared default is processed in K steps", and the explicit fuel bound. *)
From Verif Require Import Base.Prelude Base.Str Base.Float Base.GoVal
  Schema.Regex Schema.Units Schema.Syntax Schema.Ops Schema.Wf.
Open Scope string_scope.

(* nesting depth of a Go value (>= 1) *)
Fixpoint vdepth (v : gval) : nat :=
  match v with
  | VSlice _ _ l => S (fold_right (fun x acc => Nat.max (vdepth x) acc) O l)
  | VMap _ _ kvs => S (fold_right (fun kv acc => Nat.max (Nat.max (vdepth (fst kv)) (vdepth (snd kv))) acc) O kvs)
  | VPtr _ (Some x) => S (vdepth x)
  | VStruct _ fs => S (fold_right (fun nv acc => Nat.max (vdepth (snd nv)) acc) O fs)
  | _ => 1%nat
  end.

Definition is_vmap (v : gval) : bool := match v with VMap _ _ _ => true | _ => false end.

Section WithTables.
Variable words : list (string * bool).
Variable pu : units -> string -> option fl.

(* a property default, handed to its own property type, is processed within K steps.  The default
   replaces the (absent) input, so its processing is not bounded by the depth of the caller's
   value: a default that leads back to the same absent property never finishes
   (scope(A{x: ref A = {}; n}).Unserialize({}) — fatal stack overflow in Go).  *)
Definition dflt_local (K : nat) (e : env) (s : schema) : bool :=
  match s with
  | SObject _ _ props =>
      forallb (fun np =>
                 match p_default (snd np) with
                 | None => true
                 | Some txt =>
                     match decode_default (e_or e) (snd np) txt with
                     | None => true
                     | Some d => match unser words pu K e (p_type (snd np)) d with
                                 | OutOfFuel => false
                                 | _ => true
                                 end
                     end
                 end) props
  | _ => true
  end.

Definition defaults_total (K : nat) (e : env) (s : schema) : bool :=
  all_env (dflt_local K) e && all_nodes (dflt_local K) e s.

End WithTables.

(* the explicit fuel that suffices (C04): K for the defaults, and for every level of the input at
   most 4 * (nic_fuel + 2) steps of the mutually recursive operations *)
Definition level_cost (n : nat) : nat := (4 * n + 8)%nat.
Definition fuel_bound_n (K n : nat) (v : gval) : nat := (K + 3 + level_cost n * S (vdepth v))%nat.
Definition fuel_bound (K : nat) (e : env) (s : schema) (v : gval) : nat := fuel_bound_n K (nic_fuel e s) v.
