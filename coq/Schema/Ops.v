(* Schema/Ops.v — Unserialize / Validate / Serialize / data-mode ValidateCompatibility,
   following the Go code function by function and path by path (schema/*.go at the
   repaired tree; every behaviour that used to be a defect is marked with its D-number).
   Map-based objects; struct-mapped objects are in StructOps.v. *)
From Verif Require Import Base.Prelude Base.Str Base.Float Base.GoVal
  Schema.Regex Schema.Units Schema.Syntax.
Open Scope string_scope.
Open Scope Z_scope.

(* ---------- path segments ---------- *)
Definition key_text (v : gval) : string :=      (* fmt %v of a map key; only strings/ints/bools are compared *)
  match v with
  | VStr _ s => s
  | VInt _ z => z_to_dec z
  | VBool _ b => if b then "true" else "false"
  | _ => "?"
  end.
Definition idx_seg (i : Z) : string := "[" ++ z_to_dec i ++ "]".
Definition mkey_seg (k : gval) : string := "{" ++ key_text k ++ "}".
Definition mval_seg (k : gval) : string := "[" ++ key_text k ++ "]".
Definition okey_text (k : okey) : string := match k with KI z => z_to_dec z | KS s => s end.
Definition oneof_seg (k : okey) : string := "{oneof[" ++ okey_text k ++ "]}".

Definition seg {A} (s : string) (o : outcome A) : outcome A := map_err (add_seg s) o.
(* fmt.Errorf("...%s", err) / &ConstraintError{Message: ...err...}: a fresh error, path lost *)
Definition rewrap {A} (c : bool) (o : outcome A) : outcome A :=
  map_err (fun e => mkErr c [] (e_class e)) o.

(* D67 (repaired): &ConstraintError{Message: ...err..., Path: constraintErrorPath(err)} - a fresh
   constraint error that keeps the path of the nested one *)
Definition rewrap_path {A} (o : outcome A) : outcome A :=
  map_err (fun e => mkErr true (if e_constraint e then e_path e else []) (e_class e)) o.

Definition zlen {A} (l : list A) : Z := Z.of_nat (List.length l).
Definition size_ok (mn mx : option Z) (n : Z) : bool := ole mn n && oge mx n.

(* ---------- scalars ---------- *)

(* intInputMapper: a type switch on the exact dynamic type *)
Definition int_mapper (u : option units) (v : gval) : option Z :=
  match v with
  | VStr TStr s => match u with Some us => parse_units_int us s | None => parse_int s end
  | VInt (TInt _) z => if z <=? max_i64 then Some z else None
  | VFloat TF64 f | VFloat TF32 f => fl_to_i64_exact f
  | VBool TBool b => Some (if b then 1 else 0)
  | _ => None
  end.

Definition int_bounds (mn mx : option Z) (z : Z) : outcome gval :=
  if size_ok mn mx z then Ok (vi64 z) else Err (cerr EBound).

(* D34 (repaired): a value the mapper cannot read is a constraint error *)
Definition int_unser (mn mx : option Z) (u : option units) (v : gval) : outcome gval :=
  match int_mapper u v with Some z => int_bounds mn mx z | None => Err (cerr ERepr) end.
(* asInt + bounds.  D06 (repaired): nil is an error, not a reflect panic *)
Definition int_ser (mn mx : option Z) (v : gval) : outcome gval :=
  match conv_int64 v with Some z => int_bounds mn mx z | None => Err (cerr ERepr) end.

(* parse with units on the float path is in FloatUnits.v; here: the hook *)
Definition float_mapper (pu : units -> string -> option fl) (u : option units) (v : gval) : option fl :=
  match v with
  | VStr TStr s => match u with Some us => pu us s | None => parse_float s end
  | VInt (TInt _) z => Some (fl_of_Z b64 z)
  | VFloat TF64 f => Some f
  | VFloat TF32 f => Some f
  | VBool TBool b => Some (if b then fl_of_Z b64 1 else FZero false)
  | _ => None
  end.

(* D14 (repaired): a bound is satisfied only by an ordered comparison; NaN satisfies none *)
Definition float_bounds (mn mx : option fl) (f : fl) : outcome gval :=
  if (match mn with Some m => fle m f | None => true end)
     && (match mx with Some m => fle f m | None => true end)
  then Ok (vf64 f) else Err (cerr EBound).
Definition float_unser pu (mn mx : option fl) (u : option units) (v : gval) : outcome gval :=
  match float_mapper pu u v with Some f => float_bounds mn mx f | None => Err (cerr ERepr) end.
Definition float_ser (mn mx : option fl) (v : gval) : outcome gval :=
  match conv_float64 v with Some f => float_bounds mn mx f | None => Err (cerr ERepr) end.

(* stringInputMapper *)
Definition string_mapper (v : gval) : option string :=
  match v with
  | VStr TStr s => Some s
  | VInt (TInt _) z => Some (z_to_dec z)
  | VFloat TF64 f | VFloat TF32 f => Some (fmt_f f)
  | _ => None
  end.
Definition slen (s : string) : Z := Z.of_nat (String.length s).
Definition string_check (mn mx : option Z) (pat : option (string * re)) (s : string) : outcome gval :=
  if size_ok mn mx (slen s) then
    match pat with
    | Some (_, r) => if re_match_string r s then Ok (vstr s) else Err (cerr EPattern)
    | None => Ok (vstr s)
    end
  else Err (cerr EBound).
Definition string_unser mn mx pat (v : gval) : outcome gval :=
  match string_mapper v with Some s => string_check mn mx pat s | None => Err (cerr ERepr) end.
Definition string_ser mn mx pat (v : gval) : outcome gval :=
  match conv_string v with Some s => string_check mn mx pat s | None => Err (cerr ERepr) end.

(* BoolSchema.Unserialize: bool, boolean words, integers 0/1 *)
Definition bool_unser (words : list (string * bool)) (v : gval) : outcome gval :=
  match v with
  | VBool TBool b => Ok (vbool b)
  | VStr TStr s => match alookup (to_lower s) words with Some b => Ok (vbool b) | None => Err (cerr ERepr) end
  | VInt (TInt _) z => let z' := wrap_i64 z in
                       if z' =? 1 then Ok (vbool true) else if z' =? 0 then Ok (vbool false) else Err (cerr ERepr)
  | _ => Err (cerr ERepr)
  end.
Definition bool_ser (v : gval) : outcome gval :=
  match conv_bool v with Some b => Ok (vbool b) | None => Err (cerr ERepr) end.

(* enums *)
Definition enum_int_mem (vals : list (Z * option display)) (z : Z) : bool := existsb (fun p => fst p =? z) vals.
Definition enum_str_mem (vals : list (string * option display)) (s : string) : bool := existsb (fun p => String.eqb (fst p) s) vals.
Definition enum_str_type (named : option string) : gtype :=
  match named with Some n => TNamed n TStr | None => TStr end.

Definition enum_int_unser vals u (v : gval) : outcome gval :=
  match int_mapper u v with
  | Some z => if enum_int_mem vals z then Ok (vi64 z) else Err (cerr EEnum)
  | None => Err (cerr ERepr)
  end.
(* asType: convertible to int64 (and to the unserialized type, also int64) *)
Definition enum_int_ser vals (v : gval) : outcome gval :=
  match conv_int64 v with
  | Some z => if enum_int_mem vals z then Ok (vi64 z) else Err (cerr EEnum)
  | None => Err (cerr ERepr)
  end.
Definition enum_str_unser named vals (v : gval) : outcome gval :=
  match string_mapper v with
  | Some s => if enum_str_mem vals s then Ok (VStr (enum_str_type named) s) else Err (cerr EEnum)
  | None => Err (cerr ERepr)
  end.
Definition enum_str_ser vals (v : gval) : outcome gval :=
  match conv_string v with
  | Some s => if enum_str_mem vals s then Ok (vstr s) else Err (cerr EEnum)
  | None => Err (cerr ERepr)
  end.

(* pattern *)
Definition pattern_unser (o : oracles) (v : gval) : outcome gval :=
  match string_mapper v with
  | Some s => if o_re_ok o s then Ok (VRegexp s) else Err (cerr EPattern)
  | None => Err (cerr ERepr)
  end.
(* D47 (repaired): a typed nil *regexp.Regexp is rejected by Validate, so Serialize cannot
   dereference it *)
Definition pattern_validate (v : gval) : outcome gval :=
  match v with VRegexp _ => Ok VNil | _ => Err (cerr ERepr) end.
Definition pattern_ser (v : gval) : outcome gval :=
  match v with VRegexp s => Ok (vstr s) | _ => Err (cerr ERepr) end.

(* ---------- any: checkAndConvert ---------- *)

Definition key_eqb (a b : gval) : bool :=
  match a, b with
  | VInt _ x, VInt _ y => x =? y
  | VStr _ x, VStr _ y => String.eqb x y
  | VBool _ x, VBool _ y => Bool.eqb x y
  | VFloat _ x, VFloat _ y => feq x y
  | _, _ => false
  end.
Fixpoint map_set (k v : gval) (l : list (gval * gval)) : list (gval * gval) :=
  match l with
  | [] => [(k, v)]
  | (k', v') :: t => if key_eqb k k' then (k, v) :: t else (k', v') :: map_set k v t
  end.
Fixpoint map_get (k : gval) (l : list (gval * gval)) : option gval :=
  match l with
  | [] => None
  | (k', v') :: t => if key_eqb k k' then Some v' else map_get k t
  end.
Fixpoint smap_get (k : string) (l : list (gval * gval)) : option gval :=
  match l with
  | [] => None
  | (VStr _ k', v') :: t => if String.eqb k k' then Some v' else smap_get k t
  | _ :: t => smap_get k t
  end.
Fixpoint smap_del (k : string) (l : list (gval * gval)) : list (gval * gval) :=
  match l with
  | [] => []
  | (VStr ty k', v') :: t => if String.eqb k k' then smap_del k t else (VStr ty k', v') :: smap_del k t
  | x :: t => x :: smap_del k t
  end.

Fixpoint any_conv (fuel : nat) (v : gval) {struct fuel} : outcome gval :=
  match fuel with
  | O => OutOfFuel
  | S f =>
    match kind_of v with
    | KInt I64 => match v with VInt _ z => Ok (vi64 z) | _ => Err (cerr ERepr) end      (* D07 repaired: t.Int() *)
    (* the mappers' own errors are wrapped in a ConstraintError (D53 repaired; any.go used to pass them through) *)
    | KInt _ => match int_mapper None v with Some z => Ok (vi64 z) | None => Err (cerr ERepr) end
    | KF32 => match float_mapper (fun _ _ => None) None v with Some x => Ok (vf64 x) | None => Err (cerr ERepr) end
    | KF64 => match conv_float64 v with Some x => Ok (vf64 x) | None => Err (cerr ERepr) end
    | KString => match v with VStr _ s => Ok (vstr s) | _ => Err (cerr ERepr) end         (* D07 repaired: t.String() *)
    | KBool => bool_ser v
    | KSlice => match v with
                | VSlice _ _ l => ys <- mapMi (fun i x => seg (idx_seg i) (any_conv f x)) 0 l ;;
                                  Ok (VSlice t_any_slice false ys)
                | _ => Err (cerr ERepr)
                end
    | KMap => match v with
              | VMap _ _ kvs =>
                  r <- fold_left (fun acc kv =>
                         a <- acc ;;
                         k' <- seg (mkey_seg (fst kv)) (any_conv f (fst kv)) ;;
                         v' <- seg (mval_seg k') (any_conv f (snd kv)) ;;
                         Ok (map_set k' v' a)) kvs (Ok []) ;;
                  Ok (VMap t_any_map false r)
              | _ => Err (cerr ERepr)
              end
    | _ => Err (cerr ERepr)
    end
  end.

(* ---------- objects: presence rules ---------- *)

Definition raw := list (string * gval).         (* map[string]any under construction *)
Definition raw_set (k : string) (v : gval) (r : raw) : raw :=
  if amem k r then map (fun kv => if String.eqb (fst kv) k then (k, v) else kv) r else (r ++ [(k, v)])%list.
Definition raw_to_val (r : raw) : gval := VMap t_str_map false (map (fun kv => (vstr (fst kv), snd kv)) r).

(* validateFieldInterdependencies, properties in the given order *)
Definition check_prop_rules (set : string -> bool) (name : string) (p : property) : outcome unit :=
  if set name then
    if existsb set (p_conflicts p) then Err (cerr_at [name] EPresence) else Ok tt
  else
    if p_required p then Err (cerr_at [name] EPresence)
    else if existsb set (p_required_if p) then Err (cerr_at [name] EPresence)
    else match p_required_if_not p with
         | [] => Ok tt
         | l => if existsb set l then Ok tt else Err (cerr_at [name] EPresence)
         end.
Definition check_rules (props : list (string * property)) (set : string -> bool) : outcome unit :=
  forM_ (fun np => check_prop_rules set (fst np) (snd np)) props.

(* extractObjectDefaultValues / jsonUnmarshal: the default text decoded by encoding/json;
   for a string-typed property a text that is not JSON is retried in quotes *)
Definition decode_default (o : oracles) (p : property) (txt : string) : option gval :=
  match o_json o txt with
  | Some v => Some v
  | None => match type_id_of (p_type p) with
            | IdString => o_json o ("""" ++ txt ++ """")
            | _ => None
            end
  end.

(* the exact key type the object code insists on: map[string]any *)
Definition is_str_any_map (v : gval) : option (list (gval * gval)) :=
  match v with
  | VMap t _ kvs => if gtype_eqb t t_str_map then Some kvs else None
  | _ => None
  end.

Definition raw_of_entries (kvs : list (gval * gval)) : raw :=
  flat_map (fun kv => match fst kv with VStr _ s => [(s, snd kv)] | _ => [] end) kvs.

(* ---------- the four mutually recursive operations ---------- *)

Section WithTables.
Variable words : list (string * bool).                 (* boolStringValues (Generated/Tables.v) *)
Variable pu : units -> string -> option fl.            (* UnitsDefinition.ParseFloat *)

Fixpoint unser (fuel : nat) (e : env) (s : schema) (v : gval) {struct fuel} : outcome gval :=
  match fuel with
  | O => OutOfFuel
  | S f =>
    match s with
    | SInt mn mx u => int_unser mn mx u v
    | SFloat mn mx u => float_unser pu mn mx u v
    | SString mn mx pat => string_unser mn mx pat v
    | SBool => bool_unser words v
    | SPattern => pattern_unser (e_or e) v
    | SAny => any_conv f v
    | SEnumInt vals u => enum_int_unser vals u v
    | SEnumStr named vals => enum_str_unser named vals v
    | SList it mn mx =>
        match v with
        | VSlice _ _ l =>
            if size_ok mn mx (zlen l) then
              ys <- mapMi (fun i x => seg (idx_seg i) (unser f e it x)) 0 l ;;
              Ok (VSlice (TSlice (rtype it)) false ys)
            else Err (cerr EBound)
        | _ => Err (cerr ERepr)
        end
    | SMap ks vs mn mx =>
        match v with
        | VMap _ _ kvs =>
            if size_ok mn mx (zlen kvs) then
              r <- fold_left (fun acc kv =>
                     a <- acc ;;
                     k' <- seg (mkey_seg (fst kv)) (unser f e ks (fst kv)) ;;
                     v' <- seg (mval_seg (fst kv)) (unser f e vs (snd kv)) ;;
                     Ok (map_set k' v' a)) kvs (Ok []) ;;
              Ok (VMap (TMap (rtype ks) (rtype vs)) false r)
            else Err (cerr EBound)
        | _ => Err (cerr ERepr)
        end
    | SObject id _ props =>
        match v with
        | VMap _ _ kvs =>
            (* convertData: string keys, all declared *)
            r0 <- fold_left (fun acc kv =>
                    a <- acc ;;
                    match fst kv with
                    | VStr TStr k => if amem k props then Ok (a ++ [(k, snd kv)])%list else Err (cerr EKey)
                    | _ => Err (cerr EKey)
                    end) kvs (Ok []) ;;
            (* defaults for absent properties (a supplied value is never replaced) *)
            let r1 := fold_left (fun a np =>
                        if amem (fst np) a then a
                        else match p_default (snd np) with
                             | Some txt => match decode_default (e_or e) (snd np) txt with
                                           | Some d => (a ++ [(fst np, d)])%list
                                           | None => a
                                           end
                             | None => a
                             end) props r0 in
            (* every present property through its type; a disabled property is an error *)
            r2 <- fold_left (fun acc np =>
                    a <- acc ;;
                    match alookup (fst np) a with
                    | Some d =>
                        x <- seg (fst np)
                               (if p_disabled (snd np) then Err (cerr EDisabled)
                                else unser f e (p_type (snd np)) d) ;;
                        Ok (raw_set (fst np) x a)
                    | None => Ok a
                    end) props (Ok r1) ;;
            _ <- check_rules props (fun k => amem k r2) ;;
            Ok (raw_to_val r2)
        | _ =>
            (* a lone non-map value: shorthand for the single property of a one-property object *)
            match props with
            | [(name, p)] =>
                (* D34 (repaired): the property's error keeps its constraint and gains the field *)
                x <- seg name (if p_disabled p then Err (cerr EDisabled) else unser f e (p_type p) v) ;;
                _ <- check_rules props (fun k => String.eqb k name) ;;
                Ok (raw_to_val [(name, x)])
            | _ => Err (cerr ERepr)
            end
        end
    | SOneOf types ik field inlined =>
        match v with
        | VNil => Err (cerr ERepr)                  (* D66 (repaired): a constraint error, not fmt.Errorf *)
        | VMap _ _ kvs =>
            (* D09 (repaired): keys are checked before the discriminator is looked up *)
            if forallb (fun kv => match fst kv with VStr TStr _ => true | _ => false end) kvs then
              match smap_get field kvs with
              | None => Err (cerr EKey)
              | Some d =>
                  match (if ik then option_map KI (int_mapper None d) else option_map KS (string_mapper d)) with
                  | None => Err (cerr ERepr)
                  | Some key =>
                      match find (fun ks => okey_eqb (fst ks) key) types with
                      | None => Err (cerr EKey)
                      | Some (_, member) =>
                          let clone := if inlined then kvs else smap_del field kvs in
                          x <- unser f e member (VMap t_str_map false clone) ;;
                          match is_str_any_map x with
                          | Some xs =>
                              (* D12 (repaired): the typed discriminator, and only when the member does not own the field *)
                              if inlined then Ok x
                              else Ok (VMap t_str_map false
                                         (map_set (vstr field) (match key with KI z => vi64 z | KS s0 => vstr s0 end) xs))
                          | None => Ok x
                          end
                      end
                  end
              end
            else Err (cerr EKey)
        | _ => Err (cerr ERepr)
        end
    | SRef id ns _ =>
        match resolve e id ns with
        | Some (o, e') => unser f e' o v
        | None => Panic "unlinked reference"
        end
    | SScope objs root =>
        match alookup root objs with
        | Some o => unser f (env_enter e objs) o v
        | None => Panic "root object not found"
        end
    end
  end

with validate (fuel : nat) (e : env) (s : schema) (v : gval) {struct fuel} : outcome unit :=
  match fuel with
  | O => OutOfFuel
  | S f =>
    match s with
    | SInt mn mx _ => _ <- int_ser mn mx v ;; Ok tt
    | SFloat mn mx _ => _ <- float_ser mn mx v ;; Ok tt
    | SString mn mx pat => _ <- string_ser mn mx pat v ;; Ok tt
    | SBool => _ <- bool_ser v ;; Ok tt
    | SPattern => _ <- pattern_validate v ;; Ok tt
    | SAny => _ <- any_conv f v ;; Ok tt
    | SEnumInt vals _ => _ <- enum_int_ser vals v ;; Ok tt
    | SEnumStr _ vals => _ <- enum_str_ser vals v ;; Ok tt
    | SList it mn mx =>
        match v with
        | VSlice _ _ l =>
            if size_ok mn mx (zlen l) then
              _ <- mapMi (fun i x => seg (idx_seg i) (validate f e it x)) 0 l ;; Ok tt
            else Err (cerr EBound)
        | _ => Err (cerr ERepr)
        end
    | SMap ks vs mn mx =>
        match v with
        | VMap _ _ kvs =>
            if size_ok mn mx (zlen kvs) then
              forM_ (fun kv => _ <- seg (mkey_seg (fst kv)) (validate f e ks (fst kv)) ;;
                               seg (mval_seg (fst kv)) (validate f e vs (snd kv))) kvs
            else Err (cerr EBound)
        | _ => Err (cerr ERepr)
        end
    | SObject id _ props =>
        match is_str_any_map v with
        | Some kvs =>
            let r := raw_of_entries kvs in
            _ <- check_rules props (fun k => amem k r) ;;
            forM_ (fun kv => match alookup (fst kv) props with
                             | Some p => seg (fst kv) (validate f e (p_type p) (snd kv))
                             | None => Err (cerr EKey)
                             end) r
        | None => Err (cerr ERepr)
        end
    | SOneOf types ik field inlined =>
        km <- oneof_find f e types ik field inlined v ;;
        let '(key, member, data') := km in
        seg (oneof_seg key) (validate f e member data')
    | SRef id ns _ =>
        match resolve e id ns with
        | Some (o, e') => validate f e' o v
        | None => Panic "unlinked reference"
        end
    | SScope objs root =>
        match alookup root objs with
        | Some o => validate f (env_enter e objs) o v
        | None => Panic "root object not found"
        end
    end
  end

(* findUnderlyingType + validateMap + deleteDiscriminator, shared by ValidateType and
   SerializeType: the typed key, the member and the data handed to it *)
with oneof_find (fuel : nat) (e : env) (types : list (okey * schema)) (ik : bool) (field : string)
                (inlined : bool) (v : gval) {struct fuel} : outcome (okey * schema * gval) :=
  match fuel with
  | O => OutOfFuel
  | S f =>
    match v with
    | VNil => Err (cerr ERepr)                      (* saveConvertTo recovers the reflect panic *)
    | _ =>
      match kind_of v with
      | KMap =>
          (* D08 (repaired): only map[string]any is a one-of value *)
          match is_str_any_map v with
          | None => Err (cerr ERepr)
          | Some kvs =>
              match smap_get field kvs with
              | None | Some VNil => Err (cerr EKey)
              | Some d =>
                  match (if ik then match d with VInt (TInt I64) z => Some (KI z) | _ => None end
                         else match d with VStr TStr s0 => Some (KS s0) | _ => None end) with
                  | None => Err (cerr ERepr)
                  | Some key =>
                      match find (fun ks => okey_eqb (fst ks) key) types with
                      | None => Err (cerr EKey)
                      | Some (_, member) =>
                          let clone := VMap t_str_map false (if inlined then kvs else smap_del field kvs) in
                          _ <- rewrap_path (compat f e member clone) ;;
                          Ok (key, member, clone)
                      end
                  end
              end
          end
      | KStruct => Err (cerr ERepr)                 (* no map-based member has a struct type *)
      | KPtr => Err (cerr ERepr)
      | _ => Err (cerr ERepr)
      end
    end
  end

with serialize (fuel : nat) (e : env) (s : schema) (v : gval) {struct fuel} : outcome gval :=
  match fuel with
  | O => OutOfFuel
  | S f =>
    match s with
    | SInt mn mx _ => int_ser mn mx v
    | SFloat mn mx _ => float_ser mn mx v
    | SString mn mx pat => string_ser mn mx pat v
    | SBool => bool_ser v
    | SPattern => pattern_ser v
    | SAny => any_conv f v
    | SEnumInt vals _ => enum_int_ser vals v
    | SEnumStr _ vals => enum_str_ser vals v
    | SList it mn mx =>
        _ <- validate f e s v ;;
        match v with
        | VSlice _ _ l =>
            ys <- mapMi (fun i x => seg (idx_seg i) (serialize f e it x)) 0 l ;;
            Ok (VSlice t_any_slice false ys)
        | _ => Err (cerr ERepr)
        end
    | SMap ks vs mn mx =>
        _ <- validate f e s v ;;
        match v with
        | VMap _ _ kvs =>
            r <- fold_left (fun acc kv =>
                   a <- acc ;;
                   k' <- seg (mkey_seg (fst kv)) (serialize f e ks (fst kv)) ;;
                   v' <- seg (mval_seg (fst kv)) (serialize f e vs (snd kv)) ;;
                   Ok (map_set k' v' a)) kvs (Ok []) ;;
            Ok (VMap t_any_map false r)
        | _ => Err (cerr ERepr)
        end
    | SObject id _ props =>
        match is_str_any_map v with
        | Some kvs =>
            let r := raw_of_entries kvs in
            _ <- check_rules props (fun k => amem k r) ;;
            out <- mapM (fun kv => match alookup (fst kv) props with
                                   | Some p => x <- seg (fst kv) (serialize f e (p_type p) (snd kv)) ;; Ok (fst kv, x)
                                   | None => Err (cerr EKey)
                                   end) r ;;
            Ok (raw_to_val out)
        | None => Err (cerr ERepr)
        end
    | SOneOf types ik field inlined =>
        km <- oneof_find f e types ik field inlined v ;;
        let '(key, member, data') := km in
        x <- serialize f e member data' ;;
        match is_str_any_map x with
        | Some xs =>
            match smap_get field xs with
            | Some _ => Ok x
            | None => Ok (VMap t_str_map false
                            (map_set (vstr field) (match key with KI z => vi64 z | KS s0 => vstr s0 end) xs))
            end
        | None => Panic "one-of member serialized to a non-map"
        end
    | SRef id ns _ =>
        match resolve e id ns with
        | Some (o, e') => serialize f e' o v
        | None => Panic "unlinked reference"
        end
    | SScope objs root =>
        match alookup root objs with
        | Some o => serialize f (env_enter e objs) o v
        | None => Panic "root object not found"
        end
    end
  end

(* ValidateCompatibility(data): the argument is a value, not a schema *)
with compat (fuel : nat) (e : env) (s : schema) (v : gval) {struct fuel} : outcome unit :=
  match fuel with
  | O => OutOfFuel
  | S f =>
    match s with
    | SInt _ _ _ | SFloat _ _ _ | SBool => _ <- unser f e s v ;; Ok tt
    | SString _ _ _ => match v with VStr TStr _ => _ <- unser f e s v ;; Ok tt | _ => Err (cerr ERepr) end
    | SEnumInt _ _ | SEnumStr _ _ | SPattern => validate f e s v
    | SAny =>
        match v with
        | VMap t _ kvs =>
            if gtype_eqb t t_str_map || gtype_eqb t (TMap (TInt I64) TAny) then
              forM_ (fun kv => rewrap true (compat f e SAny (snd kv))) kvs
            else if gtype_eqb t t_any_map then
              (* validateAnyMap: keys int64 or string, all of one kind *)
              match kvs with
              | [] => Ok tt
              | (k0, _) :: _ =>
                  forM_ (fun kv =>
                           match kind_of (fst kv) with
                           | KInt I64 | KString =>
                               if match kind_of k0, kind_of (fst kv) with
                                  | KInt I64, KInt I64 | KString, KString => true
                                  | _, _ => false end
                               then rewrap true (compat f e SAny (snd kv))
                               else Err (cerr EKey)
                           | _ => Err (cerr EKey)
                           end) kvs
              end
            else _ <- any_conv f v ;; Ok tt
        | VSlice t _ l =>
            if gtype_eqb t t_any_slice then
              (* validateAnyList: every item, then homogeneous kinds *)
              _ <- forM_ (fun x => rewrap true (compat f e SAny x)) l ;;
              match l with
              | [] => Ok tt
              | x0 :: t0 => if forallb (fun x => match kind_of x0, kind_of x with
                                                 | KInvalid, KInvalid | KBool, KBool | KF32, KF32 | KF64, KF64
                                                 | KString, KString | KSlice, KSlice | KMap, KMap | KPtr, KPtr
                                                 | KStruct, KStruct | KInterface, KInterface | KOther, KOther => true
                                                 | KInt a, KInt b => gtype_eqb (TInt a) (TInt b)
                                                 | _, _ => false end) t0
                            then Ok tt else Err (cerr ERepr)
              end
            else _ <- any_conv f v ;; Ok tt
        | _ => _ <- any_conv f v ;; Ok tt
        end
    | SList it _ _ =>
        match v with
        | VSlice _ _ l => _ <- mapMi (fun i x => seg (idx_seg i) (compat f e it x)) 0 l ;; Ok tt
        | VPtr t (Some (VSlice _ _ l)) =>
            (* D49 (repaired): the kind is taken from reflect.Indirect(value), and so are Len and Index:
               a pointer whose element type is a slice is read as that slice (a *any is not) *)
            match underlying t with
            | TPtr te => match kind_of_type te with
                         | KSlice => _ <- mapMi (fun i x => seg (idx_seg i) (compat f e it x)) 0 l ;; Ok tt
                         | _ => Err (cerr ERepr)
                         end
            | _ => Err (cerr ERepr)
            end
        | _ => Err (cerr ERepr)
        end
    | SMap ks vs mn mx =>
        match v with
        | VMap _ _ kvs =>
            if size_ok mn mx (zlen kvs) then
              forM_ (fun kv => _ <- seg (mkey_seg (fst kv)) (compat f e ks (fst kv)) ;;
                               seg (mval_seg (fst kv)) (compat f e vs (snd kv))) kvs
            else Err (cerr EBound)
        | _ => Err (cerr ERepr)
        end
    | SObject id _ props =>
        match is_str_any_map v with
        | Some kvs =>
            (* validateMapTypesCompatibility *)
            let r := raw_of_entries kvs in
            _ <- forM_ (fun kv => match alookup (fst kv) props with
                                  | Some p =>
                                      seg (fst kv)
                                        (_ <- rewrap_path (compat f e (p_type p) (snd kv)) ;;
                                         if p_disabled p then Err (cerr EDisabled) else Ok tt)
                                  | None => Err (cerr EKey)
                                  end) r ;;
            forM_ (fun np => if p_required (snd np)
                             then match alookup (fst np) r with
                                  | None | Some VNil => Err (cerr_at [fst np] EPresence)
                                  | Some _ => Ok tt
                                  end
                             else Ok tt) props
        | None => _ <- rewrap_path (unser f e s v) ;; Ok tt
        end
    | SOneOf types ik field inlined =>
        match is_str_any_map v with
        | Some _ => _ <- oneof_find f e types ik field inlined v ;; Ok tt
        | None =>
            match kind_of v with
            | KStruct => Err (cerr ERepr)
            | KPtr => match v with
                      | VPtr _ (Some (VStruct _ _)) | VOpaque OPtr _ => Err (cerr ERepr)
                      | VPtr _ None => Err (cerr ERepr)
                      | _ => validate f e s v
                      end
            | _ => validate f e s v
            end
        end
    | SRef id ns _ =>
        match resolve e id ns with
        | Some (o, e') => compat f e' o v
        | None => Panic "unlinked reference"
        end
    | SScope objs root =>
        match alookup root objs with
        | Some o => compat f (env_enter e objs) o v
        | None => Panic "root object not found"
        end
    end
  end.

End WithTables.
