(* Schema/Units.v — model of schema/units.go (integer side exact; float side in FloatUnits.v).
   Follows the Go code function by function.  int64 wrap-around is written out where
   the code multiplies or adds without a check. *)
From Verif Require Import Base.Prelude Base.Str Schema.Regex.

Record unit_def := mkUnit { u_ss : string; u_sp : string; u_ls : string; u_lp : string }.
(* Go: map[int64]*UnitDefinition — association list with unique keys *)
Record units := mkUnits { u_base : unit_def; u_mults : list (Z * unit_def) }.

(* getSortedMultipliersCache: keys, descending (sort.SliceStable with >; keys are unique) *)
Fixpoint insert_desc (x : Z * unit_def) (l : list (Z * unit_def)) : list (Z * unit_def) :=
  match l with
  | [] => [x]
  | y :: t => if fst y <? fst x then x :: l else y :: insert_desc x t
  end.
Definition sorted_mults (u : units) : list (Z * unit_def) :=
  fold_right insert_desc [] (u_mults u).

(* ---------- formatting (integers) ---------- *)

(* formatNumberUnitShort[int64] / formatNumberUnitLong[int64]: "%d" ++ name;
   nothing for 0 unless displayZero *)
Definition fmt_unit_short_int (amount : Z) (u : unit_def) (display_zero : bool) : string :=
  if (amount =? 1) || (amount =? -1) then (z_to_dec amount ++ u_ss u)%string
  else if negb (amount =? 0) then (z_to_dec amount ++ u_sp u)%string
  else if display_zero then (z_to_dec amount ++ u_sp u)%string
  else EmptyString.
Definition fmt_unit_long_int (amount : Z) (u : unit_def) (display_zero : bool) : string :=
  if (amount =? 1) || (amount =? -1) then (z_to_dec amount ++ u_ls u)%string
  else if negb (amount =? 0) then (z_to_dec amount ++ u_lp u)%string
  else if display_zero then (z_to_dec amount ++ u_lp u)%string
  else EmptyString.

(* greedy decomposition: for each multiplier (descending) count = remainder / multiplier
   (Go integer division; remainder >= 0 here), remainder -= count * multiplier *)
Fixpoint decompose (ms : list Z) (remainder : Z) : list Z * Z :=
  match ms with
  | [] => ([], remainder)
  | m :: t => let c := remainder / m in
              let '(cs, r) := decompose t (remainder - c * m) in (c :: cs, r)
  end.

Definition format_int_with (fmt1 : Z -> unit_def -> bool -> string) (u : units) (data : Z) : string :=
  if data =? 0 then fmt1 0 (u_base u) true
  else
    let sm := sorted_mults u in
    let '(cs, r) := decompose (map fst sm) data in
    (concat_str (map (fun cu => fmt1 (fst cu) (snd (snd cu)) false) (combine cs sm))
     ++ fmt1 r (u_base u) false)%string.

Definition format_short_int := format_int_with fmt_unit_short_int.
Definition format_long_int := format_int_with fmt_unit_long_int.

(* ---------- the parser's regular expression (updateReCache) ---------- *)

Definition unit_names (u : unit_def) : list string := [u_ss u; u_sp u; u_ls u; u_lp u].

(* (?:|(?P<gM>[0-9]+)\s*(ss|sp|ls|lp)) *)
Definition mult_part (m : Z) (u : unit_def) : re :=
  Alt Eps (Cat (Grp m (plus digit_cls)) (Cat (Star space_cls) (alts (map lit (unit_names u))))).
(* (?:|(?P<g1>[0-9]+(|\.[0-9]+))\s*(|ss|sp|ls|lp)) *)
Definition base_part (u : unit_def) : re :=
  Alt Eps (Cat (Grp 1 (Cat (plus digit_cls) (Alt Eps (Cat (Chr "."%char) (plus digit_cls)))))
               (Cat (Star space_cls) (alts (Eps :: map lit (unit_names u))))).

Fixpoint join_parts (l : list re) : re :=
  match l with
  | [] => Eps
  | [x] => x
  | x :: t => Cat x (Cat (Star space_cls) (join_parts t))
  end.

(* "^\s*" + strings.Join(parts, "\s*") + "\s*$" *)
Definition units_re (u : units) : re :=
  Cat Bol (Cat (Star space_cls)
    (Cat (join_parts (map (fun mu => mult_part (fst mu) (snd mu)) (sorted_mults u) ++ [base_part (u_base u)]))
         (Cat (Star space_cls) Eol))).

(* ---------- parsing ---------- *)

Inductive uparse :=
| UInt (z : Z)            (* parse returned int64 *)
| UFloatTok               (* a token contains "." : the float path (FloatUnits.v) *)
| UErr.                   (* UnitParseError / BadArgumentError *)

(* handleParseMultiplier on the integer path with the overflow checks of the repaired code:
   the product and the running sum must stay inside int64. *)
Definition accumulate_tok (acc : option Z) (tok : list ascii) (m : Z) : option Z :=
  match acc with
  | None => None
  | Some a =>
      match tok with
      | [] => Some a
      | _ => match parse_int (unchars tok) with
             | None => None
             | Some i => let p := i * m in
                         if in_i64 p && in_i64 (a + p) then Some (a + p) else None
             end
      end
  end.

Definition parse_units (u : units) (data : string) : uparse :=
  let d := chars (trim_space data) in
  match d with
  | [] => UErr
  | _ =>
    match re_match_at (units_re u) (List.length d) d with
    | None => UErr
    | Some cs =>
        let sm := sorted_mults u in
        let toks := map (fun mu => (cap_get (fst mu) cs, fst mu)) sm ++ [(cap_get 1 cs, 1)] in
        if existsb (fun tm => contains_chr "."%char (fst tm)) toks then UFloatTok
        else match fold_left (fun acc tm => accumulate_tok acc (fst tm) (snd tm)) toks (Some 0) with
             | Some z => UInt z
             | None => UErr
             end
    end
  end.

(* UnitsDefinition.ParseInt *)
Definition parse_units_int (u : units) (data : string) : option Z :=
  match parse_units u data with UInt z => Some z | _ => None end.

(* well-formed definitions: positive multipliers > 1, unique, non-empty names *)
Definition wf_unit_def (d : unit_def) : bool :=
  negb (String.eqb (u_ss d) "") && negb (String.eqb (u_sp d) "")
  && negb (String.eqb (u_ls d) "") && negb (String.eqb (u_lp d) "").
Fixpoint z_in (x : Z) (l : list Z) : bool :=
  match l with [] => false | y :: t => (x =? y) || z_in x t end.
Fixpoint nodup_z (l : list Z) : bool :=
  match l with [] => true | x :: t => negb (z_in x t) && nodup_z t end.
Definition wf_units (u : units) : bool :=
  wf_unit_def (u_base u) && forallb (fun mu => (2 <=? fst mu) && in_i64 (fst mu) && wf_unit_def (snd mu)) (u_mults u)
  && nodup_z (map fst (u_mults u)).
