(* Schema/DescribeNest.v — how deep a description nests on the wire (C09, the ATP hello message).

   gnest v      the number of CBOR containers (maps, arrays) on the longest path of a value: what
                fxamacker/cbor counts against MaxNestedLevels when it checks a message before decoding it.
   hello_nest d the nesting of the hello message {version, schema: d}.
   cbor_max_nested   the library default (32) of the decoder the ATP client reads the hello message with;
                the encoder has no limit and the server decodes only what the client sends. A hello message
                nested deeper is rejected by ReadSchema with an error (checked by family c09hello on every
                run, on a ladder of schemas around the limit). *)
From Verif Require Import Base.Prelude Base.Str Base.Float Base.GoVal
  Schema.Regex Schema.Units Schema.Syntax Schema.Ops Schema.Describe.

Fixpoint gnest (v : gval) : nat :=
  match v with
  | VSlice _ _ l => S (fold_right (fun x acc => Nat.max (gnest x) acc) O l)
  | VMap _ _ kvs => S (fold_right (fun kv acc => Nat.max (Nat.max (gnest (fst kv)) (gnest (snd kv))) acc) O kvs)
  | _ => O
  end.

Definition hello_nest (d : gval) : nat := S (gnest d).
Definition cbor_max_nested : nat := 32.
