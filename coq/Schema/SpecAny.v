(* Schema/SpecAny.v — declarative reading of the `any` schema (C02): which raw values it accepts and
   what they denote.  "any" takes every value built from the basic kinds - booleans, integers of any
   width that fit int64, float32/float64, strings (named types of int64 / float64 / string / bool kind
   included), slices and maps of such values - and normalises it: integers to int64, floats to
   float64, strings and booleans to the plain types, slices to []any, maps to map[any]any; nil,
   pointers, structs, functions, channels ... denote nothing. *)
From Verif Require Import Base.Prelude Base.Str Base.Float Base.GoVal
  Schema.Regex Schema.Units Schema.Syntax Schema.Ops Schema.Spec.
Open Scope Z_scope.

(* the dynamic type of every node agrees with the sort of value it holds, integers fit their type *)
Fixpoint go_shape (v : gval) : Prop :=
  match v with
  | VNil | VRegexp _ | VOpaque _ _ => True
  | VBool t _ => kind_of_type t = KBool
  | VInt t z => exists k, kind_of_type t = KInt k /\ ik_in k z = true
  | VFloat t _ => kind_of_type t = KF32 \/ kind_of_type t = KF64
  | VStr t _ => kind_of_type t = KString
  | VSlice t _ l =>
      kind_of_type t = KSlice /\
      (fix all (l : list gval) : Prop := match l with [] => True | x :: r => go_shape x /\ all r end) l
  | VMap t _ kvs =>
      kind_of_type t = KMap /\
      (fix all (l : list (gval * gval)) : Prop :=
         match l with [] => True | (k, x) :: r => go_shape k /\ go_shape x /\ all r end) kvs
  | VPtr t _ => kind_of_type t = KPtr
  | VStruct t _ => kind_of_type t = KStruct
  end.

Fixpoint vdepth (v : gval) : nat :=
  match v with
  | VSlice _ _ l =>
      S ((fix mx (l : list gval) : nat := match l with [] => O | x :: r => Nat.max (vdepth x) (mx r) end) l)
  | VMap _ _ kvs =>
      S ((fix mx (l : list (gval * gval)) : nat :=
            match l with [] => O | (k, x) :: r => Nat.max (vdepth k) (Nat.max (vdepth x) (mx r)) end) kvs)
  | _ => O
  end.

Inductive any_denotes : gval -> gval -> Prop :=
| AD_int64 : forall t z, kind_of_type t = KInt I64 -> any_denotes (VInt t z) (vi64 z)
| AD_int : forall k z, k <> I64 -> z <= max_i64 -> any_denotes (VInt (TInt k) z) (vi64 z)
| AD_f32 : forall f, any_denotes (VFloat TF32 f) (vf64 f)
| AD_f64 : forall t f, kind_of_type t = KF64 -> any_denotes (VFloat t f) (vf64 f)
| AD_str : forall t s, kind_of_type t = KString -> any_denotes (VStr t s) (vstr s)
| AD_bool : forall t b, kind_of_type t = KBool -> any_denotes (VBool t b) (vbool b)
| AD_slice : forall t nl l ys, kind_of_type t = KSlice -> Forall2 any_denotes l ys ->
    any_denotes (VSlice t nl l) (VSlice t_any_slice false ys)
| AD_map : forall t nl kvs r, kind_of_type t = KMap -> map_built any_denotes any_denotes kvs [] r ->
    any_denotes (VMap t nl kvs) (VMap t_any_map false r).
