(* Schema/Describe.v — self-description (C09) and loading a description (C09, C10).

   describe  : schema -> gval      the wire format of SelfSerialize, node by node: struct-mapped meta
                                   objects are map[string]any, maps of the meta-schema are
                                   map[any]any, lists are []any, numbers int64 / float64; a nil pointer or
                                   nil interface field is left out, a nil map or slice is written empty.
   rebuild   : gval -> outcome schema   UnserializeScope as it is after the fixes for D27, D30, D32, D40:
                                   (1) `parse`  acceptance by the meta-schema (schema/schema_schema.go), with
                                       every lenient conversion of the generic unserializers (numbers from
                                       strings, strings from numbers, boolean words, defaults of the
                                       meta-properties), building the schema structs;
                                   (2) `link`   ApplySelf: root check, references of the self namespace,
                                       one-of members against the inline flag, eager decoding of the
                                       property defaults — every panic of that step is returned as an error.
   rebuild_plugin                  UnserializeSchema / Client.ReadSchema: parse, link every data schema
                                   (inputs, outputs and — D31 — signals), reject unlinked references.
   describable                     the meta-schema's own constraints on what SelfSerialize accepts.

   Written directly over the description format, NOT through the generic interpreter on the
   1300-line table (DESIGN §10 fall-back); the agreement with the real SelfSerialize /
   UnserializeScope / UnserializeSchema is checked on every run (families c09describe, c10mutants). *)
From Verif Require Import Base.Prelude Base.Str Base.Float Base.GoVal
  Schema.Regex Schema.Units Schema.Syntax Schema.Ops.
Open Scope string_scope.
Open Scope Z_scope.

(* ---------- whole plugin schemas ---------- *)
Record dsignal := mkSignal { sg_id : string; sg_data : schema; sg_display : option display }.
Record doutput := mkOutput { so_schema : schema; so_display : option display; so_error : bool }.
Record dstep := mkStep {
  st_id : string; st_input : schema; st_outputs : list (string * doutput);
  st_handlers : list (string * dsignal); st_emitters : list (string * dsignal);
  st_display : option display }.
Definition dplugin := list (string * dstep).

(* ---------- describe ---------- *)
Definition dobj (fs : list (string * gval)) : gval :=
  VMap t_str_map false (map (fun kv => (vstr (fst kv), snd kv)) fs).
Definition dmap (kvs : list (gval * gval)) : gval := VMap t_any_map false kvs.
Definition dlist (l : list gval) : gval := VSlice t_any_slice false l.
Definition dstrs (l : list string) : gval := dlist (map vstr l).
Definition ofield {A} (k : string) (f : A -> gval) (o : option A) : list (string * gval) :=
  match o with Some a => [(k, f a)] | None => [] end.

Definition d_display (d : display) : gval :=
  dobj (ofield "description" vstr (d_desc d) ++ ofield "icon" vstr (d_icon d) ++ ofield "name" vstr (d_name d)).
Definition d_unit (u : unit_def) : gval :=
  dobj [("name_long_plural", vstr (u_lp u)); ("name_long_singular", vstr (u_ls u));
        ("name_short_plural", vstr (u_sp u)); ("name_short_singular", vstr (u_ss u))].
Definition d_units (u : units) : gval :=
  dobj [("base_unit", d_unit (u_base u));
        ("multipliers", dmap (map (fun mu => (vi64 (fst mu), d_unit (snd mu))) (u_mults u)))].
Definition d_odisp (o : option display) : gval :=
  match o with Some d => d_display d | None => VNil end.   (* VNil: not describable (D29: nil enum display) *)
Definition key_val (k : okey) : gval := match k with KI z => vi64 z | KS s => vstr s end.

Definition tid_of (s : schema) : string :=
  match s with
  | SInt _ _ _ => "integer" | SFloat _ _ _ => "float" | SString _ _ _ => "string" | SBool => "bool"
  | SPattern => "pattern" | SAny => "any" | SEnumInt _ _ => "enum_integer" | SEnumStr _ _ => "enum_string"
  | SList _ _ _ => "list" | SMap _ _ _ _ => "map" | SObject _ _ _ => "object"
  | SOneOf _ ik _ _ => if ik then "one_of_int" else "one_of_string"
  | SRef _ _ _ => "ref" | SScope _ _ => "scope"
  end.

(* the fields of a type, without the discriminator *)
Fixpoint d_fields (s : schema) : list (string * gval) :=
  match s with
  | SInt mn mx u => ofield "max" vi64 mx ++ ofield "min" vi64 mn ++ ofield "units" d_units u
  | SFloat mn mx u => ofield "max" vf64 mx ++ ofield "min" vf64 mn ++ ofield "units" d_units u
  | SString mn mx pat =>
      ofield "max" vi64 mx ++ ofield "min" vi64 mn ++ ofield "pattern" (fun p => vstr (fst p)) pat
  | SBool | SPattern | SAny => []
  | SEnumInt vals u =>
      ofield "units" d_units u ++ [("values", dmap (map (fun zd => (vi64 (fst zd), d_odisp (snd zd))) vals))]
  | SEnumStr _ vals => [("values", dmap (map (fun sd => (vstr (fst sd), d_odisp (snd sd))) vals))]
  | SList it mn mx =>
      [("items", dobj (("type_id", vstr (tid_of it)) :: d_fields it))] ++ ofield "max" vi64 mx ++ ofield "min" vi64 mn
  | SMap k v mn mx =>
      [("keys", dobj (("type_id", vstr (tid_of k)) :: d_fields k))] ++ ofield "max" vi64 mx ++ ofield "min" vi64 mn
      ++ [("values", dobj (("type_id", vstr (tid_of v)) :: d_fields v))]
  | SObject id un props =>
      [("id", vstr id); ("id_unenforced", vbool un);
       ("properties", dmap (map (fun np =>
          match np with
          | (name, mkProp t d req rif rifn confl dflt ex _ dis reason) =>
              (vstr name,
               dobj ([("conflicts", dstrs confl)] ++ ofield "default" vstr dflt ++ [("disabled", vbool dis)]
                     ++ ofield "disabled_reason" vstr reason ++ ofield "display" d_display d
                     ++ [("examples", dstrs ex); ("required", vbool req); ("required_if", dstrs rif);
                         ("required_if_not", dstrs rifn);
                         ("type", dobj (("type_id", vstr (tid_of t)) :: d_fields t))]))
          end) props))]
  | SOneOf types ik field inlined =>
      [("discriminator_field_name", vstr field); ("discriminator_inlined", vbool inlined);
       ("types", dmap (map (fun km => match km with
                                      | (k, m) => (key_val k, dobj (("type_id", vstr (tid_of m)) :: d_fields m))
                                      end) types))]
  | SRef id ns d => ofield "display" d_display d ++ [("id", vstr id); ("namespace", vstr ns)]
  | SScope objs root =>
      [("objects", dmap (map (fun io => match io with (i, o) => (vstr i, dobj (d_fields o)) end) objs));
       ("root", vstr root)]
  end.

Definition d_type (s : schema) : gval := dobj (("type_id", vstr (tid_of s)) :: d_fields s).
(* ScopeSchema.SelfSerialize: the scope object itself, without a discriminator *)
Definition describe (s : schema) : gval := dobj (d_fields s).

Definition d_signal (g : dsignal) : gval :=
  dobj ([("data_schema", describe (sg_data g))] ++ ofield "display" d_display (sg_display g) ++ [("id", vstr (sg_id g))]).
Definition d_signals (l : list (string * dsignal)) : gval :=
  dmap (map (fun kg => (vstr (fst kg), d_signal (snd kg))) l).
Definition d_output (o : doutput) : gval :=
  dobj (ofield "display" d_display (so_display o) ++ [("error", vbool (so_error o)); ("schema", describe (so_schema o))]).
Definition d_step (st : dstep) : gval :=
  dobj (ofield "display" d_display (st_display st)
        ++ [("id", vstr (st_id st)); ("input", describe (st_input st));
            ("outputs", dmap (map (fun ko => (vstr (fst ko), d_output (snd ko))) (st_outputs st)));
            ("signal_emitters", d_signals (st_emitters st)); ("signal_handlers", d_signals (st_handlers st))]).
Definition describe_plugin (p : dplugin) : gval :=
  dobj [("steps", dmap (map (fun ks => (vstr (fst ks), d_step (snd ks))) p))].

(* ---------- what description loses: TreatEmptyAsDefaultValue is not part of the wire format ---------- *)
Fixpoint erase (s : schema) : schema :=
  match s with
  | SList it mn mx => SList (erase it) mn mx
  | SMap k v mn mx => SMap (erase k) (erase v) mn mx
  | SObject id un props =>
      SObject id un (map (fun np =>
        match np with
        | (name, mkProp t d req rif rifn confl dflt ex _ dis reason) =>
            (name, mkProp (erase t) d req rif rifn confl dflt ex false dis reason)
        end) props)
  | SOneOf types ik field inlined =>
      SOneOf (map (fun km => match km with (k, m) => (k, erase m) end) types) ik field inlined
  | SScope objs root => SScope (map (fun io => match io with (i, o) => (i, erase o) end) objs) root
  | x => x
  end.

(* ---------- parse: acceptance by the meta-schema ---------- *)

(* idType: ^[$@a-zA-Z0-9-_]+$ , 1..255 bytes *)
Definition id_cls : re :=
  Cls false [("$"%char, "$"%char); ("@"%char, "@"%char); ("a"%char, "z"%char); ("A"%char, "Z"%char);
             ("0"%char, "9"%char); ("-"%char, "-"%char); ("_"%char, "_"%char)].
Definition id_re : re := Cat Bol (Cat (plus id_cls) Eol).
Definition id_pat : string * re := ("^[$@a-zA-Z0-9-_]+$", id_re).

Definition fields := list (string * gval).

(* ObjectSchema.convertData on a struct-mapped meta object: a map whose keys are strings, all declared *)
Definition conv_fields (allowed : list string) (v : gval) : outcome fields :=
  match v with
  | VMap _ _ kvs =>
      fold_left (fun acc kv =>
                   a <- acc ;;
                   match fst kv with
                   | VStr TStr k => if str_in k allowed then Ok (a ++ [(k, snd kv)])%list else Err (cerr EKey)
                   | _ => Err (cerr EKey)
                   end) kvs (Ok [])
  | _ => Err (cerr ERepr)
  end.

Definition opt_field {A} (fs : fields) (k : string) (rd : gval -> outcome A) : outcome (option A) :=
  match alookup k fs with None => Ok None | Some v => x <- rd v ;; Ok (Some x) end.
Definition req_field {A} (fs : fields) (k : string) (rd : gval -> outcome A) : outcome A :=
  match alookup k fs with None => Err (cerr_at [k] EPresence) | Some v => rd v end.
Definition odflt {A} (d : A) (o : option A) : A := match o with Some a => a | None => d end.

(* replace-or-append: assignment into a Go map *)
Fixpoint aset {K V} (keq : K -> K -> bool) (k : K) (v : V) (l : list (K * V)) : list (K * V) :=
  match l with
  | [] => [(k, v)]
  | (k', v') :: t => if keq k k' then (k, v) :: t else (k', v') :: aset keq k v t
  end.

(* MapSchema.Unserialize *)
Definition rd_map {K V} (rk : gval -> outcome K) (rv : gval -> outcome V) (keq : K -> K -> bool)
                  (mn : option Z) (v : gval) : outcome (list (K * V)) :=
  match v with
  | VMap _ _ kvs =>
      if size_ok mn None (zlen kvs) then
        fold_left (fun acc kv => a <- acc ;; k <- rk (fst kv) ;; x <- rv (snd kv) ;; Ok (aset keq k x a)) kvs (Ok [])
      else Err (cerr EBound)
  | _ => Err (cerr ERepr)
  end.

Definition oneof_split (v : gval) : outcome (string * gval) :=
  match v with
  | VMap _ _ kvs =>
      if forallb (fun kv => match fst kv with VStr TStr _ => true | _ => false end) kvs then
        match smap_get "type_id" kvs with
        | None => Err (cerr EKey)
        | Some d => match string_mapper d with
                    | None => Err (cerr ERepr)
                    | Some tid => Ok (tid, VMap t_str_map false (smap_del "type_id" kvs))
                    end
        end
      else Err (cerr EKey)
  | _ => Err (cerr ERepr)
  end.

Section Load.
Variable words : list (string * bool).            (* boolStringValues *)
Variable pu : units -> string -> option fl.       (* UnitsDefinition.ParseFloat *)
Variable chars_units : units.                     (* UnitCharacters (Generated/Tables.v) *)
Variable re_parse : string -> option re.          (* regexp.Compile; None = does not compile *)
Variable jor : oracles.                           (* encoding/json on default texts *)

Definition rd_int (mn mx : option Z) (u : option units) (v : gval) : outcome Z :=
  match int_mapper u v with
  | Some z => if size_ok mn mx z then Ok z else Err (cerr EBound)
  | None => Err (cerr ERepr)
  end.
Definition rd_float (v : gval) : outcome fl :=
  match float_mapper pu None v with Some f => Ok f | None => Err (cerr ERepr) end.
Definition rd_str (mn mx : option Z) (pat : option (string * re)) (v : gval) : outcome string :=
  match string_mapper v with
  | Some s => if size_ok mn mx (slen s) then
                match pat with
                | Some (_, r) => if re_match_string r s then Ok s else Err (cerr EPattern)
                | None => Ok s
                end
              else Err (cerr EBound)
  | None => Err (cerr ERepr)
  end.
Definition rd_any_str := rd_str None None None.
Definition rd_id := rd_str (Some 1) (Some 255) (Some id_pat).
Definition rd_bool (v : gval) : outcome bool :=
  match bool_unser words v with Ok (VBool _ b) => Ok b | _ => Err (cerr ERepr) end.
Definition rd_pattern (v : gval) : outcome (string * re) :=
  match string_mapper v with
  | Some s => match re_parse s with Some r => Ok (s, r) | None => Err (cerr EPattern) end
  | None => Err (cerr ERepr)
  end.
Definition rd_strs (v : gval) : outcome (list string) :=
  match v with VSlice _ _ l => mapM rd_any_str l | _ => Err (cerr ERepr) end.

Definition rd_display (v : gval) : outcome display :=
  fs <- conv_fields ["name"; "description"; "icon"] v ;;
  n <- opt_field fs "name" (rd_str (Some 1) None None) ;;
  d <- opt_field fs "description" (rd_str (Some 1) None None) ;;
  i <- opt_field fs "icon" (rd_str (Some 1) None None) ;;
  Ok (mkDisplay n d i).

Definition rd_unit (v : gval) : outcome unit_def :=
  fs <- conv_fields ["name_long_plural"; "name_long_singular"; "name_short_plural"; "name_short_singular"] v ;;
  lp <- req_field fs "name_long_plural" rd_any_str ;;
  ls <- req_field fs "name_long_singular" rd_any_str ;;
  sp <- req_field fs "name_short_plural" rd_any_str ;;
  ss <- req_field fs "name_short_singular" rd_any_str ;;
  Ok (mkUnit ss sp ls lp).
(* D40 (repaired): a multiplier is at least 2 *)
Definition rd_units (v : gval) : outcome units :=
  fs <- conv_fields ["base_unit"; "multipliers"] v ;;
  b <- req_field fs "base_unit" rd_unit ;;
  m <- opt_field fs "multipliers" (rd_map (rd_int (Some 2) None None) rd_unit Z.eqb None) ;;
  Ok (mkUnits b (odflt [] m)).

(* D27 (repaired): the bounds of an integer are any integers *)
Definition mp_int (v : gval) : outcome schema :=
  fs <- conv_fields ["min"; "max"; "units"] v ;;
  mn <- opt_field fs "min" (rd_int None None None) ;;
  mx <- opt_field fs "max" (rd_int None None None) ;;
  u <- opt_field fs "units" rd_units ;;
  Ok (SInt mn mx u).
Definition mp_float (v : gval) : outcome schema :=
  fs <- conv_fields ["min"; "max"; "units"] v ;;
  mn <- opt_field fs "min" rd_float ;;
  mx <- opt_field fs "max" rd_float ;;
  u <- opt_field fs "units" rd_units ;;
  Ok (SFloat mn mx u).
Definition mp_string (v : gval) : outcome schema :=
  fs <- conv_fields ["min"; "max"; "pattern"] v ;;
  mn <- opt_field fs "min" (rd_int (Some 0) None (Some chars_units)) ;;
  mx <- opt_field fs "max" (rd_int (Some 0) None (Some chars_units)) ;;
  p <- opt_field fs "pattern" rd_pattern ;;
  Ok (SString mn mx p).
Definition parse_empty (s : schema) (v : gval) : outcome schema :=
  _ <- conv_fields [] v ;; Ok s.
Definition parse_enum_int (v : gval) : outcome schema :=
  fs <- conv_fields ["values"; "units"] v ;;
  vals <- req_field fs "values" (rd_map (rd_int None None None) rd_display Z.eqb (Some 1)) ;;
  u <- opt_field fs "units" rd_units ;;
  Ok (SEnumInt (map (fun zd => (fst zd, Some (snd zd))) vals) u).
Definition parse_enum_str (v : gval) : outcome schema :=
  fs <- conv_fields ["values"] v ;;
  vals <- req_field fs "values" (rd_map rd_any_str rd_display String.eqb (Some 1)) ;;
  Ok (SEnumStr None (map (fun sd => (fst sd, Some (snd sd))) vals)).
Definition parse_ref (v : gval) : outcome schema :=
  fs <- conv_fields ["id"; "namespace"; "display"] v ;;
  id <- opt_field fs "id" rd_id ;;
  ns <- opt_field fs "namespace" rd_any_str ;;
  d <- opt_field fs "display" rd_display ;;
  Ok (SRef (odflt "" id) (odflt "" ns) d).
(* mapKeyType *)
Definition parse_key (v : gval) : outcome schema :=
  tv <- oneof_split v ;;
  if String.eqb (fst tv) "integer" then mp_int (snd tv)
  else if String.eqb (fst tv) "string" then mp_string (snd tv)
  else Err (cerr EKey).

Section WithRec.
Variable rec : gval -> outcome schema.             (* valueType, one level down *)

Definition parse_property (v : gval) : outcome property :=
  fs <- conv_fields ["type"; "display"; "required"; "required_if_not"; "required_if"; "conflicts";
                     "default"; "examples"; "disabled"; "disabled_reason"] v ;;
  t <- req_field fs "type" rec ;;
  d <- opt_field fs "display" rd_display ;;
  req <- opt_field fs "required" rd_bool ;;
  rifn <- opt_field fs "required_if_not" rd_strs ;;
  rif <- opt_field fs "required_if" rd_strs ;;
  confl <- opt_field fs "conflicts" rd_strs ;;
  dflt <- opt_field fs "default" rd_any_str ;;
  ex <- opt_field fs "examples" rd_strs ;;
  dis <- opt_field fs "disabled" rd_bool ;;
  reason <- opt_field fs "disabled_reason" rd_any_str ;;
  (* the meta-schema's default for `required` is true *)
  Ok (mkProp t d (odflt true req) (odflt [] rif) (odflt [] rifn) (odflt [] confl) dflt (odflt [] ex)
             false (odflt false dis) reason).

Definition parse_object (v : gval) : outcome schema :=
  fs <- conv_fields ["id"; "properties"; "id_unenforced"] v ;;
  id <- req_field fs "id" rd_id ;;
  props <- req_field fs "properties" (rd_map (rd_str (Some 1) None None) parse_property String.eqb None) ;;
  un <- opt_field fs "id_unenforced" rd_bool ;;
  Ok (SObject id (odflt false un) props).

Definition parse_scope (v : gval) : outcome schema :=
  fs <- conv_fields ["objects"; "root"] v ;;
  objs <- req_field fs "objects" (rd_map rd_id parse_object String.eqb None) ;;
  root <- req_field fs "root" rd_id ;;
  Ok (SScope objs root).

Definition parse_member (v : gval) : outcome schema :=
  tv <- oneof_split v ;;
  if String.eqb (fst tv) "ref" then parse_ref (snd tv)
  else if String.eqb (fst tv) "scope" then parse_scope (snd tv)
  else if String.eqb (fst tv) "object" then parse_object (snd tv)
  else Err (cerr EKey).

Definition parse_oneof (ik : bool) (v : gval) : outcome schema :=
  fs <- conv_fields ["discriminator_inlined"; "discriminator_field_name"; "types"] v ;;
  inl <- opt_field fs "discriminator_inlined" rd_bool ;;
  field <- req_field fs "discriminator_field_name" rd_any_str ;;
  types <- opt_field fs "types"
             (rd_map (fun k => if ik then z <- rd_int None None None k ;; Ok (KI z)
                               else s <- rd_any_str k ;; Ok (KS s))
                     parse_member okey_eqb None) ;;
  Ok (SOneOf (odflt [] types) ik field (odflt false inl)).

Definition parse_list (v : gval) : outcome schema :=
  fs <- conv_fields ["items"; "min"; "max"] v ;;
  it <- req_field fs "items" rec ;;
  mn <- opt_field fs "min" (rd_int (Some 0) None None) ;;
  mx <- opt_field fs "max" (rd_int (Some 0) None None) ;;
  Ok (SList it mn mx).
Definition parse_map (v : gval) : outcome schema :=
  fs <- conv_fields ["keys"; "values"; "min"; "max"] v ;;
  k <- req_field fs "keys" parse_key ;;
  x <- req_field fs "values" rec ;;
  mn <- opt_field fs "min" (rd_int (Some 0) None None) ;;
  mx <- opt_field fs "max" (rd_int (Some 0) None None) ;;
  Ok (SMap k x mn mx).

Definition parse_signal (v : gval) : outcome dsignal :=
  fs <- conv_fields ["display"; "id"; "data_schema"] v ;;
  id <- req_field fs "id" rd_id ;;
  data <- req_field fs "data_schema" parse_scope ;;
  d <- opt_field fs "display" rd_display ;;
  Ok (mkSignal id data d).
Definition parse_output (v : gval) : outcome doutput :=
  fs <- conv_fields ["display"; "error"; "schema"] v ;;
  s <- req_field fs "schema" parse_scope ;;
  e <- opt_field fs "error" rd_bool ;;
  d <- opt_field fs "display" rd_display ;;
  Ok (mkOutput s d (odflt false e)).
Definition parse_step (v : gval) : outcome dstep :=
  fs <- conv_fields ["display"; "id"; "input"; "outputs"; "signal_handlers"; "signal_emitters"] v ;;
  id <- req_field fs "id" rd_id ;;
  input <- req_field fs "input" parse_scope ;;
  outs <- req_field fs "outputs" (rd_map rd_id parse_output String.eqb None) ;;
  sh <- opt_field fs "signal_handlers" (rd_map rd_id parse_signal String.eqb None) ;;
  se <- opt_field fs "signal_emitters" (rd_map rd_id parse_signal String.eqb None) ;;
  d <- opt_field fs "display" rd_display ;;
  Ok (mkStep id input outs (odflt [] sh) (odflt [] se) d).
End WithRec.

(* valueType: the one-of over type_id *)
Fixpoint parse_type (fuel : nat) (v : gval) {struct fuel} : outcome schema :=
  match fuel with
  | O => OutOfFuel
  | S f =>
    tv <- oneof_split v ;;
    let tid := fst tv in
    let rest := snd tv in
    if String.eqb tid "any" then parse_empty SAny rest
    else if String.eqb tid "bool" then parse_empty SBool rest
    else if String.eqb tid "pattern" then parse_empty SPattern rest
    else if String.eqb tid "integer" then mp_int rest
    else if String.eqb tid "float" then mp_float rest
    else if String.eqb tid "string" then mp_string rest
    else if String.eqb tid "enum_integer" then parse_enum_int rest
    else if String.eqb tid "enum_string" then parse_enum_str rest
    else if String.eqb tid "list" then parse_list (parse_type f) rest
    else if String.eqb tid "map" then parse_map (parse_type f) rest
    else if String.eqb tid "object" then parse_object (parse_type f) rest
    else if String.eqb tid "one_of_int" then parse_oneof (parse_type f) true rest
    else if String.eqb tid "one_of_string" then parse_oneof (parse_type f) false rest
    else if String.eqb tid "ref" then parse_ref rest
    else if String.eqb tid "scope" then parse_scope (parse_type f) rest
    else Err (cerr EKey)
  end.

(* ---------- link: ApplyNamespace(objects, "") with its panics as errors ---------- *)

Definition root_ok (objs : objtab) (root : string) : bool :=
  match alookup root objs with
  | Some (SObject id _ _) => String.eqb id root
  | _ => false
  end.

(* Properties() of a one-of member, as validateSubtypeDiscriminatorInlineFields reads them *)
Definition member_props (objs : objtab) (m : schema) : option (list (string * property)) :=
  match m with
  | SObject _ _ ps => Some ps
  | SRef id ns _ =>
      if String.eqb ns "" then match alookup id objs with Some (SObject _ _ ps) => Some ps | _ => None end
      else None                                   (* not linked: Properties() panics *)
  | SScope os root => match alookup root os with Some (SObject _ _ ps) => Some ps | _ => None end
  | _ => None
  end.
(* the reflected kind of the discriminator property must be the key kind *)
Definition disc_kind_ok (ik : bool) (t : schema) : bool :=
  match t with
  | SInt _ _ _ | SEnumInt _ _ => ik
  | SString _ _ _ | SEnumStr _ _ => negb ik
  | _ => false
  end.
(* a member that is a reference into ANOTHER namespace is not linked by this step: the one-of leaves it alone and
   checks it when that namespace is applied (oneof.go validateSubtypeDiscriminatorInlineFields: !ObjectReady -> continue) *)
Definition member_pending (m : schema) : bool :=
  match m with SRef _ ns _ => negb (String.eqb ns "") | _ => false end.
Definition member_ok (objs : objtab) (ik : bool) (field : string) (inlined : bool) (m : schema) : bool :=
  member_pending m ||
  match member_props objs m with
  | None => false
  | Some ps =>
      match alookup field ps with
      | Some p => inlined && disc_kind_ok ik (p_type p)
      | None => negb inlined
      end
  end.
Definition default_ok (p : property) : bool :=
  match p_default p with
  | None => true
  | Some txt => match decode_default jor p txt with Some _ => true | None => false end
  end.

Fixpoint link_ok (objs : objtab) (s : schema) {struct s} : bool :=
  match s with
  | SList it _ _ => link_ok objs it
  | SMap k v _ _ => link_ok objs k && link_ok objs v
  | SObject _ _ props =>
      forallb (fun np => match np with (_, p) => default_ok p end) props
      && forallb (fun np => match np with (_, mkProp t _ _ _ _ _ _ _ _ _ _) => link_ok objs t end) props
  | SOneOf types ik field inlined =>
      forallb (fun km => match km with (_, m) => link_ok objs m end) types
      && forallb (fun km => match km with (_, m) => member_ok objs ik field inlined m end) types
  | SRef id ns _ =>
      if String.eqb ns "" then match alookup id objs with Some _ => true | None => false end
      else true                                   (* another namespace: skipped *)
  | SScope os root =>
      root_ok os root && forallb (fun io => match io with (_, o) => link_ok os o end) os
  | _ => true
  end.

(* ValidateReferences: a reference outside the self namespace is still unlinked *)
Fixpoint foreign_refs (s : schema) {struct s} : bool :=
  match s with
  | SList it _ _ => foreign_refs it
  | SMap k v _ _ => foreign_refs k || foreign_refs v
  | SObject _ _ props => existsb (fun np => match np with (_, mkProp t _ _ _ _ _ _ _ _ _ _) => foreign_refs t end) props
  | SOneOf types _ _ _ => existsb (fun km => match km with (_, m) => foreign_refs m end) types
  | SRef _ ns _ => negb (String.eqb ns "")
  | SScope os _ => existsb (fun io => match io with (_, o) => foreign_refs o end) os
  | _ => false
  end.

Definition link_err : err := perr EOther.

Fixpoint gsize (v : gval) : nat :=
  match v with
  | VSlice _ _ l => S (fold_right (fun x n => (gsize x + n)%nat) O l)
  | VMap _ _ kvs => S (fold_right (fun kv n => (gsize (fst kv) + gsize (snd kv) + n)%nat) O kvs)
  | VPtr _ (Some x) => S (gsize x)
  | VStruct _ fs => S (fold_right (fun kv n => (gsize (snd kv) + n)%nat) O fs)
  | _ => 1%nat
  end.

(* UnserializeScope *)
Definition rebuild (d : gval) : outcome schema :=
  s <- parse_scope (parse_type (gsize d)) d ;;
  if link_ok [] s then Ok s else Err link_err.

(* UnserializeScope before the fixes for D30/D32: no link step at all *)
Definition rebuild_prefix (d : gval) : outcome schema := parse_scope (parse_type (gsize d)) d.

Definition scopes_of_step (st : dstep) : list schema :=
  st_input st :: map (fun ko => so_schema (snd ko)) (st_outputs st)
  ++ map (fun kg => sg_data (snd kg)) (st_handlers st) ++ map (fun kg => sg_data (snd kg)) (st_emitters st).
Definition plugin_scopes (p : dplugin) : list schema := flat_map (fun ks => scopes_of_step (snd ks)) p.

(* UnserializeSchema / Client.ReadSchema *)
Definition rebuild_plugin (d : gval) : outcome dplugin :=
  fs <- conv_fields ["steps"] d ;;
  p <- req_field fs "steps" (rd_map rd_id (parse_step (parse_type (gsize d))) String.eqb None) ;;
  if forallb (link_ok []) (plugin_scopes p) then
    if existsb foreign_refs (plugin_scopes p) then Err link_err else Ok p
  else Err link_err.

End Load.

(* ---------- describable: the meta-schema's own constraints ---------- *)
Definition id_ok (s : string) : bool :=
  (1 <=? slen s) && (slen s <=? 255) && re_match_string id_re s.
Definition nonempty (s : string) : bool := 1 <=? slen s.
Definition ostr_ok (o : option string) : bool := match o with Some s => nonempty s | None => true end.
Definition display_ok (d : display) : bool := ostr_ok (d_name d) && ostr_ok (d_desc d) && ostr_ok (d_icon d).
Definition odisplay_ok (o : option display) : bool := match o with Some d => display_ok d | None => true end.
Definition oz_ok (o : option Z) : bool := match o with Some z => in_i64 z | None => true end.
Definition olen_ok (o : option Z) : bool := match o with Some z => (0 <=? z) && in_i64 z | None => true end.
Definition units_ok (u : units) : bool :=
  forallb (fun mu => (2 <=? fst mu) && in_i64 (fst mu)) (u_mults u) && nodup_z (map fst (u_mults u)).
Definition ounits_ok (o : option units) : bool := match o with Some u => units_ok u | None => true end.
Definition key_ok (k : schema) : bool :=
  match k with
  | SInt mn mx u => oz_ok mn && oz_ok mx && ounits_ok u
  | SString mn mx _ => olen_ok mn && olen_ok mx
  | _ => false                                   (* D28: a map keyed by an enum cannot be described *)
  end.
Fixpoint nodup_okey (l : list okey) : bool :=
  match l with [] => true | x :: t => negb (existsb (okey_eqb x) t) && nodup_okey t end.
Definition okey_ok (ik : bool) (k : okey) : bool :=
  match k with KI z => ik && in_i64 z | KS _ => negb ik end.

Fixpoint describable (s : schema) {struct s} : bool :=
  match s with
  | SInt mn mx u => oz_ok mn && oz_ok mx && ounits_ok u
  | SFloat _ _ u => ounits_ok u
  | SString mn mx _ => olen_ok mn && olen_ok mx
  | SBool | SPattern | SAny => true
  | SEnumInt vals u =>
      negb (match vals with [] => true | _ => false end)
      && forallb (fun zd => in_i64 (fst zd) && match snd zd with Some d => display_ok d | None => false end) vals
      && nodup_z (map fst vals) && ounits_ok u
  | SEnumStr named vals =>
      match named with Some _ => false | None => true end     (* a typed string enum cannot be described *)
      && negb (match vals with [] => true | _ => false end)
      && forallb (fun sd => match snd sd with Some d => display_ok d | None => false end) vals
      && nodup_str (map fst vals)
  | SList it mn mx => describable it && olen_ok mn && olen_ok mx
  | SMap k v mn mx => key_ok k && describable v && olen_ok mn && olen_ok mx
  | SObject id _ props =>
      id_ok id && nodup_str (map fst props)
      && forallb (fun np => match np with
                            | (name, mkProp t d _ _ _ _ _ _ _ _ _) => nonempty name && odisplay_ok d && describable t
                            end) props
  | SOneOf types ik _ _ =>
      nodup_okey (map fst types)
      && forallb (fun km => match km with
                            | (k, m) => okey_ok ik k
                                        && match m with SObject _ _ _ | SRef _ _ _ | SScope _ _ => true | _ => false end
                                        && describable m
                            end) types
  | SRef id _ d => id_ok id && odisplay_ok d
  | SScope os root =>
      id_ok root && nodup_str (map fst os)
      && forallb (fun io => match io with
                            | (k, o) => id_ok k && match o with SObject _ _ _ => true | _ => false end && describable o
                            end) os
  end.

(* ---------- the patterns of a schema: source text -> parsed form ---------- *)
Fixpoint pats_of (s : schema) {struct s} : list (string * re) :=
  match s with
  | SString _ _ (Some p) => [p]
  | SList it _ _ => pats_of it
  | SMap k v _ _ => (pats_of k ++ pats_of v)%list
  | SObject _ _ props => flat_map (fun np => match np with (_, mkProp t _ _ _ _ _ _ _ _ _ _) => pats_of t end) props
  | SOneOf types _ _ _ => flat_map (fun km => match km with (_, m) => pats_of m end) types
  | SScope os _ => flat_map (fun io => match io with (_, o) => pats_of o end) os
  | _ => []
  end.


(* ---------- C10: what an accepted schema satisfies ----------
   Stated over the resolution environment of Schema/Ops.v (`resolve`, `env_enter`), not over the
   object table the link step passes down: every self-namespace reference resolves lexically, every
   scope has a consistent root, one-of members agree with the inline flag, property defaults decode.
   This is the precondition under which the operations of Ops.v never reach their Panic branches
   ("unlinked reference", "root object not found"); C04's totality theorem (Wf.v, another work
   package) takes it from there. *)
Definition wf_member_props (e : env) (m : schema) : option (list (string * property)) :=
  match m with
  | SObject _ _ ps => Some ps
  | SRef id ns _ => match resolve e id ns with Some (SObject _ _ ps, _) => Some ps | _ => None end
  | SScope os root => match alookup root os with Some (SObject _ _ ps) => Some ps | _ => None end
  | _ => None
  end.
Definition wf_member (e : env) (ik : bool) (field : string) (inlined : bool) (m : schema) : bool :=
  member_pending m ||
  match wf_member_props e m with
  | None => false
  | Some ps =>
      match alookup field ps with
      | Some p => inlined && disc_kind_ok ik (p_type p)
      | None => negb inlined
      end
  end.

Fixpoint wf_in (e : env) (s : schema) {struct s} : bool :=
  match s with
  | SList it _ _ => wf_in e it
  | SMap k v _ _ => wf_in e k && wf_in e v
  | SObject _ _ props =>
      forallb (fun np => match np with (_, p) => default_ok (e_or e) p end) props
      && forallb (fun np => match np with (_, mkProp t _ _ _ _ _ _ _ _ _ _) => wf_in e t end) props
  | SOneOf types ik field inlined =>
      forallb (fun km => match km with (_, m) => wf_in e m end) types
      && forallb (fun km => match km with (_, m) => wf_member e ik field inlined m end) types
  | SRef id ns _ =>
      if String.eqb ns "" then match resolve e id ns with Some _ => true | None => false end else true
  | SScope os root =>
      root_ok os root && forallb (fun io => match io with (_, o) => wf_in (env_enter e os) o end) os
  | _ => true
  end.

Definition c10_wf (jor : oracles) (s : schema) : bool := wf_in (mkEnv [] [] jor) s.
