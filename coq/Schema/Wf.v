(* Schema/Wf.v — well-formedness of schemas: the constructors' documented panicking contracts,
   as ONE boolean function `wf_schema : env -> schema -> bool`, plus the boolean class predicate
   `no_inline_cycle` of the known finding D11.

   The public constructors (NewMapSchema, NewScopeSchema/ApplySelf, ApplyNamespace on references
   and one-ofs, RootObject, extractObjectDefaultValues) panic when
     - a map's key type is not int / string / int enum / string enum,
     - a reference does not resolve to an object of the scope it names,
     - a scope's root is missing, or an object's id differs from the key it is stored under,
     - a one-of member that is not an object (Go: the static type schema.Object) / a member that
       declares the discriminator field although the one-of is not inlined / lacks it although the
       one-of is inlined / declares it with a type of the wrong kind,
     - a property default is not JSON (for string-typed properties: not JSON even in quotes);
   and Go maps cannot hold duplicate keys (association lists here: keys must be unique).
   Patterns are held in compiled form by the schema (regexp.MustCompile happens before the
   constructor), so "patterns compile" holds by construction of `SString`.

   Everything is checked AT EVERY NODE, each node in the environment it is evaluated in: the
   generic traversal `all_nodes P e s` enters scopes exactly like the operations do
   (`env_enter`), and `all_env P e` covers the objects that references can jump to. *)
From Verif Require Import Base.Prelude Base.Str Base.Float Base.GoVal
  Schema.Regex Schema.Units Schema.Syntax Schema.Ops.
Open Scope string_scope.

(* ---------- generic traversal: a local predicate at every node ---------- *)
Section AllNodes.
Variable P : env -> schema -> bool.

Fixpoint all_nodes (e : env) (s : schema) {struct s} : bool :=
  P e s &&
  match s with
  | SList it _ _ => all_nodes e it
  | SMap k v _ _ => all_nodes e k && all_nodes e v
  | SObject _ _ props => forallb (fun np => all_nodes e (p_type (snd np))) props
  | SOneOf types _ _ _ => forallb (fun km => all_nodes e (snd km)) types
  | SScope objs _ => forallb (fun io => all_nodes (env_enter e objs) (snd io)) objs
  | _ => true
  end.

(* the objects of a table, each in the environment in which its own references resolve *)
Definition all_tab (e : env) (tab : objtab) : bool :=
  forallb (fun io => all_nodes (env_enter e tab) (snd io)) tab.

Definition all_env (e : env) : bool :=
  forallb (fun io => all_nodes e (snd io)) (e_self e) &&
  forallb (fun nt => all_tab e (snd nt)) (e_ext e).
End AllNodes.

(* ---------- the local contracts ---------- *)
Definition is_obj (s : schema) : bool := match s with SObject _ _ _ => true | _ => false end.
Definition obj_has_id (id : string) (s : schema) : bool :=
  match s with SObject id' _ _ => String.eqb id id' | _ => false end.
(* Go: the static type schema.Object — *ObjectSchema, *RefSchema, *ScopeSchema *)
Definition objlike (s : schema) : bool :=
  match s with SObject _ _ _ | SRef _ _ _ | SScope _ _ => true | _ => false end.
Definition key_kind_ok (k : schema) : bool :=
  match k with SInt _ _ _ | SString _ _ _ | SEnumInt _ _ | SEnumStr _ _ => true | _ => false end.

(* Properties() of a one-of member *)
Definition member_props (e : env) (m : schema) : option (list (string * property)) :=
  match m with
  | SObject _ _ ps => Some ps
  | SRef id ns _ => match resolve e id ns with Some (SObject _ _ ps, _) => Some ps | _ => None end
  | SScope objs root => match alookup root objs with Some (SObject _ _ ps) => Some ps | _ => None end
  | _ => None
  end.

(* reflect.Kind of the inlined discriminator property = Kind of the key type *)
Definition disc_type_ok (ik : bool) (t : schema) : bool :=
  if ik then match t with SInt _ _ _ | SEnumInt _ _ => true | _ => false end
  else match t with SString _ _ _ | SEnumStr _ _ => true | _ => false end.

Definition okey_is (ik : bool) (k : okey) : bool :=
  match k with KI _ => ik | KS _ => negb ik end.

Fixpoint nodup_by {A} (eqb : A -> A -> bool) (l : list A) : bool :=
  match l with [] => true | x :: t => negb (existsb (eqb x) t) && nodup_by eqb t end.

Definition default_ok (o : oracles) (p : property) : bool :=
  match p_default p with
  | None => true
  | Some txt => match decode_default o p txt with Some _ => true | None => false end
  end.

Definition wf_member (e : env) (ik : bool) (field : string) (inlined : bool) (km : okey * schema) : bool :=
  okey_is ik (fst km) && objlike (snd km) &&
  match member_props e (snd km) with
  | Some ps => match alookup field ps with
               | Some p => inlined && disc_type_ok ik (p_type p)
               | None => negb inlined
               end
  | None => false
  end.

Definition wf_local (e : env) (s : schema) : bool :=
  match s with
  | SMap k _ _ _ => key_kind_ok k
  | SEnumInt vals _ => nodup_by Z.eqb (map fst vals)
  | SEnumStr _ vals => nodup_str (map fst vals)
  | SObject _ _ props => nodup_str (map fst props) && forallb (fun np => default_ok (e_or e) (snd np)) props
  | SOneOf types ik field inlined =>
      nodup_by okey_eqb (map fst types) && forallb (wf_member e ik field inlined) types
  | SRef id ns _ => match resolve e id ns with Some (o, _) => is_obj o | None => false end
  | SScope objs root =>
      nodup_str (map fst objs) && forallb (fun io => obj_has_id (fst io) (snd io)) objs && amem root objs
  | _ => true
  end.

Definition wf_schema (e : env) (s : schema) : bool := all_env wf_local e && all_nodes wf_local e s.

(* ---------- D11: the inline-shorthand walk ----------
   Between two steps that consume a level of the input value an operation can move through the
   schema WITHOUT consuming input: a reference jumps to its object, a scope to its root, a one-of
   hands a map on to the selected member, and — Unserialize only — an object with exactly one
   property hands a NON-map input on to that property ("inline shorthand").  `chain n ismap e s`
   is the length of the longest such walk from s (None: longer than n).  For map inputs the walk is
   short in every well-formed schema; for non-map inputs it is unbounded exactly when single-
   property objects refer to each other in a circle (D11: scope(A{x: ref A}).Unserialize("foo")). *)
Definition omax (a b : option nat) : option nat :=
  match a, b with Some x, Some y => Some (Nat.max x y) | _, _ => None end.
Definition osucc (a : option nat) : option nat := option_map S a.

Fixpoint chain (n : nat) (ismap : bool) (e : env) (s : schema) {struct n} : option nat :=
  match n with
  | O => None
  | S n' =>
    match s with
    | SObject _ _ props =>
        if ismap then Some O
        else match props with
             | [(_, p)] => osucc (chain n' false e (p_type p))
             | _ => Some O
             end
    | SOneOf types _ _ _ =>
        if ismap then osucc (fold_right (fun km acc => omax (chain n' true e (snd km)) acc) (Some O) types)
        else Some O
    | SRef id ns _ =>
        match resolve e id ns with
        | Some (o, e') => osucc (chain n' ismap e' o)
        | None => Some O
        end
    | SScope objs root =>
        match alookup root objs with
        | Some o => osucc (chain n' ismap (env_enter e objs) o)
        | None => Some O
        end
    | _ => Some O
    end
  end.

Definition is_some {A} (o : option A) : bool := match o with Some _ => true | None => false end.
Definition nic_local (n : nat) (e : env) (s : schema) : bool :=
  is_some (chain n false e s) && is_some (chain n true e s).
Definition no_inline_cycle_n (n : nat) (e : env) (s : schema) : bool :=
  all_env (nic_local n) e && all_nodes (nic_local n) e s.

(* number of nodes: an acyclic walk visits each node (of the schema or of a table) at most once *)
Fixpoint ssize (s : schema) : nat :=
  S match s with
    | SList it _ _ => ssize it
    | SMap k v _ _ => ssize k + ssize v
    | SObject _ _ props => fold_right (fun np acc => ssize (p_type (snd np)) + acc)%nat O props
    | SOneOf types _ _ _ => fold_right (fun km acc => ssize (snd km) + acc)%nat O types
    | SScope objs _ => fold_right (fun io acc => ssize (snd io) + acc)%nat O objs
    | _ => O
    end.
Definition tab_size (t : objtab) : nat := fold_right (fun io acc => ssize (snd io) + acc)%nat O t.
Definition env_size (e : env) : nat :=
  (tab_size (e_self e) + fold_right (fun nt acc => tab_size (snd nt) + acc) O (e_ext e))%nat.
Definition nic_fuel (e : env) (s : schema) : nat := S (S (ssize s + env_size e)).

Definition no_inline_cycle (e : env) (s : schema) : bool := no_inline_cycle_n (nic_fuel e s) e s.
