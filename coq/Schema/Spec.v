(* Schema/Spec.v — DECLARATIVE reference semantics of the value constraints (C02), written from
   the property text and not from the code:

     "Unserialize accepts a raw value exactly when it denotes - under the SDK's fixed lenient
      conversions (all integer/float widths, numeric strings, unit strings such as '5m30s',
      boolean words) - a value of the schema's type that satisfies every declared constraint:
      numeric min/max, string length bounds and pattern, enum membership, list and map size
      bounds, and recursively the item, key and value schemas; the accepted result is exactly
      the denoted value.  Validate and Serialize enforce the same constraints on values that
      are already in native form."

   Relations only (nothing here is extracted).  The text-to-number readings that the property
   names as given are referred to by name: decimal integers = Str.parse_int (strconv.ParseInt
   base 10, 64 bits), decimal floats = Float.parse_float (recorded strconv behaviour), unit strings =
   Units.parse_units_int / the float unit parser handed in as [pu], boolean words = the table
   dumped from the live SDK (Generated/Tables.bool_words) handed in as [words], user patterns =
   the modelled matcher Regex.re_match_string, "is a compilable pattern" = the recorded oracle.
   The only thing taken from Ops.v is [map_set]: what a Go map assignment m[k] = v does. *)
From Coq Require Import Lia.
From Verif Require Import Base.Prelude Base.Str Base.Float Base.GoVal
  Schema.Regex Schema.Units Schema.Syntax Schema.Ops.
Open Scope Z_scope.

(* a Go integer value lies in the range of its type (what an interface can actually hold) *)
Definition go_int (v : gval) : Prop :=
  match v with VInt (TInt k) z => ik_in k z = true | _ => True end.

(* ... recursively: every integer inside the value lies in the range of its type *)
Fixpoint go_val (v : gval) : Prop :=
  match v with
  | VInt (TInt k) z => ik_in k z = true
  | VSlice _ _ l =>
      (fix all (l : list gval) : Prop := match l with [] => True | x :: t => go_val x /\ all t end) l
  | VMap _ _ kvs =>
      (fix all (l : list (gval * gval)) : Prop :=
         match l with [] => True | (k, x) :: t => go_val k /\ go_val x /\ all t end) kvs
  | _ => True
  end.

(* the float f is exactly the integer z (no rounding): (-1)^s * m * 2^e = z *)
Definition sgnz (s : bool) : Z := if s then -1 else 1.
Definition fl_is_Z (f : fl) (z : Z) : Prop :=
  match f with
  | FZero _ => z = 0
  | FFin s m e => if 0 <=? e then z = sgnz s * Zpos m * 2 ^ e else z * 2 ^ (- e) = sgnz s * Zpos m
  | _ => False
  end.

(* ---------- which raw values denote which native scalar ---------- *)

(* integers: every signed/unsigned width whose value fits int64 (so uint64 above 2^63-1 denotes
   nothing); float32/float64 that are integral and inside [-2^63, 2^63) (2^63 itself, NaN, the
   infinities and fractions denote nothing); booleans as 0/1; decimal strings when the schema has
   no units, unit strings when it has *)
Inductive int_denotes (u : option units) : gval -> Z -> Prop :=
| ID_int : forall k z, in_i64 z = true -> int_denotes u (VInt (TInt k) z) z
| ID_f64 : forall f z, fl_is_Z f z -> in_i64 z = true -> int_denotes u (VFloat TF64 f) z
| ID_f32 : forall f z, fl_is_Z f z -> in_i64 z = true -> int_denotes u (VFloat TF32 f) z
| ID_bool : forall b, int_denotes u (VBool TBool b) (if b then 1 else 0)
| ID_dec : forall s z, u = None -> parse_int s = Some z -> int_denotes u (VStr TStr s) z
| ID_units : forall us s z, u = Some us -> parse_units_int us s = Some z -> int_denotes u (VStr TStr s) z.

Section WithTables.
Variable words : list (string * bool).           (* the boolean words *)
Variable pu : units -> string -> option fl.      (* unit strings on the float side *)

(* floats: every integer width as its nearest float64 (ties to even), float32 widened exactly,
   float64 as it is - NaN, the infinities and -0 included -, booleans as 0/1, decimal / unit strings *)
Inductive float_denotes (u : option units) : gval -> fl -> Prop :=
| FD_int : forall k z, float_denotes u (VInt (TInt k) z) (fl_of_Z b64 z)
| FD_f64 : forall f, float_denotes u (VFloat TF64 f) f
| FD_f32 : forall f, float_denotes u (VFloat TF32 f) f
| FD_bool : forall b, float_denotes u (VBool TBool b) (if b then fl_of_Z b64 1 else FZero false)
| FD_dec : forall s f, u = None -> parse_float s = Some f -> float_denotes u (VStr TStr s) f
| FD_units : forall us s f, u = Some us -> pu us s = Some f -> float_denotes u (VStr TStr s) f.

(* strings: a string is itself; an integer is its decimal rendering; a float its "%f" rendering *)
Inductive string_denotes : gval -> string -> Prop :=
| SD_str : forall s, string_denotes (VStr TStr s) s
| SD_int : forall k z, string_denotes (VInt (TInt k) z) (z_to_dec z)
| SD_f64 : forall f, string_denotes (VFloat TF64 f) (fmt_f f)
| SD_f32 : forall f, string_denotes (VFloat TF32 f) (fmt_f f).

(* booleans: a bool is itself; a boolean word in any letter case; the integers 1 and 0 of any width *)
Inductive bool_denotes : gval -> bool -> Prop :=
| BD_bool : forall b, bool_denotes (VBool TBool b) b
| BD_word : forall s b, alookup (to_lower s) words = Some b -> bool_denotes (VStr TStr s) b
| BD_one : forall k, bool_denotes (VInt (TInt k) 1) true
| BD_zero : forall k, bool_denotes (VInt (TInt k) 0) false.

(* ---------- the declared constraints ---------- *)

(* an ordered comparison: NaN satisfies no bound; +0 = -0 *)
Definition f_le (a b : fl) : Prop := fcmp a b = Some Lt \/ fcmp a b = Some Eq.
Definition f_lower (mn : option fl) (x : fl) : Prop := match mn with Some m => f_le m x | None => True end.
Definition f_upper (mx : option fl) (x : fl) : Prop := match mx with Some m => f_le x m | None => True end.

Definition z_lower (mn : option Z) (z : Z) : Prop := match mn with Some m => m <= z | None => True end.
Definition z_upper (mx : option Z) (z : Z) : Prop := match mx with Some m => z <= m | None => True end.

Definition blen (s : string) : Z := Z.of_nat (String.length s).        (* length in bytes *)
Definition llen {A} (l : list A) : Z := Z.of_nat (List.length l).
Definition pat_ok (pat : option (string * re)) (s : string) : Prop :=
  match pat with Some (_, r) => re_match_string r s = true | None => True end.
Definition str_enum_type (named : option string) : gtype :=
  match named with Some n => TNamed n TStr | None => TStr end.

(* what assigning the entries one after the other into a fresh Go map leaves behind *)
Inductive map_built (RK RV : gval -> gval -> Prop) : list (gval * gval) -> list (gval * gval) -> list (gval * gval) -> Prop :=
| MB_nil : forall acc, map_built RK RV [] acc acc
| MB_cons : forall k v t acc k' v' r,
    RK k k' -> RV v v' -> map_built RK RV t (map_set k' v' acc) r -> map_built RK RV ((k, v) :: t) acc r.

(* [accepts e s v n]: the raw value v denotes the native value n of s's type, and n meets every
   constraint s declares, recursively.  Defined for the schema kinds C02 is about (scalars, enums,
   pattern, lists, maps - nested arbitrarily); objects and one-ofs are C03's. *)
Fixpoint accepts (e : env) (s : schema) (v n : gval) {struct s} : Prop :=
  match s with
  | SInt mn mx u => exists z, n = vi64 z /\ int_denotes u v z /\ z_lower mn z /\ z_upper mx z
  | SFloat mn mx u => exists x, n = vf64 x /\ float_denotes u v x /\ f_lower mn x /\ f_upper mx x
  | SString mn mx pat =>
      exists t, n = vstr t /\ string_denotes v t /\ z_lower mn (blen t) /\ z_upper mx (blen t) /\ pat_ok pat t
  | SBool => exists b, n = vbool b /\ bool_denotes v b
  | SPattern => exists t, n = VRegexp t /\ string_denotes v t /\ o_re_ok (e_or e) t = true
  | SEnumInt vals u => exists z, n = vi64 z /\ int_denotes u v z /\ In z (map fst vals)
  | SEnumStr named vals => exists t, n = VStr (str_enum_type named) t /\ string_denotes v t /\ In t (map fst vals)
  | SList it mn mx =>
      exists ty nl l ns, v = VSlice ty nl l /\ z_lower mn (llen l) /\ z_upper mx (llen l) /\
        Forall2 (accepts e it) l ns /\ n = VSlice (TSlice (rtype it)) false ns
  | SMap ks vs mn mx =>
      exists ty nl kvs r, v = VMap ty nl kvs /\ z_lower mn (llen kvs) /\ z_upper mx (llen kvs) /\
        map_built (accepts e ks) (accepts e vs) kvs [] r /\ n = VMap (TMap (rtype ks) (rtype vs)) false r
  | _ => False
  end.

(* the schema kinds of C02, nested arbitrarily *)
Fixpoint c02_schema (s : schema) : Prop :=
  match s with
  | SInt _ _ _ | SFloat _ _ _ | SString _ _ _ | SBool | SPattern | SEnumInt _ _ | SEnumStr _ _ => True
  | SList it _ _ => c02_schema it
  | SMap ks vs _ _ => c02_schema ks /\ c02_schema vs
  | _ => False
  end.

(* no map on the way declares a minimum size (the minimum is checked on the raw entries, and raw
   keys that denote the same native key collapse: see C02_map_min_after_collision_refuted) *)
Fixpoint maps_no_min (s : schema) : Prop :=
  match s with
  | SList it _ _ => maps_no_min it
  | SMap ks vs mn _ => mn = None /\ maps_no_min ks /\ maps_no_min vs
  | _ => True
  end.

Fixpoint sdepth (s : schema) : nat :=
  match s with
  | SList it _ _ => S (sdepth it)
  | SMap ks vs _ _ => S (Nat.max (sdepth ks) (sdepth vs))
  | _ => O
  end.

(* ---------- values that are already in native form ---------- *)

(* [native s n]: n has the shape Unserialize produces for s (int64, float64, string, bool, the
   enum's string type, *regexp.Regexp, slices and maps of those) *)
Fixpoint native (s : schema) (n : gval) {struct s} : Prop :=
  match s with
  | SInt _ _ _ | SEnumInt _ _ => exists z, n = vi64 z /\ in_i64 z = true
  | SFloat _ _ _ => exists x, n = vf64 x
  | SString _ _ _ => exists t, n = vstr t
  | SBool => exists b, n = vbool b
  | SPattern => exists t, n = VRegexp t
  | SEnumStr named _ => exists t, n = VStr (str_enum_type named) t
  | SList it _ _ => exists ty nl ns, n = VSlice ty nl ns /\ Forall (native it) ns
  | SMap ks vs _ _ => exists ty nl r, n = VMap ty nl r /\ Forall (fun kv => native ks (fst kv) /\ native vs (snd kv)) r
  | _ => False
  end.

(* [sat s n]: the native value n meets every constraint s declares, recursively *)
Fixpoint sat (s : schema) (n : gval) {struct s} : Prop :=
  match s with
  | SInt mn mx _ => exists z, n = vi64 z /\ z_lower mn z /\ z_upper mx z
  | SFloat mn mx _ => exists x, n = vf64 x /\ f_lower mn x /\ f_upper mx x
  | SString mn mx pat => exists t, n = vstr t /\ z_lower mn (blen t) /\ z_upper mx (blen t) /\ pat_ok pat t
  | SBool => exists b, n = vbool b
  | SPattern => exists t, n = VRegexp t
  | SEnumInt vals _ => exists z, n = vi64 z /\ In z (map fst vals)
  | SEnumStr named vals => exists t, n = VStr (str_enum_type named) t /\ In t (map fst vals)
  | SList it mn mx =>
      exists ty nl ns, n = VSlice ty nl ns /\ z_lower mn (llen ns) /\ z_upper mx (llen ns) /\ Forall (sat it) ns
  | SMap ks vs mn mx =>
      exists ty nl r, n = VMap ty nl r /\ z_lower mn (llen r) /\ z_upper mx (llen r) /\
        Forall (fun kv => sat ks (fst kv) /\ sat vs (snd kv)) r
  | _ => False
  end.

End WithTables.
