(* Schema/FloatUnits.v — the float64 side of schema/units.go: correctly rounded +, -, *, /
   on exact dyadics, ParseFloat with units and the float formatters. *)
From Verif Require Import Base.Prelude Base.Str Base.Float Schema.Regex Schema.Units.
Open Scope string_scope.
Open Scope Z_scope.

Definition fl_parts (x : fl) : option (Z * Z) :=
  match x with
  | FZero _ => Some (0, 0)
  | FFin s m e => Some ((if s then - Zpos m else Zpos m), e)
  | _ => None
  end.
Definition fl_of_parts (sm e : Z) (sticky : bool) : fl :=
  if sm =? 0 then FZero false else fround b64 (sm <? 0) (Z.abs sm) e sticky.

Definition fadd (a b : fl) : fl :=
  match fl_parts a, fl_parts b with
  | Some (ma, ea), Some (mb, eb) =>
      let e := Z.min ea eb in fl_of_parts (ma * 2 ^ (ea - e) + mb * 2 ^ (eb - e)) e false
  | _, _ => FNaN
  end.
Definition fneg (a : fl) : fl :=
  match a with FZero s => FZero (negb s) | FFin s m e => FFin (negb s) m e | FInf s => FInf (negb s) | FNaN => FNaN end.
Definition fsub (a b : fl) : fl := fadd a (fneg b).
Definition fmul (a b : fl) : fl :=
  match fl_parts a, fl_parts b with
  | Some (ma, ea), Some (mb, eb) => fl_of_parts (ma * mb) (ea + eb) false
  | _, _ => FNaN
  end.
Definition fdiv (a b : fl) : fl :=
  match fl_parts a, fl_parts b with
  | Some (ma, ea), Some (mb, eb) =>
      if mb =? 0 then FNaN
      else if ma =? 0 then FZero false
      else
        let sh := Z.max 0 (70 + Z.log2 (Z.abs mb) - Z.log2 (Z.abs ma)) in
        let num := Z.shiftl (Z.abs ma) sh in
        let q := num / Z.abs mb in
        let r := num - q * Z.abs mb in
        let neg := xorb (ma <? 0) (mb <? 0) in
        fround b64 neg q (ea - eb - sh) (negb (r =? 0))
  | _, _ => FNaN
  end.
Definition ffloor (a : fl) : fl :=
  match fl_parts a with
  | Some (ma, ea) => if 0 <=? ea then a else fl_of_Z b64 (ma / 2 ^ (- ea))
  | None => a
  end.

(* ---- parsing on the float path ---- *)

(* handleParseMultiplier, all tokens; state: (intNumber, floatNumber, isFloat) *)
Definition acc_state := (Z * fl * bool)%type.
Definition accumulate_ftok (acc : option acc_state) (tok : list ascii) (m : Z) : option acc_state :=
  match acc with
  | None => None
  | Some (i, fnum, isf) =>
      match tok with
      | [] => acc
      | _ =>
          if contains_chr "."%char tok then
            match parse_float (unchars tok) with
            | Some x => Some (i, fadd fnum (fmul x (fl_of_Z b64 m)), true)
            | None => None
            end
          else
            match parse_int (unchars tok) with
            | None => None
            | Some c =>
                let p := c * m in
                if in_i64 p && (isf || in_i64 (i + p)) then
                  Some ((if isf then i else i + p), fadd fnum (fl_of_Z b64 p), isf)
                else None
            end
      end
  end.

(* UnitsDefinition.ParseFloat *)
Definition parse_units_float (u : units) (data : string) : option fl :=
  let d := chars (trim_space data) in
  match d with
  | [] => None
  | _ =>
    match re_match_at (units_re u) (List.length d) d with
    | None => None
    | Some cs =>
        let sm := sorted_mults u in
        let toks := (map (fun mu => (cap_get (fst mu) cs, fst mu)) sm ++ [(cap_get 1 cs, 1)])%list in
        match fold_left (fun acc tm => accumulate_ftok acc (fst tm) (snd tm)) toks (Some (0, FZero false, false)) with
        | Some (i, fnum, isf) => Some (if isf then fnum else fl_of_Z b64 i)
        | None => None
        end
    end
  end.

(* ---- formatting ---- *)

(* trimFraction(fmt.Sprintf("%f", x)) *)
Definition fmt_f_trim (x : fl) : string :=
  let l := chars (fmt_f x) in
  if contains_chr "."%char l then
    unchars (trim_right (fun c => Ascii.eqb c "."%char) (trim_right (fun c => Ascii.eqb c "0"%char) l))
  else fmt_f x.

Definition f_is_one (x : fl) : bool := feq x (fl_of_Z b64 1) || feq x (fl_of_Z b64 (-1)).
Definition f_is_zero (x : fl) : bool := feq x (FZero false).

Definition fmt_unit_float (long : bool) (amount : fl) (u : unit_def) (display_zero : bool) : string :=
  let sing := if long then u_ls u else u_ss u in
  let plur := if long then u_lp u else u_sp u in
  if f_is_one amount then fmt_f_trim amount ++ sing
  else if negb (f_is_zero amount) then fmt_f_trim amount ++ plur
  else if display_zero then fmt_f_trim amount ++ plur
  else "".

Fixpoint fdecompose (ms : list Z) (remainder : fl) : list fl * fl :=
  match ms with
  | [] => ([], remainder)
  | m :: t =>
      let base := fl_trunc_i64 (ffloor (fdiv remainder (fl_of_Z b64 m))) in
      let rem' := fsub remainder (fl_of_Z b64 (wrap_i64 (base * m))) in
      let '(cs, r) := fdecompose t rem' in (fl_of_Z b64 base :: cs, r)
  end.

Definition format_float (long : bool) (u : units) (data : fl) : string :=
  if f_is_zero data then fmt_unit_float long data (u_base u) true
  else
    let sm := sorted_mults u in
    let '(cs, r) := fdecompose (map fst sm) data in
    concat_str (map (fun cu => fmt_unit_float long (fst cu) (snd (snd cu)) false) (combine cs sm))
    ++ fmt_unit_float long r (u_base u) false.
