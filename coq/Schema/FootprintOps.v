(* Schema/FootprintOps.v — the map from a schema OPERATION to its primitive uses of the shared cache
   cells (C13).  ATP/Footprint.v describes what ONE primitive use (getReCache, getSortedMultipliersCache,
   GetDefaults, a linked reference) does to the cells; this file says which primitive uses
   Unserialize / Validate / Serialize / ValidateCompatibility(data) make, in evaluation order, following
   Schema/Ops.v branch by branch and stopping at the first error exactly where Ops.v stops (the
   continuation tests ARE the outcomes of Ops.v's own functions).

     int / float / int-enum schema with units, string input, not blank : [PRe n; PSorted n]
         (UnitsDefinition.parse: TrimSpace; empty -> error before any cache; getReCache; then either the
          multipliers in order or buildUnitParseError, both through getSortedMultipliersCache)
     object, map input, keys accepted                                  : PDefaults n once per ABSENT property
         (convertData: `o.GetDefaults()[propertyID]` for every property that is not set), then the
         properties' own uses in order
     reference                                                          : PLink n, then the target's uses
     list / map / one-of / scope                                        : the children's uses, in order

   IDENTITIES.  A cell belongs to a Go object (a *UnitsDefinition, an *ObjectSchema, a *RefSchema); the
   syntax has no pointers, so every NODE of the schema term gets a number: preorder, the node itself
   first, then its children left to right (`ssize`).  The objects of a scope are numbered inside the
   scope node, so an object reached through two references is ONE cell; the tables of the applied
   external namespaces are numbered after the root schema (`nenv0`).  The numbering environment `nenv`
   runs parallel to `env`.  (Schemas built by the harness allocate one UnitsDefinition per node; two
   nodes sharing one package-level definition such as UnitBytes share cells in Go and are distinct
   here — disciplined either way, but the fill prediction is stated for unshared definitions.)

   Each use also carries the CONTENT the cell is computed from (`xprim`): the value caches of
   Proofs/C13Cache.v are keyed by content. *)
From Verif Require Import Base.Prelude Base.Str Base.Float Base.GoVal
  Schema.Regex Schema.Units Schema.Syntax Schema.Ops ATP.Msg ATP.Footprint.
Open Scope string_scope.
Open Scope Z_scope.

(* ---------- numbering ---------- *)
Fixpoint ssize (s : schema) : N :=
  match s with
  | SList it _ _ => 1 + ssize it
  | SMap k v _ _ => 1 + ssize k + ssize v
  | SObject _ _ props => 1 + fold_right (fun np acc => ssize (p_type (snd np)) + acc) 0 props
  | SOneOf types _ _ _ => 1 + fold_right (fun km acc => ssize (snd km) + acc) 0 types
  | SScope objs _ => 1 + fold_right (fun io acc => ssize (snd io) + acc) 0 objs
  | _ => 1
  end%N.

Definition tab_size (t : objtab) : N := fold_right (fun io acc => (ssize (snd io) + acc)%N) 0%N t.

(* the number of the first entry with that key, entries numbered consecutively from b (the same
   first-match rule as alookup / find) *)
Fixpoint tab_off (b : N) (objs : objtab) (id : string) : N :=
  match objs with
  | [] => b
  | (k, o) :: t => if String.eqb id k then b else tab_off (b + ssize o)%N t id
  end.
Fixpoint types_off (b : N) (types : list (okey * schema)) (key : okey) : N :=
  match types with
  | [] => b
  | (k, m) :: t => if okey_eqb k key then b else types_off (b + ssize m)%N t key
  end.
Fixpoint prop_off (b : N) (props : list (string * property)) (name : string) : N :=
  match props with
  | [] => b
  | (k, p) :: t => if String.eqb name k then b else prop_off (b + ssize (p_type p))%N t name
  end.

Record nenv := mkNenv {
  n_self : N;                       (* number of the first object of e_self *)
  n_ext : list (string * N) }.      (* per applied namespace: number of the first object of its table *)

(* parallel to Syntax.resolve: the number of the target object and the numbering of ITS environment *)
Definition nresolve (ne : nenv) (e : env) (id ns : string) : N * nenv :=
  if String.eqb ns "" then (tab_off (n_self ne) (e_self e) id, ne)
  else match alookup ns (e_ext e), alookup ns (n_ext ne) with
       | Some tab, Some tb => (tab_off tb tab id, mkNenv tb (n_ext ne))
       | _, _ => (0%N, ne)
       end.

Fixpoint ext_bases (b : N) (exts : list (string * objtab)) : list (string * N) :=
  match exts with
  | [] => []
  | (ns, t) :: r => (ns, b) :: ext_bases (b + tab_size t)%N r
  end.
(* the root schema is node 0; then the objects of e_self; then the external tables *)
Definition nenv0 (e : env) (s : schema) : nenv :=
  mkNenv (ssize s) (ext_bases (ssize s + tab_size (e_self e))%N (e_ext e)).

(* ---------- primitive uses with the content they are computed from ---------- *)
Inductive xprim :=
| XRe (n : N) (u : units)
| XSorted (n : N) (u : units)
| XDefaults (n : N) (texts : list string)      (* the default texts extractObjectDefaultValues decodes *)
| XLink (n : N).
Definition prim_of (x : xprim) : prim :=
  match x with
  | XRe n _ => PRe n | XSorted n _ => PSorted n | XDefaults n _ => PDefaults n | XLink n => PLink n
  end.

Definition is_blank_str (s : string) : bool :=
  match chars (trim_space s) with [] => true | _ => false end.

(* intInputMapper / floatInputMapper: only a string is parsed, and only when the schema has units *)
Definition uparse_x (n : N) (u : option units) (v : gval) : list xprim :=
  match u, v with
  | Some us, VStr TStr s => if is_blank_str s then [] else [XRe n us; XSorted n us]
  | _, _ => []
  end.

Definition obj_texts (props : list (string * property)) : list string :=
  flat_map (fun np => match p_default (snd np) with Some t => [t] | None => [] end) props.

(* the uses of the elements one after the other, stopping after the first that does not succeed *)
Fixpoint seqp {A} (g : A -> list xprim * bool) (l : list A) : list xprim :=
  match l with
  | [] => []
  | x :: t => let '(p, ok) := g x in if ok then (p ++ seqp g t)%list else p
  end.

(* convertData, first loop (Ops.v: r0) *)
Definition obj_r0 (props : list (string * property)) (kvs : list (gval * gval)) : outcome raw :=
  fold_left (fun acc kv =>
               a <- acc ;;
               match fst kv with
               | VStr TStr k => if amem k props then Ok (a ++ [(k, snd kv)])%list else Err (cerr EKey)
               | _ => Err (cerr EKey)
               end) kvs (Ok []).
(* convertData, second loop (Ops.v: r1) with its GetDefaults calls: one per property that is not set *)
Definition obj_r1x (o : oracles) (nb : N) (props : list (string * property)) (r0 : raw) : raw * list xprim :=
  fold_left (fun ap np =>
               let '(a, ps) := ap in
               if amem (fst np) a then (a, ps)
               else (match p_default (snd np) with
                     | Some txt => match decode_default o (snd np) txt with
                                   | Some d => (a ++ [(fst np, d)])%list
                                   | None => a
                                   end
                     | None => a
                     end, (ps ++ [XDefaults nb (obj_texts props)])%list)) props (r0, []).

Section WithTables.
Variable words : list (string * bool).
Variable pu : units -> string -> option fl.
(* cont = false: the uses of THIS evaluation order, stopping at the first error like Ops.v.
   cont = true : the iteration over the entries of a Go map (a map value, the properties of an object)
   goes on after an entry failed — the UNION of the uses over all iteration orders the Go runtime may
   pick; for an operation that succeeds the two coincide as sets.  (Used by the sequential footprint
   correspondence as the upper bound for operations that fail.) *)
Variable cont : bool.
Definition go_on {A} (o : outcome A) : bool := cont || is_ok o.
Notation p_unser := (unser words pu).
Notation p_validate := (validate words pu).
Notation p_serialize := (serialize words pu).
Notation p_compat := (compat words pu).
Notation p_oneof_find := (oneof_find words pu).

Definition oneof_ukey (ik : bool) (d : gval) : option okey :=
  if ik then option_map KI (int_mapper None d) else option_map KS (string_mapper d).
Definition oneof_vkey (ik : bool) (d : gval) : option okey :=
  if ik then match d with VInt (TInt I64) z => Some (KI z) | _ => None end
  else match d with VStr TStr s0 => Some (KS s0) | _ => None end.

Fixpoint xprims_unser (fuel : nat) (nb : N) (ne : nenv) (e : env) (s : schema) (v : gval) {struct fuel} : list xprim :=
  match fuel with
  | O => []
  | S f =>
    match s with
    | SInt _ _ u => uparse_x nb u v
    | SFloat _ _ u => uparse_x nb u v
    | SEnumInt _ u => uparse_x nb u v
    | SList it mn mx =>
        match v with
        | VSlice _ _ l =>
            if size_ok mn mx (zlen l)
            then seqp (fun x => (xprims_unser f (nb + 1)%N ne e it x, go_on (p_unser f e it x))) l
            else []
        | _ => []
        end
    | SMap ks vs mn mx =>
        match v with
        | VMap _ _ kvs =>
            if size_ok mn mx (zlen kvs)
            then seqp (fun kv =>
                         let pk := xprims_unser f (nb + 1)%N ne e ks (fst kv) in
                         if go_on (p_unser f e ks (fst kv))
                         then ((pk ++ xprims_unser f (nb + 1 + ssize ks)%N ne e vs (snd kv))%list,
                               go_on (p_unser f e vs (snd kv)))
                         else (pk, false)) kvs
            else []
        | _ => []
        end
    | SObject _ _ props =>
        match v with
        | VMap _ _ kvs =>
            match obj_r0 props kvs with
            | Ok r0 =>
                let '(r1, pd) := obj_r1x (e_or e) nb props r0 in
                let '(_, _, p2) :=
                  fold_left (fun st np =>
                               let '(acc, b, ps) := st in
                               let b' := (b + ssize (p_type (snd np)))%N in
                               match acc with
                               | Ok a =>
                                   match alookup (fst np) a with
                                   | Some d =>
                                       if p_disabled (snd np) then ((if cont then acc else Err (cerr EDisabled)), b', ps)
                                       else (match p_unser f e (p_type (snd np)) d with
                                             | Ok x => Ok (raw_set (fst np) x a)
                                             | r => if cont then acc else (x <- r ;; Ok a)
                                             end, b',
                                             (ps ++ xprims_unser f b ne e (p_type (snd np)) d)%list)
                                   | None => (acc, b', ps)
                                   end
                               | _ => (acc, b', ps)
                               end) props (Ok r1, (nb + 1)%N, []) in
                (pd ++ p2)%list
            | _ => []
            end
        | _ =>
            match props with
            | [(name, p)] => if p_disabled p then [] else xprims_unser f (nb + 1)%N ne e (p_type p) v
            | _ => []
            end
        end
    | SOneOf types ik field inlined =>
        match v with
        | VMap _ _ kvs =>
            if forallb (fun kv => match fst kv with VStr TStr _ => true | _ => false end) kvs then
              match smap_get field kvs with
              | None => []
              | Some d =>
                  match oneof_ukey ik d with
                  | None => []
                  | Some key =>
                      match find (fun ks => okey_eqb (fst ks) key) types with
                      | None => []
                      | Some (_, member) =>
                          xprims_unser f (types_off (nb + 1)%N types key) ne e member
                            (VMap t_str_map false (if inlined then kvs else smap_del field kvs))
                      end
                  end
              end
            else []
        | _ => []
        end
    | SRef id ns _ =>
        XLink nb ::
        match resolve e id ns with
        | Some (o, e') => let '(b, ne') := nresolve ne e id ns in xprims_unser f b ne' e' o v
        | None => []
        end
    | SScope objs root =>
        match alookup root objs with
        | Some o => xprims_unser f (tab_off (nb + 1)%N objs root) (mkNenv (nb + 1)%N (n_ext ne)) (env_enter e objs) o v
        | None => []
        end
    | _ => []
    end
  end

with xprims_validate (fuel : nat) (nb : N) (ne : nenv) (e : env) (s : schema) (v : gval) {struct fuel} : list xprim :=
  match fuel with
  | O => []
  | S f =>
    match s with
    | SList it mn mx =>
        match v with
        | VSlice _ _ l =>
            if size_ok mn mx (zlen l)
            then seqp (fun x => (xprims_validate f (nb + 1)%N ne e it x, go_on (p_validate f e it x))) l
            else []
        | _ => []
        end
    | SMap ks vs mn mx =>
        match v with
        | VMap _ _ kvs =>
            if size_ok mn mx (zlen kvs)
            then seqp (fun kv =>
                         let pk := xprims_validate f (nb + 1)%N ne e ks (fst kv) in
                         if go_on (p_validate f e ks (fst kv))
                         then ((pk ++ xprims_validate f (nb + 1 + ssize ks)%N ne e vs (snd kv))%list,
                               go_on (p_validate f e vs (snd kv)))
                         else (pk, false)) kvs
            else []
        | _ => []
        end
    | SObject _ _ props =>
        match is_str_any_map v with
        | Some kvs =>
            let r := raw_of_entries kvs in
            if is_ok (check_rules props (fun k => amem k r))
            then seqp (fun kv => match alookup (fst kv) props with
                                 | Some p => (xprims_validate f (prop_off (nb + 1)%N props (fst kv)) ne e (p_type p) (snd kv),
                                              go_on (p_validate f e (p_type p) (snd kv)))
                                 | None => ([], cont)
                                 end) r
            else []
        | None => []
        end
    | SOneOf types ik field inlined =>
        (xprims_oneof_find f nb ne e types ik field inlined v ++
         match p_oneof_find f e types ik field inlined v with
         | Ok (key, member, data') => xprims_validate f (types_off (nb + 1)%N types key) ne e member data'
         | _ => []
         end)%list
    | SRef id ns _ =>
        XLink nb ::
        match resolve e id ns with
        | Some (o, e') => let '(b, ne') := nresolve ne e id ns in xprims_validate f b ne' e' o v
        | None => []
        end
    | SScope objs root =>
        match alookup root objs with
        | Some o => xprims_validate f (tab_off (nb + 1)%N objs root) (mkNenv (nb + 1)%N (n_ext ne)) (env_enter e objs) o v
        | None => []
        end
    | _ => []
    end
  end

(* nb: the number of the one-of node *)
with xprims_oneof_find (fuel : nat) (nb : N) (ne : nenv) (e : env) (types : list (okey * schema)) (ik : bool)
                       (field : string) (inlined : bool) (v : gval) {struct fuel} : list xprim :=
  match fuel with
  | O => []
  | S f =>
    match v with
    | VNil => []
    | _ =>
      match kind_of v with
      | KMap =>
          match is_str_any_map v with
          | None => []
          | Some kvs =>
              match smap_get field kvs with
              | None | Some VNil => []
              | Some d =>
                  match oneof_vkey ik d with
                  | None => []
                  | Some key =>
                      match find (fun ks => okey_eqb (fst ks) key) types with
                      | None => []
                      | Some (_, member) =>
                          xprims_compat f (types_off (nb + 1)%N types key) ne e member
                            (VMap t_str_map false (if inlined then kvs else smap_del field kvs))
                      end
                  end
              end
          end
      | _ => []
      end
    end
  end

with xprims_serialize (fuel : nat) (nb : N) (ne : nenv) (e : env) (s : schema) (v : gval) {struct fuel} : list xprim :=
  match fuel with
  | O => []
  | S f =>
    match s with
    | SList it mn mx =>
        let pv := xprims_validate f nb ne e s v in
        if is_ok (p_validate f e s v) then
          match v with
          | VSlice _ _ l =>
              (pv ++ seqp (fun x => (xprims_serialize f (nb + 1)%N ne e it x, go_on (p_serialize f e it x))) l)%list
          | _ => pv
          end
        else pv
    | SMap ks vs mn mx =>
        let pv := xprims_validate f nb ne e s v in
        if is_ok (p_validate f e s v) then
          match v with
          | VMap _ _ kvs =>
              (pv ++ seqp (fun kv =>
                             let pk := xprims_serialize f (nb + 1)%N ne e ks (fst kv) in
                             if go_on (p_serialize f e ks (fst kv))
                             then ((pk ++ xprims_serialize f (nb + 1 + ssize ks)%N ne e vs (snd kv))%list,
                                   go_on (p_serialize f e vs (snd kv)))
                             else (pk, false)) kvs)%list
          | _ => pv
          end
        else pv
    | SObject _ _ props =>
        match is_str_any_map v with
        | Some kvs =>
            let r := raw_of_entries kvs in
            if is_ok (check_rules props (fun k => amem k r))
            then seqp (fun kv => match alookup (fst kv) props with
                                 | Some p => (xprims_serialize f (prop_off (nb + 1)%N props (fst kv)) ne e (p_type p) (snd kv),
                                              go_on (p_serialize f e (p_type p) (snd kv)))
                                 | None => ([], cont)
                                 end) r
            else []
        | None => []
        end
    | SOneOf types ik field inlined =>
        (xprims_oneof_find f nb ne e types ik field inlined v ++
         match p_oneof_find f e types ik field inlined v with
         | Ok (key, member, data') => xprims_serialize f (types_off (nb + 1)%N types key) ne e member data'
         | _ => []
         end)%list
    | SRef id ns _ =>
        XLink nb ::
        match resolve e id ns with
        | Some (o, e') => let '(b, ne') := nresolve ne e id ns in xprims_serialize f b ne' e' o v
        | None => []
        end
    | SScope objs root =>
        match alookup root objs with
        | Some o => xprims_serialize f (tab_off (nb + 1)%N objs root) (mkNenv (nb + 1)%N (n_ext ne)) (env_enter e objs) o v
        | None => []
        end
    | _ => []
    end
  end

with xprims_compat (fuel : nat) (nb : N) (ne : nenv) (e : env) (s : schema) (v : gval) {struct fuel} : list xprim :=
  match fuel with
  | O => []
  | S f =>
    match s with
    | SInt _ _ _ | SFloat _ _ _ | SBool => xprims_unser f nb ne e s v
    | SString _ _ _ => match v with VStr TStr _ => xprims_unser f nb ne e s v | _ => [] end
    | SEnumInt _ _ | SEnumStr _ _ | SPattern => xprims_validate f nb ne e s v
    | SAny => []                                  (* no cell below an any schema *)
    | SList it _ _ =>
        match v with
        | VSlice _ _ l => seqp (fun x => (xprims_compat f (nb + 1)%N ne e it x, go_on (p_compat f e it x))) l
        | VPtr t (Some (VSlice _ _ l)) =>
            match underlying t with
            | TPtr te => match kind_of_type te with
                         | KSlice => seqp (fun x => (xprims_compat f (nb + 1)%N ne e it x, go_on (p_compat f e it x))) l
                         | _ => []
                         end
            | _ => []
            end
        | _ => []
        end
    | SMap ks vs mn mx =>
        match v with
        | VMap _ _ kvs =>
            if size_ok mn mx (zlen kvs)
            then seqp (fun kv =>
                         let pk := xprims_compat f (nb + 1)%N ne e ks (fst kv) in
                         if go_on (p_compat f e ks (fst kv))
                         then ((pk ++ xprims_compat f (nb + 1 + ssize ks)%N ne e vs (snd kv))%list,
                               go_on (p_compat f e vs (snd kv)))
                         else (pk, false)) kvs
            else []
        | _ => []
        end
    | SObject _ _ props =>
        match is_str_any_map v with
        | Some kvs =>
            seqp (fun kv => match alookup (fst kv) props with
                            | Some p => (xprims_compat f (prop_off (nb + 1)%N props (fst kv)) ne e (p_type p) (snd kv),
                                         cont || (is_ok (p_compat f e (p_type p) (snd kv)) && negb (p_disabled p)))
                            | None => ([], cont)
                            end) (raw_of_entries kvs)
        | None => xprims_unser f nb ne e s v
        end
    | SOneOf types ik field inlined =>
        match is_str_any_map v with
        | Some _ => xprims_oneof_find f nb ne e types ik field inlined v
        | None =>
            match kind_of v with
            | KStruct => []
            | KPtr => match v with
                      | VPtr _ (Some (VStruct _ _)) | VOpaque OPtr _ => []
                      | VPtr _ None => []
                      | _ => xprims_validate f nb ne e s v
                      end
            | _ => xprims_validate f nb ne e s v
            end
        end
    | SRef id ns _ =>
        XLink nb ::
        match resolve e id ns with
        | Some (o, e') => let '(b, ne') := nresolve ne e id ns in xprims_compat f b ne' e' o v
        | None => []
        end
    | SScope objs root =>
        match alookup root objs with
        | Some o => xprims_compat f (tab_off (nb + 1)%N objs root) (mkNenv (nb + 1)%N (n_ext ne)) (env_enter e objs) o v
        | None => []
        end
    end
  end.

End WithTables.



(* the shape of the schema as far as a list of uses looks at it: which definitions declare
   multipliers, which objects decode their defaults lazily (`lazy`: the object came out of the
   meta-schema's Unserialize and was never linked — ObjectSchema.ApplyNamespace decodes the defaults
   of every object it links, constructors decode them at once) *)
Definition has_mults (u : units) : bool := match u_mults u with [] => false | _ => true end.
Definition shape_of (xs : list xprim) (lazy : bool) : shape :=
  mkShape (fun n => existsb (fun x => match x with
                                      | XRe m u | XSorted m u => N.eqb n m && has_mults u
                                      | _ => false
                                      end) xs)
          (fun _ => lazy).

(* the operations on a root schema: node 0, numbering environment nenv0 *)
Definition prims_unser (words : list (string * bool)) (pu : units -> string -> option fl) (fuel : nat) (e : env) (s : schema) (v : gval) : list prim :=
  map prim_of (xprims_unser words pu false fuel 0%N (nenv0 e s) e s v).
Definition prims_validate (words : list (string * bool)) (pu : units -> string -> option fl) (fuel : nat) (e : env) (s : schema) (v : gval) : list prim :=
  map prim_of (xprims_validate words pu false fuel 0%N (nenv0 e s) e s v).
Definition prims_serialize (words : list (string * bool)) (pu : units -> string -> option fl) (fuel : nat) (e : env) (s : schema) (v : gval) : list prim :=
  map prim_of (xprims_serialize words pu false fuel 0%N (nenv0 e s) e s v).
Definition prims_compat (words : list (string * bool)) (pu : units -> string -> option fl) (fuel : nat) (e : env) (s : schema) (v : gval) : list prim :=
  map prim_of (xprims_compat words pu false fuel 0%N (nenv0 e s) e s v).

