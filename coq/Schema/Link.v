(* Schema/Link.v — the imperative linking of references (C14).

   In Go a RefSchema carries a mutable `referencedObjectCache`; NewScopeSchema calls ApplySelf,
   ApplyNamespace(objects, ns) walks lists / maps / objects / properties / one-ofs / scopes and
   sets the cache of every reference whose namespace is ns; a scope passes ITS OWN object table
   down when ns is the self namespace and the table it was given otherwise (scope.go:104-115,
   ref.go:110-125).  Here the caches are a link table: reference occurrence (its path from the
   root, the same text the harness prints) -> the object it is linked to, the table that object
   lives in and where that table comes from.  An occurrence without an entry has a nil cache.

   Occurrence paths are STRUCTURED (a list of steps, innermost step first) so that distinct
   occurrences provably have distinct paths whatever characters ids and property names contain;
   `lpath_text` gives the text the harness prints (used only by Interp/RunLink.v).

   All walks recurse on fuel (the nesting depth of the schema text bounds it); theorems hold for
   every fuel. *)
From Verif Require Import Base.Prelude Base.Str Base.Float Base.GoVal
  Schema.Regex Schema.Units Schema.Syntax Schema.Ops Schema.Wf.
Open Scope string_scope.

Inductive pstep := PItem | PKey | PVal | PProp (n : string) | PMember (k : okey) | PObj (id : string).
Definition lpath := list pstep.                    (* innermost step first; [] = the root *)
Definition pstep_eqb (a b : pstep) : bool :=
  match a, b with
  | PItem, PItem | PKey, PKey | PVal, PVal => true
  | PProp x, PProp y => String.eqb x y
  | PMember x, PMember y => okey_eqb x y
  | PObj x, PObj y => String.eqb x y
  | _, _ => false
  end.
Fixpoint lpath_eqb (a b : lpath) : bool :=
  match a, b with
  | [], [] => true
  | x :: a', y :: b' => pstep_eqb x y && lpath_eqb a' b'
  | _, _ => false
  end.
Definition pstep_text (s : pstep) : string :=
  match s with
  | PItem => "/i" | PKey => "/k" | PVal => "/v"
  | PProp n => "/p:" ++ n | PMember k => "/m:" ++ okey_text k | PObj id => "/O:" ++ id
  end.
(* the text of a path, outermost step first: "/O:A/p:b/i" *)
Definition lpath_text (p : lpath) : string := fold_right (fun st acc => acc ++ pstep_text st) "" p.

Inductive lloc := LScope (p : lpath) | LExt (ns : string).
Record lentry := mkLE { le_loc : lloc; le_tab : objtab; le_obj : schema }.
Definition ltab := list (lpath * lentry).          (* newest first *)
Fixpoint lt_get (p : lpath) (lt : ltab) : option lentry :=
  match lt with
  | [] => None
  | (q, x) :: t => if lpath_eqb p q then Some x else lt_get p t
  end.
Definition lt_set (p : lpath) (x : lentry) (lt : ltab) : ltab := (p, x) :: lt.

Definition seg_item (p : lpath) : lpath := PItem :: p.
Definition seg_key (p : lpath) : lpath := PKey :: p.
Definition seg_val (p : lpath) : lpath := PVal :: p.
Definition seg_prop (p : lpath) (n : string) : lpath := PProp n :: p.
Definition seg_member (p : lpath) (k : okey) : lpath := PMember k :: p.
Definition seg_obj (p : lpath) (id : string) : lpath := PObj id :: p.

(* the table ApplyNamespace hands down, and where it comes from *)
Definition lsrc := option (objtab * lloc).

(* before D61: validateSubtypeDiscriminatorInlineFields read Properties() of EVERY member right after
   the walk, and a member that was a still-unlinked reference panicked there *)
Definition member_ready (lt : ltab) (p : lpath) (m : schema) : bool :=
  match m with
  | SRef _ _ _ => match lt_get p lt with Some _ => true | None => false end
  | _ => true
  end.

(* s.ApplyNamespace(objects, ns) *)
Fixpoint link_ns (fuel : nat) (src : lsrc) (ns : string) (here : lpath) (s : schema) (lt : ltab)
  {struct fuel} : outcome ltab :=
  match fuel with
  | O => OutOfFuel
  | S f =>
    match s with
    | SList it _ _ => link_ns f src ns (seg_item here) it lt
    | SMap k v _ _ => lt1 <- link_ns f src ns (seg_key here) k lt ;; link_ns f src ns (seg_val here) v lt1
    | SObject _ _ props =>
        fold_left (fun acc np => a <- acc ;; link_ns f src ns (seg_prop here (fst np)) (p_type (snd np)) a) props (Ok lt)
    | SOneOf types _ _ _ =>
        (* D61 (repaired): validateSubtypeDiscriminatorInlineFields skips members whose reference is not
           linked yet, so applying one namespace does not trip over members of another *)
        fold_left (fun acc km => a <- acc ;; link_ns f src ns (seg_member here (fst km)) (snd km) a) types (Ok lt)
    | SRef id rns _ =>
        if String.eqb rns ns then
          match src with
          | Some (objs, loc) =>
              match alookup id objs with
              | Some o => Ok (lt_set here (mkLE loc objs o) lt)
              | None => Panic "referenced object not found"
              end
          | None => Panic "referenced object not found"
          end
        else Ok lt                                   (* another namespace: untouched *)
    | SScope objs _ =>
        let src' := if String.eqb ns "" then Some (objs, LScope here) else src in
        fold_left (fun acc io => a <- acc ;; link_ns f src' ns (seg_obj here (fst io)) (snd io) a) objs (Ok lt)
    | _ => Ok lt
    end
  end.

(* construction through the public constructors: inner scopes exist (and have applied themselves)
   before the scope that contains them is built *)
Fixpoint link_build (fuel : nat) (here : lpath) (s : schema) (lt : ltab) {struct fuel} : outcome ltab :=
  match fuel with
  | O => OutOfFuel
  | S f =>
    match s with
    | SList it _ _ => link_build f (seg_item here) it lt
    | SMap k v _ _ => lt1 <- link_build f (seg_key here) k lt ;; link_build f (seg_val here) v lt1
    | SObject _ _ props =>
        fold_left (fun acc np => a <- acc ;; link_build f (seg_prop here (fst np)) (p_type (snd np)) a) props (Ok lt)
    | SOneOf types _ _ _ =>
        fold_left (fun acc km => a <- acc ;; link_build f (seg_member here (fst km)) (snd km) a) types (Ok lt)
    | SScope objs _ =>
        lt1 <- fold_left (fun acc io => a <- acc ;; link_build f (seg_obj here (fst io)) (snd io) a) objs (Ok lt) ;;
        link_ns f None "" here s lt1                  (* NewScopeSchema: ApplySelf *)
    | _ => Ok lt
    end
  end.

(* a tree REBUILT from its description (UnserializeScope): every scope of it is a plain struct value, none went
   through NewScopeSchema; ONE ApplySelf of the outermost scope links the whole tree — a nested scope hands its
   OWN table down when the self namespace is applied (link_ns, SScope case) *)
Definition link_rebuilt (fuel : nat) (s : schema) : outcome ltab := link_ns fuel None "" [] s [].

(* s.ApplyNamespace(tab, ns) for an external namespace *)
Definition link_ext (fuel : nat) (ns : string) (tab : objtab) (s : schema) (lt : ltab) : outcome ltab :=
  link_ns fuel (Some (tab, LExt ns)) ns [] s lt.

(* every reference occurrence: path, id, namespace *)
Fixpoint refs_of (fuel : nat) (here : lpath) (s : schema) {struct fuel} : list (lpath * (string * string)) :=
  match fuel with
  | O => []
  | S f =>
    match s with
    | SList it _ _ => refs_of f (seg_item here) it
    | SMap k v _ _ => refs_of f (seg_key here) k ++ refs_of f (seg_val here) v
    | SObject _ _ props => flat_map (fun np => refs_of f (seg_prop here (fst np)) (p_type (snd np))) props
    | SOneOf types _ _ _ => flat_map (fun km => refs_of f (seg_member here (fst km)) (snd km)) types
    | SRef id ns _ => [(here, (id, ns))]
    | SScope objs _ => flat_map (fun io => refs_of f (seg_obj here (fst io)) (snd io)) objs
    | _ => []
    end
  end.

(* ValidateReferences: nil iff every reference reached has a cache *)
Fixpoint validate_refs (fuel : nat) (lt : ltab) (here : lpath) (s : schema) {struct fuel} : bool :=
  match fuel with
  | O => true
  | S f =>
    match s with
    | SList it _ _ => validate_refs f lt (seg_item here) it
    | SMap k v _ _ => validate_refs f lt (seg_key here) k && validate_refs f lt (seg_val here) v
    | SObject _ _ props => forallb (fun np => validate_refs f lt (seg_prop here (fst np)) (p_type (snd np))) props
    | SOneOf types _ _ _ => forallb (fun km => validate_refs f lt (seg_member here (fst km)) (snd km)) types
    | SRef _ _ _ => match lt_get here lt with Some _ => true | None => false end
    | SScope objs _ => forallb (fun io => validate_refs f lt (seg_obj here (fst io)) (snd io)) objs
    | _ => true
    end
  end.

(* the same occurrences with the environment the data operations (Ops.v) resolve them in *)
Fixpoint refs_env (fuel : nat) (e : env) (here : lpath) (s : schema) {struct fuel}
  : list (lpath * (env * (string * string))) :=
  match fuel with
  | O => []
  | S f =>
    match s with
    | SList it _ _ => refs_env f e (seg_item here) it
    | SMap k v _ _ => refs_env f e (seg_key here) k ++ refs_env f e (seg_val here) v
    | SObject _ _ props => flat_map (fun np => refs_env f e (seg_prop here (fst np)) (p_type (snd np))) props
    | SOneOf types _ _ _ => flat_map (fun km => refs_env f e (seg_member here (fst km)) (snd km)) types
    | SRef id ns _ => [(here, (e, (id, ns)))]
    | SScope objs _ => flat_map (fun io => refs_env f (env_enter e objs) (seg_obj here (fst io)) (snd io)) objs
    | _ => []
    end
  end.

(* replacing self-namespace references by their targets (the metamorphic partner).  `stop` lists the
   ids that must stay references (members of a reference cycle). *)
Fixpoint inline_refs (fuel : nat) (tab : objtab) (stop : list string) (s : schema) {struct fuel} : schema :=
  match fuel with
  | O => s
  | S f =>
    match s with
    | SList it mn mx => SList (inline_refs f tab stop it) mn mx
    | SMap k v mn mx => SMap (inline_refs f tab stop k) (inline_refs f tab stop v) mn mx
    | SObject id u props =>
        SObject id u (map (fun np => (fst np, mkProp (inline_refs f tab stop (p_type (snd np))) (p_display (snd np))
                                               (p_required (snd np)) (p_required_if (snd np)) (p_required_if_not (snd np))
                                               (p_conflicts (snd np)) (p_default (snd np)) (p_examples (snd np))
                                               (p_empty_is_default (snd np)) (p_disabled (snd np)) (p_disabled_reason (snd np)))) props)
    | SOneOf types ik fd inlx => SOneOf (map (fun km => (fst km, inline_refs f tab stop (snd km))) types) ik fd inlx
    | SRef id ns d =>
        if String.eqb ns "" && negb (str_in id stop) then
          match alookup id tab with Some o => inline_refs f tab stop o | None => s end
        else s
    | SScope objs root =>
        SScope (map (fun io => (fst io, inline_refs f objs stop (snd io))) objs) root
    | _ => s
    end
  end.

(* ---------- boolean side conditions of the C14 theorems (evaluated on every generated case by
   Interp/RunLink.v) ---------- *)
Fixpoint okey_in (k : okey) (l : list okey) : bool :=
  match l with [] => false | x :: t => okey_eqb k x || okey_in k t end.
Fixpoint nodup_okey (l : list okey) : bool :=
  match l with [] => true | x :: t => negb (okey_in x t) && nodup_okey t end.

(* unique keys in every property / member / object list (Go maps): distinct occurrences, distinct paths *)
Fixpoint luniq (s : schema) {struct s} : bool :=
  match s with
  | SList it _ _ => luniq it
  | SMap k v _ _ => luniq k && luniq v
  | SObject _ _ props => nodup_str (map fst props) && forallb (fun np => luniq (p_type (snd np))) props
  | SOneOf types _ _ _ => nodup_okey (map fst types) && forallb (fun km => luniq (snd km)) types
  | SScope objs _ => nodup_str (map fst objs) && forallb (fun io => luniq (snd io)) objs
  | _ => true
  end.

(* namespace names are distinct and none of them is the self namespace *)
Definition ns_names_ok (apps : list (string * objtab)) : bool :=
  nodup_str (map fst apps) && negb (str_in "" (map fst apps)).

(* scope tables hold objects (in Go: map[string]*ObjectSchema), checked at every self-namespace reference *)
Definition ref_obj (e : env) (s : schema) : bool :=
  match s with
  | SRef id ns _ =>
      if String.eqb ns "" then match alookup id (e_self e) with Some o => is_obj o | None => true end else true
  | _ => true
  end.
Definition refs_to_objects (e : env) (s : schema) : bool := all_env ref_obj e && all_nodes ref_obj e s.
