(* Schema/Decodable.v — the boolean membership test for the class of values a CBOR / JSON / YAML
   decoder can hand over ("decodable"), used by the interpreter of the c05transparent cases
   (Interp/RunAtpxp.v).  It lives in a MODEL file so that the extraction does not depend on any
   proof file; Proofs/CborNorm.v proves it sound for the inductive `decodable` the theorem
   C05_norm_invariant speaks about (decodableb_sound / C05_decodable_check). *)
From Verif Require Import Base.Prelude Base.Str Base.Float Base.GoVal.

Fixpoint decodableb (fuel : nat) (v : gval) : bool :=
  match fuel with
  | O => false
  | S n =>
    match v with
    | VNil => true
    | VBool TBool _ => true
    | VInt (TInt k) z => ik_in k z
    | VFloat TF32 _ | VFloat TF64 _ => true
    | VStr TStr _ => true
    | VSlice (TSlice TAny) _ l => forallb (decodableb n) l
    | VMap (TMap TAny TAny) _ kvs =>
        forallb (fun kv : gval * gval => decodableb n (fst kv) && decodableb n (snd kv)) kvs
    | VMap (TMap TStr TAny) _ kvs =>
        forallb (fun kv : gval * gval =>
                   (match fst kv with VStr TStr _ => true | _ => false end) && decodableb n (snd kv)) kvs
    | _ => false
    end
  end.
