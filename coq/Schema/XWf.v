(* Schema/XWf.v — well-formedness of schemas with struct-mapped objects: Schema/Wf.v's `wf_schema`
   (the constructors' documented panicking contracts, checked at every node in the environment the
   node is evaluated in) over XSyntax.xschema, plus what NewStructMappedObjectSchema[T] guarantees
   when it returns: buildObjectFieldCache found a struct field for EVERY property (it panics
   otherwise).  It guarantees nothing about the TYPES of those fields: a field whose type the
   unserialized value cannot be converted to makes unserializeToStruct return the constraint error
   "Field cannot be set" (reflect's panic is recovered), which the model carries (xto_struct), so no
   type condition is needed for totality; Schema/XWf.v's `xtyped` (the round-trip theorems) is the
   place where field types matter.

   Proofs/XTotal.v: `xwf (embed_env st e) (embed s) = wf_schema e s` (conservative). *)
From Verif Require Import Base.Prelude Base.Str Base.Float Base.GoVal Base.XReflect
  Schema.Regex Schema.Units Schema.Syntax Schema.Ops Schema.Wf Schema.XSyntax Schema.XOps.
Open Scope string_scope.

(* ---------- generic traversal: a local predicate at every node ---------- *)
Section XAllNodes.
Variable P : xenv -> xschema -> bool.

Fixpoint xall_nodes (e : xenv) (s : xschema) {struct s} : bool :=
  P e s &&
  match s with
  | XList it _ _ => xall_nodes e it
  | XMap k v _ _ => xall_nodes e k && xall_nodes e v
  | XObject _ _ props _ => forallb (fun np => xall_nodes e (p_type (snd np))) props
  | XOneOf types _ _ _ => forallb (fun km => xall_nodes e (snd km)) types
  | XScope objs _ => forallb (fun io => xall_nodes (xenv_enter e objs) (snd io)) objs
  | _ => true
  end.

Definition xall_tab (e : xenv) (tab : xobjtab) : bool :=
  forallb (fun io => xall_nodes (xenv_enter e tab) (snd io)) tab.

Definition xall_env (e : xenv) : bool :=
  forallb (fun io => xall_nodes e (snd io)) (xe_self e) &&
  forallb (fun nt => xall_tab e (snd nt)) (xe_ext e).
End XAllNodes.

(* ---------- the local contracts (Wf.wf_local, over xschema) ---------- *)
Definition xis_obj (s : xschema) : bool := match s with XObject _ _ _ _ => true | _ => false end.
Definition xobj_has_id (id : string) (s : xschema) : bool :=
  match s with XObject id' _ _ _ => String.eqb id id' | _ => false end.
Definition xobjlike (s : xschema) : bool :=
  match s with XObject _ _ _ _ | XRef _ _ _ | XScope _ _ => true | _ => false end.
Definition xkey_kind_ok (k : xschema) : bool :=
  match k with XInt _ _ _ | XString _ _ _ | XEnumInt _ _ | XEnumStr _ _ => true | _ => false end.

Definition xmember_props (e : xenv) (m : xschema) : option (list (string * xproperty)) :=
  match m with
  | XObject _ _ ps _ => Some ps
  | XRef id ns _ => match xresolve e id ns with Some (XObject _ _ ps _, _) => Some ps | _ => None end
  | XScope objs root => match alookup root objs with Some (XObject _ _ ps _) => Some ps | _ => None end
  | _ => None
  end.

Definition xdisc_type_ok (ik : bool) (t : xschema) : bool :=
  if ik then match t with XInt _ _ _ | XEnumInt _ _ => true | _ => false end
  else match t with XString _ _ _ | XEnumStr _ _ => true | _ => false end.

Definition xdefault_ok (o : oracles) (p : xproperty) : bool :=
  match p_default p with
  | None => true
  | Some txt => match xdecode_default o p txt with Some _ => true | None => false end
  end.

Definition xwf_member (e : xenv) (ik : bool) (field : string) (inlined : bool) (km : okey * xschema) : bool :=
  okey_is ik (fst km) && xobjlike (snd km) &&
  match xmember_props e (snd km) with
  | Some ps => match alookup field ps with
               | Some p => inlined && xdisc_type_ok ik (p_type p)
               | None => negb inlined
               end
  | None => false
  end.

(* buildObjectFieldCache: every property has a struct field *)
Definition xfields_ok (props : list (string * xproperty)) (mapped : option structinfo) : bool :=
  match mapped with
  | None => true
  | Some si => forallb (fun np => amem (fst np) (si_fields si)) props
  end.

Definition xwf_local (e : xenv) (s : xschema) : bool :=
  match s with
  | XMap k _ _ _ => xkey_kind_ok k
  | XEnumInt vals _ => nodup_by Z.eqb (map fst vals)
  | XEnumStr _ vals => nodup_str (map fst vals)
  | XObject _ _ props mapped =>
      nodup_str (map fst props) && forallb (fun np => xdefault_ok (xe_or e) (snd np)) props
      && xfields_ok props mapped
  | XOneOf types ik field inlined =>
      nodup_by okey_eqb (map fst types) && forallb (xwf_member e ik field inlined) types
  | XRef id ns _ => match xresolve e id ns with Some (o, _) => xis_obj o | None => false end
  | XScope objs root =>
      nodup_str (map fst objs) && forallb (fun io => xobj_has_id (fst io) (snd io)) objs && amem root objs
  | _ => true
  end.

Definition xwf (e : xenv) (s : xschema) : bool := xall_env xwf_local e && xall_nodes xwf_local e s.
