(* Schema/SpecRT.v — vocabulary of the round-trip property C01: wire values (what Serialize may
   emit), well-formed integers, the kinds for which the round trip is proved by induction, the
   conclusion of the round trip, and the typed entry points' final type assertion. *)
From Verif Require Import Base.Prelude Base.Str Base.Float Base.GoVal
  Schema.Regex Schema.Units Schema.Syntax Schema.Ops Schema.Cbor.
Open Scope string_scope.

(* the serialized (wire) form: nil-free trees of int64 / float64 / string / bool / []any /
   map[any]any / map[string]any *)
Fixpoint wire (v : gval) : bool :=
  match v with
  | VInt (TInt I64) _ => true
  | VFloat TF64 _ => true
  | VStr TStr _ => true
  | VBool TBool _ => true
  | VSlice t false l => gtype_eqb t t_any_slice && forallb wire l
  | VMap t false kvs =>
      (gtype_eqb t t_any_map || gtype_eqb t t_str_map)
      && forallb (fun kv => match kv with (k, x) => wire k && wire x end) kvs
  | _ => false
  end.

(* every integer inside the value lies in the range of its Go type (a Go value cannot be otherwise) *)
Fixpoint ints_in_range (v : gval) : bool :=
  match v with
  | VInt (TInt k) z => ik_in k z
  | VSlice _ _ l => forallb ints_in_range l
  | VMap _ _ kvs => forallb (fun kv => match kv with (k, x) => ints_in_range k && ints_in_range x end) kvs
  | _ => true
  end.

(* the kinds for which C01_roundtrip is proved by induction: scalars, enums, pattern, and lists
   of them nested to any depth *)
Fixpoint rt_kind (s : schema) : bool :=
  match s with
  | SInt _ _ _ | SFloat _ _ _ | SString _ _ _ | SBool | SPattern | SEnumInt _ _ | SEnumStr _ _ => true
  | SList it _ _ => rt_kind it
  | _ => false
  end.

Section RT.
Variable words : list (string * bool).
Variable pu : units -> string -> option fl.

(* the conclusion of the round trip for an unserialized value n, from fuel f0 on: n passes Validate,
   Serialize gives a wire value w, Unserialize of w — directly or after CBOR normalisation to any
   depth — gives n back (so Serialize of the re-unserialized value is w again) *)
Definition roundtrips (e : env) (s : schema) (n : gval) (f0 : nat) : Prop :=
  exists w, wire w = true /\
    forall f', (f0 <= f')%nat ->
      validate words pu f' e s n = Ok tt
      /\ serialize words pu f' e s n = Ok w
      /\ unser words pu f' e s w = Ok n
      /\ (forall D, unser words pu f' e s (cbor_norm D w) = Ok n)
      /\ (forall n2, unser words pu f' e s w = Ok n2 -> serialize words pu f' e s n2 = Ok w).

(* ---- typed entry points: UnserializeType = Unserialize followed by `.(T)` ---- *)
Definition typed_assert (t : gtype) (n : gval) : bool :=
  match t with
  | TAny => true
  | _ => match type_of n with Some t' => gtype_eqb t' t | None => false end
  end.

(* `asserted s` is the Go type the wrapper of schema s asserts *)
Definition unser_typed_with (asserted : schema -> gtype) (f : nat) (e : env) (s : schema) (v : gval) : outcome gval :=
  r <- unser words pu f e s v ;;
  if typed_assert (asserted s) r then Ok r else Panic "interface conversion".

Definition unser_typed := unser_typed_with rtype.
(* ValidateType / SerializeType only delegate *)
Definition validate_typed := validate words pu.
Definition serialize_typed := serialize words pu.

(* D13, before the repair: the typed string enum asserted `string` whatever its element type *)
Definition asserted_D13 (s : schema) : gtype := match s with SEnumStr _ _ => TStr | _ => rtype s end.

(* the kinds that have a typed constructor over the map-based model (references and scopes resolve
   through the environment; typed scopes / objects are struct-mapped) *)
Definition typed_kind (s : schema) : bool :=
  match s with SRef _ _ _ | SScope _ _ => false | _ => true end.
End RT.
