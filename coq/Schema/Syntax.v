(* Schema/Syntax.v — the schemas that can be built with the public constructors. *)
From Verif Require Import Base.Prelude Base.Str Base.Float Base.GoVal Schema.Regex Schema.Units.

Record display := mkDisplay { d_name : option string; d_desc : option string; d_icon : option string }.

(* one-of discriminator keys *)
Inductive okey := KI (z : Z) | KS (s : string).
Definition okey_eqb (a b : okey) : bool :=
  match a, b with KI x, KI y => x =? y | KS x, KS y => String.eqb x y | _, _ => false end.

(* PropertySchema, parameterised by the schema type so that `schema` below is an ordinary
   nested inductive *)
Record property_ (S : Type) := mkProp {
  p_type : S;
  p_display : option display;
  p_required : bool;
  p_required_if : list string;
  p_required_if_not : list string;
  p_conflicts : list string;
  p_default : option string;           (* JSON text *)
  p_examples : list string;
  p_empty_is_default : bool;           (* TreatEmptyAsDefaultValue *)
  p_disabled : bool;
  p_disabled_reason : option string }.
Arguments mkProp {S}. Arguments p_type {S}. Arguments p_display {S}. Arguments p_required {S}.
Arguments p_required_if {S}. Arguments p_required_if_not {S}. Arguments p_conflicts {S}.
Arguments p_default {S}. Arguments p_examples {S}. Arguments p_empty_is_default {S}.
Arguments p_disabled {S}. Arguments p_disabled_reason {S}.

Inductive schema :=
| SInt (mn mx : option Z) (u : option units)
| SFloat (mn mx : option fl) (u : option units)
| SString (mn mx : option Z) (pat : option (string * re))     (* source text, parsed form *)
| SBool
| SPattern
| SAny
| SEnumInt (vals : list (Z * option display)) (u : option units)
| SEnumStr (named : option string) (vals : list (string * option display))   (* Some T: ~string enum *)
| SList (item : schema) (mn mx : option Z)
| SMap (k v : schema) (mn mx : option Z)
| SObject (id : string) (unenforced : bool) (props : list (string * property_ schema))
| SOneOf (types : list (okey * schema)) (int_keys : bool) (field : string) (inlined : bool)
| SRef (id ns : string) (d : option display)
| SScope (objs : list (string * schema)) (root : string).

Definition property := property_ schema.

(* Go maps inside schemas (properties, values, types, objects) are association lists with
   unique keys; wherever the Go code ranges over such a map the model walks the list in the
   given order, and Go's unspecified order is quantification over permutations. *)

Definition objtab := list (string * schema).

(* recorded behaviour of libraries the model does not re-implement (DESIGN §2.5):
   encoding/json for property defaults, regexp.Compile for pattern values *)
Record oracles := mkOracles {
  o_json : string -> option gval;
  o_re_ok : string -> bool }.

(* resolution environment: the objects of the nearest enclosing scope, and the external
   namespaces that have been applied *)
Record env := mkEnv {
  e_self : objtab;
  e_ext : list (string * objtab);
  e_or : oracles }.

Definition env_enter (e : env) (objs : objtab) : env := mkEnv objs (e_ext e) (e_or e).

(* the object a reference is linked to, with the environment its own references live in;
   None = the reference was never linked (the Go code panics on use) *)
Definition resolve (e : env) (id ns : string) : option (schema * env) :=
  if String.eqb ns "" then
    match alookup id (e_self e) with Some o => Some (o, e) | None => None end
  else
    match alookup ns (e_ext e) with
    | Some tab => match alookup id tab with Some o => Some (o, env_enter e tab) | None => None end
    | None => None
    end.

(* TypeID, as far as the code branches on it *)
Inductive type_id :=
| IdInt | IdFloat | IdString | IdBool | IdPattern | IdAny | IdEnumInt | IdEnumStr
| IdList | IdMap | IdObject | IdOneOfInt | IdOneOfStr | IdRef | IdScope.

Definition type_id_of (s : schema) : type_id :=
  match s with
  | SInt _ _ _ => IdInt | SFloat _ _ _ => IdFloat | SString _ _ _ => IdString | SBool => IdBool
  | SPattern => IdPattern | SAny => IdAny | SEnumInt _ _ => IdEnumInt | SEnumStr _ _ => IdEnumStr
  | SList _ _ _ => IdList | SMap _ _ _ _ => IdMap | SObject _ _ _ => IdObject
  | SOneOf _ ik _ _ => if ik then IdOneOfInt else IdOneOfStr
  | SRef _ _ _ => IdRef | SScope _ _ => IdScope
  end.

(* ReflectedType for map-based objects: what Unserialize returns *)
Fixpoint rtype (s : schema) : gtype :=
  match s with
  | SInt _ _ _ | SEnumInt _ _ => TInt I64
  | SFloat _ _ _ => TF64
  | SString _ _ _ => TStr
  | SBool => TBool
  | SPattern => TRegexp
  | SAny => TAny
  | SEnumStr None _ => TStr
  | SEnumStr (Some n) _ => TNamed n TStr
  | SList it _ _ => TSlice (rtype it)
  | SMap k v _ _ => TMap (rtype k) (rtype v)
  | SObject _ _ _ | SRef _ _ _ | SScope _ _ => t_str_map
  | SOneOf _ _ _ _ => TAny
  end.
