#!/bin/bash
# Entry point registered in MANIFEST.json: ./check.sh <Cxx> <quick|thorough> | --setup | --replay <path>
cd "$(dirname "$0")"
exec python3 lib/check.py "$@"
