#!/bin/bash
# Entry point registered in MANIFEST.json: ./check.sh <Cxx> <quick|thorough> | --setup | --replay <path>
cd "$(dirname "$0")"
# one fixed interpreter (the system one) whatever the caller's PATH / conda / pyenv set-up is
PY=/usr/bin/python3
[ -x "$PY" ] || PY=python3
exec "$PY" lib/check.py "$@"
